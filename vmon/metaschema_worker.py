"""Validates recorded documents against the vendored official meta-schemas. Runs under python3-vt (jsonschema >= 4.18;
/venv only has 3.2.0, which cannot evaluate JSON Schema 2020-12).

usage: python3-vt metaschema_worker.py <vendor dir> <input.jsonl> <output.jsonl>
input lines : {"key": ..., "kind": "oas31" | "oas30" | "openrpc", "doc": {...}}
output lines: {"key": ..., "errors": [...], "stripped_errors": [...] (oas30 only), "refs": {"dangling": [...], "count": n}}
"""
import hashlib
import json
import os
import sys

import jsonschema


def load(vendor):
    man = json.load(open(os.path.join(vendor, 'MANIFEST.json')))
    out = {}
    for name, kind, cls in (('oas-3.1-meta.json', 'oas31', jsonschema.Draft202012Validator),
                            ('oas-3.0-meta.json', 'oas30', jsonschema.Draft4Validator),
                            ('openrpc-1.3.2.json', 'openrpc', jsonschema.Draft7Validator)):
        text = open(os.path.join(vendor, name)).read()
        if hashlib.sha256(text.encode()).hexdigest() != man[name]['sha256']:
            raise SystemExit(f'vendored meta-schema {name} does not match its pinned hash')
        schema = json.loads(text)
        out[kind] = cls(schema)
    return out


def deepest(e):
    """the innermost sub-error of a oneOf / anyOf failure (longest instance path; ties: first), to say WHERE the document is wrong"""
    best = e
    for sub in (e.context or []):
        d = deepest(sub)
        if len(d.absolute_path) > len(best.absolute_path):
            best = d
    return best


def errors_of(validator, doc, limit=6):
    errs = sorted(validator.iter_errors(doc), key=lambda e: list(map(str, e.absolute_path)))
    out = []
    for e in errs[:limit]:
        d = deepest(e)
        out.append({'path': '/'.join(map(str, e.absolute_path)), 'message': e.message[:200], 'validator': e.validator,
                    'deep_path': '/'.join(map(str, d.absolute_path)), 'deep_validator': d.validator, 'deep_message': d.message[:200]})
    return out


def strip_schemas(doc):
    """copy of an OpenAPI document with every Schema Object position replaced by {}"""
    d = json.loads(json.dumps(doc))
    comps = d.get('components', {})
    if isinstance(comps.get('schemas'), dict):
        comps['schemas'] = {k: {} for k in comps['schemas']}

    def walk(o):
        if isinstance(o, dict):
            for k, v in list(o.items()):
                if k == 'schema' and isinstance(v, dict):
                    o[k] = {}
                else:
                    walk(v)
        elif isinstance(o, list):
            for v in o:
                walk(v)
    walk(d.get('paths', {}))
    return d


def refs(doc):
    found, dangling = 0, []

    def resolve(ref):
        if not ref.startswith('#/'):
            return ref == '#'
        cur = doc
        for part in ref[2:].split('/'):
            part = part.replace('~1', '/').replace('~0', '~')
            if isinstance(cur, dict) and part in cur:
                cur = cur[part]
            elif isinstance(cur, list) and part.isdigit() and int(part) < len(cur):
                cur = cur[int(part)]
            else:
                return False
        return True

    def walk(o):
        nonlocal found
        if isinstance(o, dict):
            r = o.get('$ref')
            if isinstance(r, str):
                found += 1
                if r.startswith('#') and not resolve(r):
                    dangling.append(r)
            for k, v in o.items():
                if k in ('examples', 'example', 'value', 'default', 'const', 'enum'):
                    continue        # instance data, not schema structure
                walk(v)
        elif isinstance(o, list):
            for v in o:
                walk(v)
    walk(doc)
    return {'count': found, 'dangling': sorted(set(dangling))[:10]}


def main():
    vendor, inp, outp = sys.argv[1:4]
    validators = load(vendor)
    with open(inp) as f, open(outp, 'w') as g:
        for line in f:
            item = json.loads(line)
            v = validators[item['kind']]
            res = {'key': item['key'], 'errors': errors_of(v, item['doc']), 'refs': refs(item['doc'])}
            if item['kind'] == 'oas30':
                res['stripped_errors'] = errors_of(v, strip_schemas(item['doc']))
            g.write(json.dumps(res) + '\n')


if __name__ == '__main__':
    main()
