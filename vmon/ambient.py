"""Ambient contracts: supplementary monitors installed on the real classes, so that ANY workload (the monitors' own, or
the repository's test-suite run with `-p vmon.pytest_ambient`) is watched.

Record-and-return-True style: a condition never raises (a raising contract would abort what it observes); it appends to
REPORT['violations'] and the host decides at a quiescent point. Evaluation counts are kept; zero evaluations of a
contract means that contract was inconclusive (e.g. the name was bound before decoration).
"""
from __future__ import annotations

import functools
import os
import sys
from typing import Any, Dict, List

REPORT: Dict[str, Any] = {'evaluations': {}, 'violations': [], 'installed': [], 'icontract': False}


def _count(name: str) -> None:
    REPORT['evaluations'][name] = REPORT['evaluations'].get(name, 0) + 1


def _violate(contract: str, detail: Dict[str, Any]) -> None:
    if len(REPORT['violations']) < 50:
        REPORT['violations'].append({'contract': contract, **detail})


def install() -> Dict[str, Any]:
    from pjrpc.common import v20
    from pjrpc.server import dispatcher as disp_mod

    from . import strictjson
    from .models import wire

    deps = os.environ.get('VERIF_DEPS')
    if deps and os.path.isdir(deps) and deps not in sys.path:
        sys.path.append(deps)          # after site-packages: never shadows the repository's own dependencies
    try:
        import icontract
    except Exception:
        icontract = None

    # ---- C06: a strict batch never holds two messages with the same non-null id; len == number of messages
    def batch_ids_consistent(self) -> bool:
        _count('batch-invariant')
        try:
            msgs = list(self)
            ids = [m.id for m in msgs if m.id is not None]
            if len(self) != len(msgs):
                _violate('batch-invariant', {'what': 'len() disagrees with the contained messages', 'repr': repr(self)[:300]})
            if getattr(self, '_strict', True):
                seen: List[Any] = []
                for i in ids:
                    if any(type(i) is type(s) and i == s for s in seen):
                        _violate('batch-invariant', {'what': 'duplicate non-null id in a strict batch', 'repr': repr(self)[:300]})
                        break
                    seen.append(i)
        except Exception as e:      # the monitor itself must not disturb the code under test
            _violate('batch-invariant', {'what': f'invariant raised {type(e).__name__}: {e}'})
        return True

    if icontract is not None:
        class _Never(Exception):
            pass
        for cls in (v20.BatchRequest, v20.BatchResponse):
            icontract.invariant(batch_ids_consistent, error=_Never)(cls)
        REPORT['icontract'] = True
        REPORT['installed'].append('icontract.invariant(BatchRequest, BatchResponse)')

        # ---- C01 (last sentence): one code per response object, the error code or 0
        def codes_agree(response, result) -> bool:
            _count('extract_error_codes-ensure')
            try:
                if isinstance(response, v20.BatchResponse):
                    want = [response.error.code] if response.is_error else [r.error.code if r.is_error else 0 for r in response]
                else:
                    want = [response.error.code if response.is_error else 0]
                if list(result) != want:
                    _violate('extract_error_codes-ensure', {'what': 'codes disagree with the response object', 'codes': list(result), 'want': want})
            except Exception as e:
                _violate('extract_error_codes-ensure', {'what': f'postcondition raised {type(e).__name__}: {e}'})
            return True

        disp_mod.extract_error_codes = icontract.ensure(codes_agree, error=_Never)(disp_mod.extract_error_codes)
        REPORT['installed'].append('icontract.ensure(extract_error_codes)')

    # ---- C01: whatever dispatch returns in ANY workload is nothing or (well-formed response text, agreeing codes)
    def judge_dispatch(ret: Any, text: Any) -> None:
        _count('dispatch-wrapper')
        if ret is None:
            return
        if not (isinstance(ret, tuple) and len(ret) == 2 and isinstance(ret[0], str) and isinstance(ret[1], tuple)):
            _violate('dispatch-wrapper', {'what': 'return value is not (str, tuple)', 'returned': repr(ret)[:200]})
            return
        try:
            doc = strictjson.decode(ret[0])
        except strictjson.NotJson:
            # a test may legitimately echo NaN / Infinity through the lenient encoder: only flag texts without such tokens
            if not any(t in ret[0] for t in ('NaN', 'Infinity')):
                _violate('dispatch-wrapper', {'what': 'response text is not JSON', 'text': ret[0][:200]})
            return
        p = wire.response_document_problem(doc)
        if p:
            _violate('dispatch-wrapper', {'what': 'malformed response document: ' + p, 'request': repr(text)[:200], 'text': ret[0][:300]})
        elif list(ret[1]) != wire.codes_of(doc):
            _violate('dispatch-wrapper', {'what': 'codes tuple disagrees with the document', 'codes': list(ret[1]), 'text': ret[0][:300]})

    orig_sync = disp_mod.Dispatcher.dispatch
    orig_async = disp_mod.AsyncDispatcher.dispatch

    @functools.wraps(orig_sync)
    def dispatch(self, request_text, context=None):
        ret = orig_sync(self, request_text, context)
        judge_dispatch(ret, request_text)
        return ret

    @functools.wraps(orig_async)
    async def adispatch(self, request_text, context=None):
        ret = await orig_async(self, request_text, context)
        judge_dispatch(ret, request_text)
        return ret

    disp_mod.Dispatcher.dispatch = dispatch
    disp_mod.AsyncDispatcher.dispatch = adispatch
    REPORT['installed'].append('wrapper(Dispatcher.dispatch, AsyncDispatcher.dispatch)')
    return REPORT
