"""Shared machinery: run context, verdicts, evidence, known findings, shard runner.

A monitor module (vmon/monitors/cXX.py) provides:
    PID, LEVEL, RULE, ASSUMPTIONS                      – strings / list
    KINDS    {kind: fn(ctx, **args)}                   – case runners (args JSON-able => replayable)
    gen(ctx) -> iterable of (kind, args)               – deterministic for (tier, seed)
    FLOORS   {counter: minimum}                        – reach floors (whole run, all shards summed)
    ANCHORS  [(relative file, qualname-prefix), ...]   – functions whose execution is recorded
optional:
    SHARDS = {'quick': n, 'thorough': n}, TIMEOUT = {'quick': s, 'thorough': s}
    finish(ctx)  – per-shard epilogue
"""
from __future__ import annotations

import hashlib
import importlib
import json
import os
import random
import subprocess
import sys
import time
import traceback
from typing import Any, Dict, Iterable, List, Optional, Tuple

VERIF = os.path.dirname(os.path.dirname(os.path.abspath(__file__)))
REPO = os.environ.get('VERIF_REPO', '/repo')
PY = os.environ.get('VERIF_PY', '/venv/bin/python')
GUARD = 'PJRPC_VERIF'

MAX_SAMPLES = 8
MAX_WITNESS_PER_MECH = 2


# ---------------------------------------------------------------------------------------------
# JSON-safe rendering of arbitrary observed values (witnesses, samples)

def safe(o: Any, depth: int = 0) -> Any:
    if depth > 8:
        return '<deep>'
    if o is None or isinstance(o, bool):
        return o
    if isinstance(o, int):
        if -10 ** 60 < o < 10 ** 60:
            return o
        return f'<int {o.bit_length()} bits>'
    if isinstance(o, float):
        if o != o or o in (float('inf'), float('-inf')):
            return repr(o)
        return o
    if isinstance(o, str):
        try:
            o.encode('utf-8')
        except UnicodeEncodeError:
            o = o.encode('utf-8', 'backslashreplace').decode('ascii', 'replace')
        return o if len(o) <= 400 else o[:200] + f'…<{len(o)} chars>…' + o[-100:]
    if isinstance(o, bytes):
        return safe(repr(o), depth)
    if isinstance(o, dict):
        return {str(safe(k, depth + 1)) if not isinstance(k, str) else safe(k): safe(v, depth + 1)
                for k, v in list(o.items())[:40]}
    if isinstance(o, (list, tuple, set, frozenset)):
        seq = list(o)
        out = [safe(v, depth + 1) for v in seq[:40]]
        if len(seq) > 40:
            out.append(f'<{len(seq) - 40} more>')
        return out
    if isinstance(o, BaseException):
        return f'{type(o).__module__}.{type(o).__name__}: {safe(str(o))}'
    return safe(repr(o), depth)


def digest(o: Any) -> str:
    return hashlib.blake2b(repr(o).encode('utf-8', 'backslashreplace'), digest_size=8).hexdigest()


# ---------------------------------------------------------------------------------------------

class Ctx:
    """Per-shard run context handed to monitors."""

    def __init__(self, pid: str, tier: str, seed: int, shard: int = 0, nshards: int = 1, replay: bool = False):
        self.pid = pid
        self.tier = tier
        self.seed = seed
        self.shard = shard
        self.nshards = nshards
        self.replaying = replay
        self.rng = random.Random(seed * 1000003 + 17)
        self.evaluations = 0
        self.classes: set = set()
        self.families: Dict[str, int] = {}
        self.samples: List[Any] = []
        self._sample_fams: set = set()
        self.reach: Dict[str, int] = {}
        self.skips: Dict[str, int] = {}
        self.unjudged: Dict[str, int] = {}
        self.violations: Dict[str, Dict[str, Any]] = {}
        self.notes: Dict[str, Any] = {}
        self.current: Optional[Tuple[str, Any]] = None
        self.case_index = -1
        self.exhaustive: Dict[str, bool] = {}

    @property
    def thorough(self) -> bool:
        return self.tier == 'thorough'

    def pick(self, quick: Any, thorough: Any) -> Any:
        return thorough if self.thorough else quick

    # -- verdict recording --------------------------------------------------------------------
    def ok(self, family: str, cls: Any = None, sample: Any = None) -> None:
        """One oracle evaluation that held. `family` = coarse class, `cls` = fine class key."""
        self.evaluations += 1
        self.families[family] = self.families.get(family, 0) + 1
        self.classes.add(digest((family, cls)))
        if sample is not None and family not in self._sample_fams and len(self.samples) < MAX_SAMPLES:
            self._sample_fams.add(family)
            self.samples.append({'family': family, 'case': safe(sample)})

    def violation(self, mechanism: str, family: str = 'violation', cls: Any = None, **witness: Any) -> None:
        """One oracle evaluation that was refuted. `mechanism` is the classification key."""
        self.evaluations += 1
        self.families[family] = self.families.get(family, 0) + 1
        self.classes.add(digest((family, cls)))
        v = self.violations.setdefault(mechanism, {'count': 0, 'witnesses': []})
        v['count'] += 1
        if len(v['witnesses']) < MAX_WITNESS_PER_MECH:
            kind, args = self.current if self.current else (None, None)
            v['witnesses'].append({
                'mechanism': mechanism,
                'case': {'kind': kind, 'args': args},
                'case_index': self.case_index,
                'shard': self.shard, 'nshards': self.nshards,
                'seed': self.seed, 'tier': self.tier,
                'observed': safe(witness),
            })

    def skip(self, reason: str) -> None:
        self.skips[reason] = self.skips.get(reason, 0) + 1

    def unjudge(self, cls: str) -> None:
        self.unjudged[cls] = self.unjudged.get(cls, 0) + 1

    def hit(self, counter: str, n: int = 1) -> None:
        self.reach[counter] = self.reach.get(counter, 0) + n

    def note(self, key: str, value: Any) -> None:
        self.notes[key] = value

    def export(self) -> Dict[str, Any]:
        return {
            'evaluations': self.evaluations,
            'classes': sorted(self.classes),
            'families': self.families,
            'samples': self.samples,
            'reach': self.reach,
            'skips': self.skips,
            'unjudged': self.unjudged,
            'violations': self.violations,
            'notes': safe(self.notes),
            'exhaustive': self.exhaustive,
        }


# ---------------------------------------------------------------------------------------------
# shard entry point (runs inside a fresh interpreter)

def load_monitor(pid: str):
    return importlib.import_module(f'vmon.monitors.{pid.lower()}')


def assert_repo_imported() -> None:
    import pjrpc
    origin = os.path.realpath(os.path.dirname(os.path.dirname(pjrpc.__file__)))
    if origin != os.path.realpath(REPO):
        raise RuntimeError(f'pjrpc imported from {origin}, expected {REPO}')


def run_shard(pid: str, tier: str, seed: int, shard: int, nshards: int, out_path: str,
              replay_case: Optional[Dict[str, Any]] = None) -> None:
    import faulthandler
    import gc
    import logging
    import warnings

    t0 = time.time()
    mod = load_monitor(pid)
    timeout = getattr(mod, 'TIMEOUT', {}).get(tier, 1500)
    faulthandler.dump_traceback_later(max(30, timeout - 10), exit=False)
    logging.disable(logging.CRITICAL)   # pjrpc logs every failing request; pure noise here
    warnings.simplefilter('default')
    assert_repo_imported()

    from . import reach
    rec = reach.Recorder(REPO)
    rec.start()

    ctx = Ctx(pid, tier, seed, shard, nshards, replay=replay_case is not None)
    status, detail = 'done', ''
    try:
        if hasattr(mod, 'setup'):
            mod.setup(ctx)
        if replay_case is not None:
            ctx.current = (replay_case['kind'], replay_case['args'])
            ctx.case_index = 0
            mod.KINDS[replay_case['kind']](ctx, **replay_case['args'])
        else:
            for idx, (kind, args) in enumerate(mod.gen(ctx)):
                if ((idx * 2654435761) >> 11) % nshards != shard:   # decorrelated from generator periodicity
                    continue
                ctx.current = (kind, args)
                ctx.case_index = idx
                mod.KINDS[kind](ctx, **args)
        if hasattr(mod, 'finish'):
            mod.finish(ctx)
    except BaseException as e:   # harness failure (monitors wrap every call into pjrpc themselves)
        status = 'harness-error'
        detail = ''.join(traceback.format_exception(type(e), e, e.__traceback__))[-4000:]
        detail += f'\ncurrent case: {safe(ctx.current)}'
    rec.stop()
    if os.environ.get('VERIF_COVDIR'):   # tools/libcov.py: every pjrpc line this shard executed (gap finder, no verdict)
        allhit: Dict[str, List[int]] = {}
        for (f, _q), lines in rec.lines.items():
            allhit.setdefault(f, []).extend(lines)
        with open(os.path.join(os.environ['VERIF_COVDIR'], f'{pid}-{shard}-{os.getpid()}.json'), 'w') as f:
            json.dump({k: sorted(set(v)) for k, v in allhit.items()}, f)
    faulthandler.cancel_dump_traceback_later()
    gc.collect()

    data = ctx.export()
    data['meta'] = {k: getattr(mod, k) for k in ('PID', 'LEVEL', 'RULE', 'ASSUMPTIONS', 'FLOORS', 'EXHAUSTIVE_OVERALL')
                    if hasattr(mod, k)}
    data.update(status=status, detail=detail, wall_s=round(time.time() - t0, 3),
                anchors=rec.report(getattr(mod, 'ANCHORS', [])))
    with open(out_path, 'w') as f:
        json.dump(data, f)


# ---------------------------------------------------------------------------------------------
# parent side: spawn shards, merge, classify, write evidence, print verdict

def _known_findings() -> List[Dict[str, Any]]:
    path = os.path.join(VERIF, 'known_findings.json')
    if not os.path.exists(path):
        return []
    with open(path) as f:
        return json.load(f).get('findings', [])


def classify(pid: str, mechanism: str) -> Optional[Dict[str, Any]]:
    """Returns the *open* known finding that lists exactly this property + mechanism key."""
    for kf in _known_findings():
        if kf.get('status') == 'open' and kf.get('property') == pid and \
                (kf.get('mechanism') == mechanism or mechanism in kf.get('mechanisms', [])):
            return kf
    return None


def shard_env() -> Dict[str, str]:
    env = dict(os.environ)
    deps = os.path.join(VERIF, '.deps')
    env["PYTHONPATH"] = os.pathsep.join([REPO, VERIF])
    env["VERIF_DEPS"] = deps
    env['PYTHONHASHSEED'] = '0'
    env['PYTHONDONTWRITEBYTECODE'] = '1'
    env['VERIF_REPO'] = REPO
    env[GUARD] = '1'
    env.pop('PYTHONSTARTUP', None)
    return env


def run_check(pid: str, tier: str, seed: int, shards: Optional[int] = None,
              replay_path: Optional[str] = None) -> int:
    t0 = time.time()
    sys.path.insert(0, VERIF)
    # the parent never imports pjrpc; only the monitor's declarative constants are read
    mod_src = os.path.join(VERIF, 'vmon', 'monitors', f'{pid.lower()}.py')
    if not os.path.exists(mod_src):
        print(f'INCONCLUSIVE property={pid} reason=no-monitor')
        return 2
    meta = _static_meta(mod_src)
    nshards = shards or meta.get('SHARDS', {}).get(tier, 1)
    timeout = meta.get('TIMEOUT', {}).get(tier, 1500)
    work = os.path.join(VERIF, '.work', f'{pid}-{tier}-{seed}-{os.getpid()}')
    os.makedirs(work, exist_ok=True)
    os.makedirs(os.path.join(VERIF, 'evidence'), exist_ok=True)

    # third-party helper for the ambient contracts: a fresh restore holds committed files only
    if not os.path.isdir(os.path.join(VERIF, '.deps', 'icontract')):
        subprocess.run([os.path.join(VERIF, 'setup.sh')], cwd=VERIF, stdout=subprocess.DEVNULL, stderr=subprocess.DEVNULL)

    replay_case = None
    if replay_path:
        with open(replay_path) as f:
            rp = json.load(f)
        replay_case = rp['case']
        tier, seed = rp.get('tier', tier), rp.get('seed', seed)
        nshards = 1

    procs = []
    for i in range(nshards):
        out = os.path.join(work, f'shard{i}.json')
        cmd = [PY, '-m', 'vmon.shard', pid, tier, str(seed), str(i), str(nshards), out]
        if replay_case is not None:
            cmd.append(json.dumps(replay_case))
        log = open(os.path.join(work, f'shard{i}.log'), 'w')
        procs.append((i, out, log, subprocess.Popen(cmd, env=shard_env(), cwd=VERIF, stdout=log, stderr=log)))

    results, problems = [], []
    deadline = time.time() + timeout
    for i, out, log, p in procs:
        try:
            p.wait(timeout=max(1, deadline - time.time()))
        except subprocess.TimeoutExpired:
            p.kill()
            p.wait()
            problems.append(f'shard{i}:timeout>{timeout}s')
        log.close()
        if os.path.exists(out):
            with open(out) as f:
                r = json.load(f)
            results.append(r)
            if r['status'] != 'done':
                problems.append(f"shard{i}:{r['status']}")
                sys.stderr.write(r['detail'] + '\n')
        else:
            if not any(x.startswith(f'shard{i}:') for x in problems):
                problems.append(f'shard{i}:crashed(rc={p.returncode})')
            with open(os.path.join(work, f'shard{i}.log')) as f:
                sys.stderr.write(f.read()[-3000:] + '\n')

    merged = merge(results)
    wall = round(time.time() - t0, 3)
    for r in results:
        if r.get('meta'):
            meta.update(r['meta'])     # non-literal constants (computed FLOORS) come from the shard
            break
    else:
        problems.append('no-shard-reported-meta')

    # classification
    new, known = [], []
    for mech, v in sorted(merged['violations'].items()):
        kf = classify(pid, mech)
        (known if kf else new).append((mech, v, kf))

    replay_files = []
    if new and replay_path:
        replay_files = [(mech, replay_path, v) for mech, v, _ in new]
    elif new:
        os.makedirs(os.path.join(VERIF, 'replays'), exist_ok=True)
        for k, (mech, v, _) in enumerate(new):
            path = os.path.join(os.environ.get('VERIF_REPLAY_DIR') or os.path.join(VERIF, 'replays'),
                                f'{pid}-{tier}-{seed}-{k}.json')
            os.makedirs(os.path.dirname(path), exist_ok=True)
            w = dict(v['witnesses'][0])
            w['property'] = pid
            w['count'] = v['count']
            with open(path, 'w') as f:
                json.dump(w, f, indent=1)
            replay_files.append((mech, path, v))

    # floors (only meaningful on full runs)
    floor_fail = []
    if replay_case is None:
        for name, minimum in meta.get('FLOORS', {}).get(tier, meta.get('FLOORS', {}).get('*', {})).items():
            if merged['reach'].get(name, 0) < minimum:
                floor_fail.append(f'{name}={merged["reach"].get(name, 0)}<{minimum}')
        for a in merged['anchors']:
            if a['hit'] == 0:
                floor_fail.append(f"anchor-unreached:{a['file']}:{a['qualname']}")

    if replay_case is None:
        write_evidence(pid, tier, seed, meta, merged, wall, new, known, problems, floor_fail, nshards)

    by_finding: Dict[str, List[Any]] = {}
    for mech, v, kf in known:
        by_finding.setdefault(kf['what'], []).append((mech, v['count']))
    for what, hits in by_finding.items():
        print(f"KNOWN-FINDING: property={pid} {what} [occurrences={sum(c for _, c in hits)} "
              f"mechanisms={','.join(m for m, _ in hits)}]")
    for mech, path, v in replay_files:
        print(f'VIOLATION property={pid} replay={path} mechanism={mech} occurrences={v["count"]}')

    try:
        import shutil
        shutil.rmtree(work, ignore_errors=True)
        if not os.listdir(os.path.join(VERIF, '.work')):
            os.rmdir(os.path.join(VERIF, '.work'))
    except OSError:
        pass

    if new:
        return 1
    if problems:
        print(f'INCONCLUSIVE property={pid} reason=' + ','.join(problems))
        return 2
    if floor_fail:
        print(f'INCONCLUSIVE property={pid} reason=reach-floor:' + ','.join(floor_fail))
        return 2
    if replay_case is not None:
        print(f'REPLAY property={pid} held (violation not reproduced)' if not known else
              f'REPLAY property={pid} reproduced a known finding')
        return 0
    print(f"HELD property={pid} tier={tier} seed={seed} evaluations={merged['evaluations']} "
          f"distinct={len(merged['classes'])} known_findings={len(known)} wall={wall}s")
    return 0


def merge(results: List[Dict[str, Any]]) -> Dict[str, Any]:
    m: Dict[str, Any] = {'evaluations': 0, 'classes': set(), 'families': {}, 'samples': [], 'reach': {},
                         'skips': {}, 'unjudged': {}, 'violations': {}, 'notes': {}, 'anchors': [],
                         'exhaustive': {}, 'shard_wall': []}
    anchors: Dict[Tuple[str, str], Dict[str, Any]] = {}
    fams_sampled = set()
    for r in results:
        m['evaluations'] += r['evaluations']
        m['classes'].update(r['classes'])
        for key in ('families', 'reach', 'skips', 'unjudged'):
            for k, v in r[key].items():
                m[key][k] = m[key].get(k, 0) + v
        for s in r['samples']:
            if s['family'] not in fams_sampled and len(m['samples']) < MAX_SAMPLES:
                fams_sampled.add(s['family'])
                m['samples'].append(s)
        for mech, v in r['violations'].items():
            t = m['violations'].setdefault(mech, {'count': 0, 'witnesses': []})
            t['count'] += v['count']
            t['witnesses'].extend(v['witnesses'])
            del t['witnesses'][MAX_WITNESS_PER_MECH:]
        for k, v in r['notes'].items():
            if isinstance(v, (int, float)) and not isinstance(v, bool) and isinstance(m['notes'].get(k, 0), (int, float)):
                m['notes'][k] = max(m['notes'].get(k, v), v) if k.startswith('max_') else m['notes'].get(k, 0) + v
            else:
                m['notes'].setdefault(k, v)
        for k, v in r.get('exhaustive', {}).items():
            m['exhaustive'][k] = m['exhaustive'].get(k, True) and v
        for a in r['anchors']:
            t = anchors.setdefault((a['file'], a['qualname']), {'file': a['file'], 'qualname': a['qualname'],
                                                                'lines': set(), 'total': a['total']})
            t['lines'].update(a['lines'])
            t['total'] = max(t['total'], a['total'])
        m['shard_wall'].append(r['wall_s'])
    for a in anchors.values():
        m['anchors'].append({'file': a['file'], 'qualname': a['qualname'], 'hit': len(a['lines']),
                             'total': a['total']})
    m['anchors'].sort(key=lambda a: (a['file'], a['qualname']))
    return m


def write_evidence(pid, tier, seed, meta, merged, wall, new, known, problems, floor_fail, nshards) -> None:
    fams = dict(sorted(merged['families'].items(), key=lambda kv: -kv[1])[:60])
    cov = {
        'evaluations': merged['evaluations'],
        'distinct_nontrivial': len(merged['classes']),
        'rule': meta.get('RULE', ''),
        'samples': merged['samples'] or [{'note': 'no sample recorded'}],
        'families': fams,
        'reach_counters': merged['reach'],
        'reach_floors': meta.get('FLOORS', {}).get(tier, meta.get('FLOORS', {}).get('*', {})),
        'anchored_functions': merged['anchors'],
        'skipped': merged['skips'],
        'unjudged': merged['unjudged'],
        'known_finding_hits': [{'mechanism': mech, 'occurrences': v['count'], 'what': kf['what'],
                                'witness': v['witnesses'][0]['observed']} for mech, v, kf in known],
        'new_violations': [{'mechanism': mech, 'occurrences': v['count'],
                            'witness': v['witnesses'][0]} for mech, v, _ in new],
        'notes': merged['notes'],
        'shards': nshards,
        'shard_wall_s': merged['shard_wall'],
        'verdict': 'violated' if new else ('inconclusive' if (problems or floor_fail) else 'held-on-observed'),
        'inconclusive_reasons': problems + floor_fail,
    }
    if merged['exhaustive']:
        cov['exhaustive_subspaces'] = merged['exhaustive']
        cov['exhaustive'] = all(merged['exhaustive'].values()) and bool(meta.get('EXHAUSTIVE_OVERALL', False))
    ev = {
        'property_id': pid,
        'tier': tier,
        'seed': seed,
        'level': meta.get('LEVEL', 'exploration'),
        'coverage': cov,
        'assumptions': meta.get('ASSUMPTIONS', []),
        'wall_s': wall,
        'violations': len(new),
    }
    evdir = os.environ.get('VERIF_EVIDENCE_DIR') or os.path.join(VERIF, 'evidence')
    os.makedirs(evdir, exist_ok=True)
    path = os.path.join(evdir, f'{pid}.json')
    tmp = path + '.tmp'
    with open(tmp, 'w') as f:
        json.dump(ev, f, indent=1, sort_keys=False)
    os.replace(tmp, path)


def _static_meta(path: str) -> Dict[str, Any]:
    """Reads the literal module-level constants of a monitor without importing it (no pjrpc in the parent)."""
    import ast
    with open(path) as f:
        tree = ast.parse(f.read())
    out = {}
    for node in tree.body:
        if isinstance(node, ast.Assign) and len(node.targets) == 1 and isinstance(node.targets[0], ast.Name):
            name = node.targets[0].id
            if name.isupper():
                try:
                    out[name] = ast.literal_eval(node.value)
                except (ValueError, SyntaxError):
                    pass
    return out
