"""Builders shared by the specification monitors (C16, C17): generated methods with annotations, extractor stacks,
OpenAPI / OpenRPC specification objects. Everything is described by JSON-able dicts so cases can be replayed."""
from __future__ import annotations

import enum
import typing
from typing import Any, Dict, List, Optional

import pydantic

import pjrpc
import pjrpc.server
from pjrpc.common.exceptions import JsonRpcError
from pjrpc.server.specs import extractors, openapi, openrpc
from pjrpc.server.specs.extractors import docstring as x_doc
from pjrpc.server.specs.extractors import pydantic as x_pd


class SpecErrA(JsonRpcError):
    code = 72001
    message = 'spec error a'


class SpecErrB(JsonRpcError):
    code = 72002
    message = 'spec error b'


class SpecErrC(JsonRpcError):
    code = 72003
    message = 'spec error c'


class SpecAbstract(JsonRpcError):
    """an application's abstract error base: no code, never documented as an error of its own"""


# refinements of one generic application error: they INHERIT its code and differ in class name and / or message
class SpecNotFound(JsonRpcError):
    code = 72004
    message = 'spec not found'


class SpecUserNotFound(SpecNotFound):
    message = 'spec user not found'


class SpecPostNotFound(SpecNotFound):
    message = 'spec post not found'


class SpecDenied(JsonRpcError):
    code = 72005
    message = 'spec denied'


class SpecReadDenied(SpecDenied):
    message = 'spec read denied'


class SpecWriteDenied(SpecDenied):
    """a refinement that overrides nothing but the class name"""


ERRORS = {'A': SpecErrA, 'B': SpecErrB, 'C': SpecErrC, 'NF': SpecNotFound, 'NFu': SpecUserNotFound, 'NFp': SpecPostNotFound,
          'D': SpecDenied, 'Dr': SpecReadDenied, 'Dw': SpecWriteDenied}
# error classes that share one code (keys of ERRORS), and for each its next sibling
SAME_CODE_FAMILIES = [['NF', 'NFu', 'NFp'], ['D', 'Dr', 'Dw']]
SIBLING = {k: fam[(i + 1) % len(fam)] for fam in SAME_CODE_FAMILIES for i, k in enumerate(fam)}
# names a docstring may mention in :raises: although they are no documentable errors (abstract bases, unknown names)
RAISES_NAMES = {'A': 'SpecErrA', 'B': 'SpecErrB', 'C': 'SpecErrC', 'NFu': 'SpecUserNotFound', 'NFp': 'SpecPostNotFound', 'Dw': 'SpecWriteDenied',
                'abstract': 'SpecAbstract', 'client': 'ClientError', 'unknown': 'NoSuchError'}


class Colour(enum.Enum):
    RED = 'red'
    BLUE = 'blue'


class Inner(pydantic.BaseModel):
    n: int = 0


class Thing(pydantic.BaseModel):
    a: int
    inner: Inner = Inner()
    tags: typing.List[str] = []


class Other(pydantic.BaseModel):
    s: str


TYPES = ['int', 'str', 'float', 'bool', 'Optional[int]', 'List[int]', 'Dict[str, int]', 'Thing', 'Inner', 'Colour', 'Other', None]
RETURNS = [None, 'None', 'int', 'str', 'Thing', 'List[Other]', 'Optional[Inner]', 'Colour']
NS = {'Optional': typing.Optional, 'List': typing.List, 'Dict': typing.Dict, 'Thing': Thing, 'Inner': Inner, 'Colour': Colour,
      'Other': Other, 'Any': typing.Any}

DEFAULTS = {'int': '1', 'str': "'d'", 'float': '1.5', 'bool': 'True', 'Optional[int]': 'None', 'List[int]': 'None',
            'Dict[str, int]': 'None', 'Thing': 'None', 'Inner': 'None', 'Colour': 'None', 'Other': 'None', None: "'x'"}


def method_source(m: Dict[str, Any], as_view: bool) -> str:
    """m: {name, params: [[pname, kind PK|KO, type-or-None, has_default]], ret, ctx: None|'ctx', doc: {...}|None}"""
    parts, star = [], False
    if as_view:
        parts.append('self')
    elif m.get('ctx'):
        parts.append(m['ctx'])
    for pname, kind, typ, dflt in m['params']:
        if kind == 'KO' and not star:
            parts.append('*')
            star = True
        s = pname + (f': {typ}' if typ else '')
        if dflt:
            s += f' = {DEFAULTS[typ]}'
        parts.append(s)
    ret = f" -> {m['ret']}" if m.get('ret') else ''
    doc = m.get('doc')
    lines = [f"def {m['fname']}({', '.join(parts)}){ret}:"]
    if doc:
        d = ['    """', f"    {doc.get('summary', 'Does something')}.", '', f"    {doc.get('long', 'A longer description.')}", '']
        if doc.get('params'):
            for pname, kind, typ, dflt in m['params']:
                # 'bare': a type without any description text
                d.append(f'    :param {pname}:' + ('' if doc['params'] == 'bare' else f' parameter {pname}'))
                d.append(f"    :type {pname}: {typ or 'object'}")
        if doc.get('returns'):
            if doc['returns'] != 'rtype':
                d.append('    :returns: the result')
            d.append(f"    :rtype: {m.get('ret') or 'object'}")
        for e in doc.get('raises', []):
            d.append(f'    :raises {RAISES_NAMES[e]}: when {e}')
        if doc.get('deprecated'):
            d.append('')
            d.append('    .. deprecated:: 1.0')
            d.append('        use something else')
        d.append('    """')
        lines += d
    lines.append('    return None')
    return '\n'.join(lines)


def build_methods(specs: List[Dict[str, Any]], shared: Dict[str, Any]):
    """-> (list of pjrpc Method objects in order, dict fname -> function, user objects to fingerprint)"""
    # a real (importable) module: introspection helpers that look a class up through sys.modules find it
    import sys
    import types
    mod = types.ModuleType('vmon_spec_programs')
    mod.__dict__.update(NS, ViewMixin=pjrpc.server.ViewMixin)
    sys.modules['vmon_spec_programs'] = mod
    ns = mod.__dict__
    methods, funcs = [], {}
    import re
    for n_spec, m in enumerate(specs):
        m = dict(m)
        m.setdefault('fname', re.sub(r'\W', '_', m['name']) + ('' if re.fullmatch(r'[\w.]+', m['name']) else f'_{n_spec}'))
        if m.get('view'):
            src = ''
            base = 'ViewMixin'
            if not m.get('doc') and not shared.get('no_documented_base'):
                # the view overrides a DOCUMENTED method of its base without documenting the override: nothing of the base's
                # documentation belongs to this method
                base_m = dict(m, doc={'summary': 'Base summary Xq9base', 'long': 'Base description Xq9base.', 'params': True, 'returns': True,
                                      'raises': ['C'], 'deprecated': True})
                src += 'class B_%s(ViewMixin):\n' % m['fname'] + '\n'.join('    ' + l for l in method_source(base_m, True).splitlines()) + '\n\n'
                base = 'B_%s' % m['fname']
            src += 'class V_%s(%s):\n    def __init__(self, context=None):\n        super().__init__()\n' % (m['fname'], base)
            src += '\n'.join('    ' + l for l in method_source(m, True).splitlines())
            exec(compile(src, '<vmon_spec_programs>', 'exec', dont_inherit=True), ns)
            view_cls = ns['V_' + m['fname']]
            fn = getattr(view_cls, m['fname'])
        else:
            exec(compile(method_source(m, False), '<vmon_spec_programs>', 'exec', dont_inherit=True), ns)
            fn = ns[m['fname']]
            view_cls = None
            if m.get('partial'):
                # several methods that are functools.partial objects over ONE function: every partial is a method of its own
                import functools
                import json as _json
                key = 'partial_base:' + _json.dumps([m['params'], m.get('ret'), m.get('doc'), m.get('ctx')], sort_keys=True, default=str)
                fn = functools.partial(shared.setdefault(key, fn))
        funcs[m['name']] = fn
        if m.get('pd_config'):
            shared.setdefault('pydantic_config', {'json_schema_extra': {'x-origin': 'Zq7extra'}, 'title': None} if m['pd_config'] == 'extra+title'
                              else {'json_schema_extra': {'x-origin': 'Zq7extra'}})
        if m.get('pep702'):
            # what @warnings.deprecated / @typing_extensions.deprecated leave on the function: the MESSAGE, not a flag
            getattr(fn, '__func__', fn).__deprecated__ = 'use something else instead'
        ann = m.get('annotate')
        if ann:
            apply_annotations(fn, ann, shared, m)
        if view_cls is not None:
            methods.append(pjrpc.server.dispatcher.ViewMethod(view_cls, m['fname'], m['name'], context='ctx' if m.get('ctx') else None))
        else:
            methods.append(pjrpc.server.Method(fn, m['name'], context=m.get('ctx')))
    return methods, funcs


def apply_annotations(fn, ann: Dict[str, Any], shared: Dict[str, Any], m: Dict[str, Any]) -> None:
    """ann keys: errors ([codes] or 'shared'), tags, examples, summary, description, deprecated, servers, security,
    params_schema, result_schema, prefix, for ('openapi'|'openrpc'|'both')"""
    target = ann.get('for', 'both')
    names = [p[0] for p in m['params']]
    own_keys = [k_ for k_ in ann if k_ not in ('shared_deco', 'for')]
    if ann.get('shared_deco'):
        # ONE decorator object obtained from annotate(...) applied to several methods; a method's own annotate(...) - if it has
        # one - is stacked above it
        if target in ('openapi', 'both'):
            shared.setdefault('deco_openapi', openapi.annotate(summary='shared summary', description='shared description', tags=['shared']))(fn)
        if target in ('openrpc', 'both'):
            shared.setdefault('deco_openrpc', openrpc.annotate(summary='shared summary', description='shared description', tags=['shared']))(fn)
        if not own_keys:
            return
    if target in ('openapi', 'both'):
        kw: Dict[str, Any] = {}
        if 'errors' in ann:
            kw['errors'] = shared['errors_list'] if ann['errors'] == 'shared' else [ERRORS[e] for e in ann['errors']]
            shared.setdefault('user_lists', []).append(kw['errors'])
        if 'tags' in ann:
            kw['tags'] = shared.setdefault('tags_' + '_'.join(ann['tags']), [openapi.Tag(name=t, description=f'tag {t}') if i % 2 else t
                                                                             for i, t in enumerate(ann['tags'])])
            shared.setdefault('user_lists', []).append(kw['tags'])
        if ann.get('examples'):
            # OpenAPI generation normalises python tuples / sets among user values into JSON arrays (drop_unset), so the
            # second example carries one of each: the document must stay JSON-encodable
            ex = [openapi.MethodExample(params={n: ((1, 2) if i else 1) for n in names}, result=({5} if i else 5), summary=f'ex{i}',
                                        description='an example')
                  for i in range(ann['examples'])]
            kw['examples'] = ex
            shared.setdefault('user_lists', []).append(ex)
        for k in ('summary', 'description', 'deprecated'):
            if k in ann:
                kw[k] = ann[k]
        if ann.get('servers'):
            kw['servers'] = [openapi.Server(url='https://example.org/api', description='srv')]
            shared.setdefault('user_lists', []).append(kw['servers'])
        if ann.get('security'):
            kw['security'] = [{'basicAuth': ()}]
        if ann.get('params_schema'):
            kw['params_schema'] = {n: {'type': 'integer', 'title': n.capitalize()} for n in names}
            shared.setdefault('user_lists', []).append(kw['params_schema'])
        if ann.get('result_schema'):
            kw['result_schema'] = {'type': 'string', 'title': 'Result'}
        if ann.get('prefix'):
            kw['component_name_prefix'] = ann['prefix']
        openapi.annotate(**kw)(fn)
    if target in ('openrpc', 'both'):
        kw = {}
        if 'errors' in ann:
            lst = shared['errors_list'] if ann['errors'] == 'shared' else [ERRORS[e] for e in ann['errors']]
            kw['errors'] = lst
            shared.setdefault('user_lists', []).append(lst)
        if 'tags' in ann:
            kw['tags'] = list(ann['tags'])
        if ann.get('examples'):
            kw['examples'] = [openrpc.MethodExample(name=f'ex{i}', params=[openrpc.ExampleObject(value=1, name=n) for n in names],
                                                    result=openrpc.ExampleObject(value=5, name='result'), summary='an example')
                              for i in range(ann['examples'])]
            shared.setdefault('user_lists', []).append(kw['examples'])
        for k in ('summary', 'description', 'deprecated'):
            if k in ann:
                kw[k] = ann[k]
        if ann.get('servers'):
            kw['servers'] = [openrpc.Server(name='main', url='https://example.org/api')]
        if ann.get('params_schema'):
            # hand-written descriptors, some leaving `required` to the library; they are user objects like any other
            kw['params_schema'] = [openrpc.ContentDescriptor(name=n, schema={'type': 'integer'}, **({'required': True} if i % 2 else {}))
                                   for i, n in enumerate(names)]
            shared.setdefault('user_lists', []).append(kw['params_schema'])
        if ann.get('result_schema'):
            kw['result_schema'] = openrpc.ContentDescriptor(name='result', schema={'type': 'string'})
            shared.setdefault('user_lists', []).append([kw['result_schema']])
        openrpc.annotate(**kw)(fn)


def make_extractors(stack: str, exclude_name: Optional[str] = None, pd_config: Optional[Dict[str, Any]] = None):
    ex = (lambda name, ann, default: name == exclude_name) if exclude_name else None
    if pd_config:
        # pydantic model configuration handed through the extractor (`**config_args`): the user's objects
        x_pd_cls = x_pd.PydanticSchemaExtractor
        return {'pydantic': [x_pd_cls(exclude_param=ex, **pd_config)],
                'pydantic+docstring': [x_pd_cls(exclude_param=ex, **pd_config), x_doc.DocstringSchemaExtractor(exclude_param=ex)],
                'docstring+pydantic': [x_doc.DocstringSchemaExtractor(exclude_param=ex), x_pd_cls(exclude_param=ex, **pd_config)],
                'default': [extractors.BaseSchemaExtractor()], 'docstring': [x_doc.DocstringSchemaExtractor(exclude_param=ex)]}[stack]
    table = {
        'default': [extractors.BaseSchemaExtractor()],
        'pydantic': [x_pd.PydanticSchemaExtractor(exclude_param=ex)],
        'docstring': [x_doc.DocstringSchemaExtractor(exclude_param=ex)],
        'pydantic+docstring': [x_pd.PydanticSchemaExtractor(exclude_param=ex), x_doc.DocstringSchemaExtractor(exclude_param=ex)],
        'docstring+pydantic': [x_doc.DocstringSchemaExtractor(exclude_param=ex), x_pd.PydanticSchemaExtractor(exclude_param=ex)],
    }
    return table[stack]


def make_spec(kind: str, stack: str, shared: Dict[str, Any], status_map: bool = False, exclude_name: Optional[str] = None,
              extractor_objects: Optional[List[Any]] = None):
    """kind: 'oas31' | 'oas30' | 'openrpc'; extractor_objects: the extractor objects of an earlier specification object
    (an application may hand one extractor to several specification objects); they are left in shared['extractor_objects']"""
    exs = extractor_objects or make_extractors(stack, exclude_name, shared.get('pydantic_config'))
    shared['extractor_objects'] = exs
    if kind == 'openrpc':
        info = openrpc.Info(title='t', version='1.0', description='d')
        shared['info'] = info
        return openrpc.OpenRPC(info=info, schema_extractor=exs[0],
                               servers=[openrpc.Server(name='s', url='http://localhost')])
    info = openapi.Info(title='t', version='1.0', description='d', contact=openapi.Contact(name='c'),
                        license=openapi.License(name='MIT'))
    tags = [openapi.Tag(name='t1', description='first')]
    servers = [openapi.Server(url='http://localhost')]
    shared['info'], shared['spec_tags'], shared['spec_servers'] = info, tags, servers
    ex_kw = {'schema_extractor': exs[0]} if (len(exs) == 1 and shared.get('singular_extractor_kw')) else {'schema_extractors': exs}
    return openapi.OpenAPI(
        info=info, tags=tags, servers=servers, openapi='3.1.0' if kind == 'oas31' else '3.0.3',
        security_schemes={'basicAuth': openapi.SecurityScheme(type=openapi.SecuritySchemeType.HTTP, scheme='basic')},
        error_http_status_map={72001: 409, 72003: 404, 72004: 404} if status_map else {},
        **ex_kw,
    )
