"""Engine shared by the server-side monitors: run one request text through a probe world and describe
what was observed at the dispatch() boundary. Judging is done by the monitors."""
from __future__ import annotations

from typing import Any, Dict, List, Optional, Tuple

from . import strictjson, world
from .models import server as model
from .models import wire

_WORLDS: Dict[Tuple, world.World] = {}


def _inert_kwargs(is_async: bool) -> Dict[str, Any]:
    """middlewares / error handlers that must not change any answer: a pass-through middleware and a handler registered
    for a code that never occurs (a non-empty handler table is all some code paths need to behave differently)"""
    # request and context (and the error) are handed over positionally: those parameter names are the hook's own business;
    # the inner handler is bound by the keyword `handler` (functools.partial(middleware, handler=...)), which is the
    # library's interface and is kept
    if is_async:
        async def mw(req, http_request, /, handler):
            return await handler(req, http_request)

        async def mw2(rpc_request, app_ctx, handler):
            return await handler(rpc_request, app_ctx)

        async def eh(r, c, e, /):
            return e
    else:
        def mw(req, http_request, /, handler):
            return handler(req, http_request)

        def mw2(rpc_request, app_ctx, handler):
            return handler(rpc_request, app_ctx)

        def eh(r, c, e, /):
            return e
    return {'middlewares': [mw, mw2], 'error_handlers': {424242: [eh]}}


def get_world(is_async: bool, max_batch: Optional[int], fresh: bool = False, inert: bool = False, debuglog: bool = False,
              warnerr: bool = False, **kw: Any) -> world.World:
    key = (is_async, max_batch, inert, debuglog, warnerr, tuple(sorted(kw.items())))
    if fresh:
        w = world.World(is_async, max_batch, **kw, **(_inert_kwargs(is_async) if inert else {}))
        w.debuglog = debuglog
        w.warnerr = warnerr
        return w
    w = _WORLDS.get(key)
    if w is None:
        w = _WORLDS[key] = world.World(is_async, max_batch, **kw, **(_inert_kwargs(is_async) if inert else {}))
        w.debuglog = debuglog
        w.warnerr = warnerr
    return w


class _DebugLogging:
    """the application has switched the library's loggers to DEBUG (records are built and handled, by a handler that drops
    them); everything is put back afterwards"""

    def __enter__(self):
        import logging
        self.lg = logging.getLogger('pjrpc')
        self.saved = (self.lg.level, self.lg.propagate, list(self.lg.handlers), logging.root.manager.disable)
        logging.disable(logging.NOTSET)         # (the shard runner silences logging globally: lifted for this dispatch)
        self.lg.setLevel(logging.DEBUG)
        self.lg.propagate = False
        self.lg.handlers = [logging.NullHandler()]

    def __exit__(self, *exc):
        import logging
        self.lg.setLevel(self.saved[0])
        self.lg.propagate = self.saved[1]
        self.lg.handlers = self.saved[2]
        logging.disable(self.saved[3])
        return False


class _WarningsAreErrors:
    """the process runs with warnings escalated to exceptions (`-W error`, pytest's `filterwarnings = error`): whatever
    notice the code under test issues while handling a request is raised at that point"""

    def __enter__(self):
        import warnings
        self.cm = warnings.catch_warnings()
        self.cm.__enter__()
        warnings.simplefilter('error')

    def __exit__(self, *exc):
        return self.cm.__exit__(*exc)


def world_for(flavour: str, max_batch: Optional[int]) -> world.World:
    """flavour: sync | async | async-plain (plain functions on the async dispatcher) | sync-inert | async-inert |
    sync-debuglog | async-debuglog (the 'pjrpc' loggers enabled for DEBUG)"""
    is_async = flavour.startswith('async')
    if flavour == 'async-plain':
        return get_world(True, max_batch, all_coroutines=False)
    if flavour == 'async-sequential':
        return get_world(True, max_batch, concurrent_batch=False)
    if flavour.endswith('-warnerr'):
        w = get_world(is_async, max_batch, warnerr=True)
        return w
    return get_world(is_async, max_batch, inert=flavour.endswith('-inert'), debuglog=flavour.endswith('-debuglog'))


EXTRA_FLAVOURS = ('async-plain', 'sync-inert', 'async-inert', 'sync-debuglog', 'async-debuglog', 'async-sequential')
# judged for totality / well-formedness only (C01): with every warning escalated, third-party deprecation notices (jsonschema's
# own internals, pydantic's 'model_fields on the instance') turn validated calls into -32603 on the unchanged tree - an answer,
# but not the one the reference model of C02 / C03 expects, and not pjrpc's doing
TOTALITY_FLAVOURS = EXTRA_FLAVOURS + ('sync-warnerr', 'async-warnerr')


class TextInfo:
    """Facts about a request text established without pjrpc."""

    def __init__(self, text: str):
        self.text = text
        self.doc: Any = model.NOT_JSON
        self.is_json = False
        self.gap = False            # accepted by Python's json but not RFC 8259, or floats that overflow
        self.bigint = False         # an integer literal beyond the interpreter's int<->str limit
        self.dupkeys = False
        self.depth = 0
        try:
            d = strictjson.decode_ex(text)
            self.is_json = True
            self.doc = d.value
            self.bigint = d.max_int_digits > 4300
            self.dupkeys = d.duplicate_keys
            self.depth = d.max_depth
            if d.has_float and _has_nonfinite(d.value):
                self.gap = True
        except strictjson.NotJson:
            if any(tok in text for tok in ('NaN', 'Infinity')):
                # may or may not be accepted by the lenient parser: left unjudged beyond totality
                self.gap = True

    @property
    def features(self) -> str:
        f = [n for n in ('gap', 'bigint', 'dupkeys') if getattr(self, n)]
        if self.depth > 64:
            f.append('deep')
        return '+'.join(f) or 'plain'


def _has_nonfinite(v: Any) -> bool:
    if isinstance(v, float):
        return v != v or v in (float('inf'), float('-inf'))
    if isinstance(v, list):
        return any(_has_nonfinite(x) for x in v)
    if isinstance(v, dict):
        return any(_has_nonfinite(x) for x in v.values())
    return False


class Obs:
    def __init__(self) -> None:
        self.status = ''              # 'ret' / 'exc'
        self.exc: Optional[BaseException] = None
        self.raw: Any = None          # what dispatch returned
        self.text: Optional[str] = None
        self.codes: Any = None
        self.doc: Any = None          # strict-decoded response document
        self.doc_problem: Optional[str] = None   # 'shape:...' / 'not-json' / None
        self.calls: List[Any] = []
        self.ctor_failed: List[str] = []
        self.contexts: List[Any] = []


def observe(w: world.World, text: str, context: Any = None) -> Obs:
    w.log.clear()
    o = Obs()
    if getattr(w, 'debuglog', False):
        with _DebugLogging():
            o.status, val = w.dispatch(text, context)
    elif getattr(w, 'warnerr', False):
        with _WarningsAreErrors():
            o.status, val = w.dispatch(text, context)
    else:
        o.status, val = w.dispatch(text, context)
    o.calls = list(w.log.calls)
    o.ctor_failed = list(w.log.ctor_failed)
    o.contexts = list(w.log.contexts)
    if o.status == 'exc':
        o.exc = val
        return o
    o.raw = val
    if val is None:
        return o
    if not (isinstance(val, tuple) and len(val) == 2 and isinstance(val[0], str) and isinstance(val[1], tuple)):
        o.doc_problem = 'shape:return-value-not-(str,tuple)'
        return o
    o.text, o.codes = val
    try:
        o.doc = strictjson.decode(o.text)
    except strictjson.NotJson as e:
        o.doc_problem = f'not-json'
    return o


def wellformed_problem(o: Obs) -> Optional[str]:
    """C01's oracle on one observation (no reference to what the right answer is)."""
    if o.status == 'exc':
        return f'dispatch-raises:{type(o.exc).__name__}'
    if o.raw is None:
        return None
    if o.doc_problem:
        return o.doc_problem if o.doc_problem != 'not-json' else 'response-not-json'
    p = wire.response_document_problem(o.doc)
    if p:
        if p.endswith('id-bad-type'):
            objs = o.doc if isinstance(o.doc, list) else [o.doc]
            if any(isinstance(x, dict) and isinstance(x.get('id'), bool) for x in objs):
                p += ':bool'
        return 'malformed-response:' + p
    expect = wire.codes_of(o.doc)
    codes = o.codes
    if not all(isinstance(c, int) and not isinstance(c, bool) for c in codes):
        return 'codes-not-integers'
    if list(codes) != expect:
        return 'codes-disagree-with-document'
    return None


def normalise_calls(calls: List[Any]) -> List[str]:
    return sorted(repr(model.normalise(c)) for c in calls)


# ---------------------------------------------------------------------------------------------------
# model comparison (C02 / C03 / C11-C13 share it)

LEAK_MARKERS = ('Zq7_marker_', 'Traceback', 'Xq9Error', 'Xq9Timeout', 'world.py', 'probe misuse', 'timeout', 'Timeout')


def compare(o: Obs, exp: 'model.Expected', doc_in: Any) -> List[Tuple[str, str]]:
    """Differences between an observation and the model's expectation, as (aspect, detail) pairs.
    aspects: raise, count, id, kind, result, code, message, data, leak, exec"""
    out: List[Tuple[str, str]] = []
    if o.status == 'exc':
        return [('raise', type(o.exc).__name__)]
    # executions
    want = sorted(repr(model.normalise(c)) for c in exp.executions)
    got = normalise_calls(o.calls)
    if want != got:
        extra = [c for c in got if c not in want]
        missing = [c for c in want if c not in got]
        if len(got) > len(want) and not missing:
            detail = 'extra-or-repeated-execution'
        elif len(got) < len(want) and not extra:
            detail = 'missing-execution'
        else:
            detail = 'different-arguments-or-method'
        out.append(('exec', f'{exp.kind.split(":")[0]}:{detail}'))
    e = exp.response
    if e is None:
        if o.raw is not None and not exp.null_id_calls:
            out.append(('count', f'{exp.kind.split(":")[0]}:answered-although-nothing-expected'))
        return out
    if o.raw is None:
        out.append(('count', f'{exp.kind.split(":")[0]}:nothing-returned'))
        return out
    if o.doc_problem or o.doc is None:
        out.append(('count', 'unreadable-response'))
        return out
    d = o.doc
    if isinstance(e, list) != isinstance(d, list):
        out.append(('count', f'{exp.kind.split(":")[0]}:array-vs-object'))
        return out
    pairs = list(zip(e, d)) if isinstance(e, list) else [(e, d)]
    if isinstance(e, list) and len(e) != len(d):
        if exp.null_id_calls and len(d) == len(e) + exp.null_id_calls:
            return out   # explicit "id": null elements answered: permitted reading, not judged further
        out.append(('count', f'batch:{len(d)}-responses-for-{len(e)}-calls'))
        return out
    for er, dr in pairs:
        if not isinstance(dr, dict):
            out.append(('kind', 'response-not-object'))
            continue
        if 'id' not in dr or not strictjson.typed_eq(er['id'], dr['id']):
            out.append(('id', f'expected-{type(er["id"]).__name__}-got-{type(dr.get("id")).__name__}'))
        if ('result' in er) != ('result' in dr) or ('error' in er) != ('error' in dr):
            want_kind = 'result' if 'result' in er else f"error{er['error']['code']}"
            got_kind = 'result' if 'result' in dr else f"error{dr.get('error', {}).get('code') if isinstance(dr.get('error'), dict) else '?'}"
            out.append(('kind', f'expected-{want_kind}-got-{got_kind}'))
            continue
        if 'result' in er:
            r = model.match(er['result'], dr['result'])
            if r:
                out.append(('result', r))
            continue
        ee, de = er['error'], dr['error']
        if not isinstance(de, dict):
            out.append(('code', 'error-not-object'))
            continue
        if not (isinstance(de.get('code'), int) and not isinstance(de.get('code'), bool)) or de.get('code') != ee['code']:
            out.append(('code', f"expected{ee['code']}-got{safe_code(de.get('code'))}"))
            continue
        tag = f"code{ee['code']}" if -32768 <= ee['code'] <= -32000 else 'app-code'
        r = model.match(ee['message'], de.get('message'))
        if r:
            out.append(('message', f"{tag}:{r}"))
        if 'data' in ee:
            if ee['data'] is not model.ANY:
                if 'data' not in de:
                    out.append(('data', f"{tag}:dropped:{type(ee['data']).__name__}"))
                else:
                    r = model.match(ee['data'], de['data'])
                    if r:
                        out.append(('data', f"{tag}:{r}"))
        elif 'data' in de and ee['code'] != -32000:
            out.append(('data', f"{tag}:added"))
    if o.text is not None and any(k in ('call-exception', 'notify-exception') for k in exp.elem_kinds):
        for m in LEAK_MARKERS:
            if m in o.text:
                out.append(('leak', m))
        for k, call in zip(exp.elem_kinds, []):
            pass
        for name in _exception_names(exp):
            if name in o.text:
                out.append(('leak', 'exception-type-name'))
                break
    return out


def _exception_names(exp: 'model.Expected') -> List[str]:
    names = []
    for c in exp.executions:
        if c[0] == 'boom' and isinstance(c[1][0], str):
            names.append(c[1][0])
    return names


def safe_code(c: Any) -> str:
    return str(c) if isinstance(c, int) and abs(c) < 10 ** 12 else type(c).__name__
