"""Engine shared by the server-side monitors: run one request text through a probe world and describe
what was observed at the dispatch() boundary. Judging is done by the monitors."""
from __future__ import annotations

from typing import Any, Dict, List, Optional, Tuple

from . import strictjson, world
from .models import server as model
from .models import wire

_WORLDS: Dict[Tuple, world.World] = {}


def get_world(is_async: bool, max_batch: Optional[int], fresh: bool = False, **kw: Any) -> world.World:
    key = (is_async, max_batch, tuple(sorted(kw.items())))
    if fresh:
        return world.World(is_async, max_batch, **kw)
    w = _WORLDS.get(key)
    if w is None:
        w = _WORLDS[key] = world.World(is_async, max_batch, **kw)
    return w


class TextInfo:
    """Facts about a request text established without pjrpc."""

    def __init__(self, text: str):
        self.text = text
        self.doc: Any = model.NOT_JSON
        self.is_json = False
        self.gap = False            # accepted by Python's json but not RFC 8259, or floats that overflow
        self.bigint = False         # an integer literal beyond the interpreter's int<->str limit
        self.dupkeys = False
        self.depth = 0
        try:
            d = strictjson.decode_ex(text)
            self.is_json = True
            self.doc = d.value
            self.bigint = d.max_int_digits > 4300
            self.dupkeys = d.duplicate_keys
            self.depth = d.max_depth
            if d.has_float and _has_nonfinite(d.value):
                self.gap = True
        except strictjson.NotJson:
            if any(tok in text for tok in ('NaN', 'Infinity')):
                # may or may not be accepted by the lenient parser: left unjudged beyond totality
                self.gap = True

    @property
    def features(self) -> str:
        f = [n for n in ('gap', 'bigint', 'dupkeys') if getattr(self, n)]
        if self.depth > 64:
            f.append('deep')
        return '+'.join(f) or 'plain'


def _has_nonfinite(v: Any) -> bool:
    if isinstance(v, float):
        return v != v or v in (float('inf'), float('-inf'))
    if isinstance(v, list):
        return any(_has_nonfinite(x) for x in v)
    if isinstance(v, dict):
        return any(_has_nonfinite(x) for x in v.values())
    return False


class Obs:
    def __init__(self) -> None:
        self.status = ''              # 'ret' / 'exc'
        self.exc: Optional[BaseException] = None
        self.raw: Any = None          # what dispatch returned
        self.text: Optional[str] = None
        self.codes: Any = None
        self.doc: Any = None          # strict-decoded response document
        self.doc_problem: Optional[str] = None   # 'shape:...' / 'not-json' / None
        self.calls: List[Any] = []
        self.ctor_failed: List[str] = []
        self.contexts: List[Any] = []


def observe(w: world.World, text: str, context: Any = None) -> Obs:
    w.log.clear()
    o = Obs()
    o.status, val = w.dispatch(text, context)
    o.calls = list(w.log.calls)
    o.ctor_failed = list(w.log.ctor_failed)
    o.contexts = list(w.log.contexts)
    if o.status == 'exc':
        o.exc = val
        return o
    o.raw = val
    if val is None:
        return o
    if not (isinstance(val, tuple) and len(val) == 2 and isinstance(val[0], str) and isinstance(val[1], tuple)):
        o.doc_problem = 'shape:return-value-not-(str,tuple)'
        return o
    o.text, o.codes = val
    try:
        o.doc = strictjson.decode(o.text)
    except strictjson.NotJson as e:
        o.doc_problem = f'not-json'
    return o


def wellformed_problem(o: Obs) -> Optional[str]:
    """C01's oracle on one observation (no reference to what the right answer is)."""
    if o.status == 'exc':
        return f'dispatch-raises:{type(o.exc).__name__}'
    if o.raw is None:
        return None
    if o.doc_problem:
        return o.doc_problem if o.doc_problem != 'not-json' else 'response-not-json'
    p = wire.response_document_problem(o.doc)
    if p:
        if p.endswith('id-bad-type'):
            objs = o.doc if isinstance(o.doc, list) else [o.doc]
            if any(isinstance(x, dict) and isinstance(x.get('id'), bool) for x in objs):
                p += ':bool'
        return 'malformed-response:' + p
    expect = wire.codes_of(o.doc)
    codes = o.codes
    if not all(isinstance(c, int) and not isinstance(c, bool) for c in codes):
        return 'codes-not-integers'
    if list(codes) != expect:
        return 'codes-disagree-with-document'
    return None


def normalise_calls(calls: List[Any]) -> List[str]:
    return sorted(repr(model.normalise(c)) for c in calls)
