"""Seeded generator of JSON values with the edge content the properties name."""
from __future__ import annotations

import random
from typing import Any, List

STRINGS = ['', 'a', 'é', 'Ünï©ode', '\u0000', '\u001f\u007f', 'line\nbreak\ttab', '"quoted"', 'back\\slash', '\U0001F600',
           '\ud83d', 'null', '1', ' ', 'a' * 300, '  ', '/']
INTS = [0, 1, -1, 7, 255, 2 ** 31, 2 ** 53 + 1, 2 ** 63, 2 ** 64, -(2 ** 63) - 1, 10 ** 30, -(10 ** 40)]
FLOATS = [0.0, -0.0, 1.5, -2.25, 1e308, 5e-324, 1e-7, 123456789.125, 0.1]
SCALARS: List[Any] = [None, True, False] + INTS[:6] + FLOATS[:4] + STRINGS[:8]
EDGE_VALUES: List[Any] = [None, True, False, 0, '', [], {}, [None], {'': None}, [[]], [{}], {'a': []}, 0.0, -0.0,
                          2 ** 64, 10 ** 30, 1e308, '\u0000', '\U0001F600', '\ud83d', [1, 'a', None, True, 1.5],
                          {'a': {'b': {'c': {'d': [1, [2, [3, [4]]]]}}}}]


def value(rng: random.Random, depth: int = 4) -> Any:
    r = rng.random()
    if depth <= 0 or r < 0.45:
        k = rng.random()
        if k < 0.15:
            return None
        if k < 0.3:
            return rng.random() < 0.5
        if k < 0.55:
            return rng.choice(INTS) if rng.random() < 0.5 else rng.randint(-1000, 1000)
        if k < 0.7:
            return rng.choice(FLOATS)
        return rng.choice(STRINGS) if rng.random() < 0.6 else ''.join(rng.choice('abcxyz09_é') for _ in range(rng.randint(1, 8)))
    if r < 0.72:
        return [value(rng, depth - 1) for _ in range(rng.choice((0, 1, 1, 2, 3, 5)))]
    return {key(rng): value(rng, depth - 1) for _ in range(rng.choice((0, 1, 1, 2, 3, 4)))}


def key(rng: random.Random) -> str:
    return rng.choice(['a', 'b', 'k', 'id', 'jsonrpc', 'result', 'error', 'code', 'data', '', 'é', 'x y', '\U0001F600',
                       ''.join(rng.choice('abcdef') for _ in range(3))])


def params(rng: random.Random) -> Any:
    """what a caller may pass as request parameters: list / tuple / dict / None, possibly empty"""
    r = rng.random()
    if r < 0.08:
        return None
    if r < 0.16:
        return []
    if r < 0.24:
        return {}
    if r < 0.3:
        return ()
    if r < 0.62:
        return [value(rng, 3) for _ in range(rng.randint(1, 4))]
    if r < 0.7:
        return tuple(value(rng, 2) for _ in range(rng.randint(1, 3)))
    if r < 0.9:
        return {rng.choice('abcdxyz') + rng.choice(['', '1', '_']): value(rng, 3) for _ in range(rng.randint(1, 4))}
    # member names of a params object are JSON strings, not Python identifiers
    return {rng.choice(PARAM_KEYS): value(rng, 2) for _ in range(rng.randint(1, 3))}


PARAM_KEYS = ['content-type', '', '2fa', 'a b', '$ref', 'user.id', '\U0001F600', 'class', 'é', ' ', 'x-y', '0', 'jsonrpc', 'id', 'params']


def _unused():
    return None
