"""Generators of request texts for the server-side monitors. All deterministic given a random.Random."""
from __future__ import annotations

import itertools
import json
import random
from typing import Any, Dict, Iterator, List, Optional, Tuple

MISSING = '__missing__'

JSONRPC_ALPHA = [MISSING, '2.0', '1.0', 2.0, 2, None, True, [], {}, '2.00', ' 2.0', '2.0%', '%s', '%(x)d %', '2', '.0', '']
ID_ALPHA = [MISSING, None, 0, 1, -1, 2 ** 63, 10 ** 30, 1.0, 1.5, '', 'a', '1', True, False, [], {}, 'é\u0000\U0001F600', '%s %d', '{0}']
METHOD_ALPHA = [MISSING, 'js_checked', 'js_loose', 'slowfail', 'byid', 'wrapped', 'whoami', 'ctxp', 'fac1', 'fac2', 'ok', 'noargs', 'echo', 'kwonly', 'rpcerr', 'typed', 'boom', 'ctxm', 'view.vm',
                'view._hidden', 'view', 'nope', '', 1, None, True, [], {}, 'rpc.nope', 'ok ', '\nok', 'rpc.']
# names nobody registered: plain, in the namespace JSON-RPC reserves for extensions (a name like any other to a server that
# registered nothing there), and registered names with white space around them or in another case
UNKNOWN_NAMES = ['nope', 'rpc.nope', 'ok ', 'rpc.discover', ' ok', 'OK', 'ok\n', 'rpc.']
PARAMS_ALPHA = [MISSING, [], {}, [1], [1, 2], {'a': 1}, {'a': 1, 'b': 2}, {'z': 0}, None, 1, 's', True,
                [[1, [2, {'x': None}]]], {'v': {'k': [1.5, 'é', False]}}, [1, 2, 3], {'ctx': 'evil', 'a': 1}, [{}], [{'a': 1, 'b': 2}],
                {'content-type': 1, 'a': 1}, {'': 0}, {'2fa': 1, '$ref': 2, 'a b': 3}]


def dumps(v: Any) -> str:
    return json.dumps(v, ensure_ascii=False)


def obj(jsonrpc: Any = '2.0', id: Any = MISSING, method: Any = 'ok', params: Any = MISSING, **extra: Any) -> Dict[str, Any]:
    o: Dict[str, Any] = {}
    if jsonrpc is not MISSING and jsonrpc != MISSING:
        o['jsonrpc'] = jsonrpc
    if not (isinstance(id, str) and id == MISSING):
        o['id'] = id
    if not (isinstance(method, str) and method == MISSING):
        o['method'] = method
    if not (isinstance(params, str) and params == MISSING):
        o['params'] = params
    o.update(extra)
    return o


def object_product(rng: random.Random, exhaustive: bool, samples: int) -> Iterator[Tuple[str, str]]:
    """(family, text) for single request objects over the per-member alphabets."""
    alphas = [JSONRPC_ALPHA, ID_ALPHA, METHOD_ALPHA, PARAMS_ALPHA]
    base = ['2.0', 1, 'ok', [1]]
    seen = set()
    # one factor at a time around a valid base, then all pairs of deviations
    for i, alpha in enumerate(alphas):
        for v in alpha:
            combo = list(base)
            combo[i] = v
            key = dumps(combo)
            if key not in seen:
                seen.add(key)
                yield 'object-1factor', dumps(obj(*combo))
    if exhaustive:
        for combo in itertools.product(*alphas):
            key = dumps(list(combo))
            if key not in seen:
                seen.add(key)
                yield 'object-product', dumps(obj(*combo))
    else:
        for (i, a1), (j, a2) in itertools.combinations(list(enumerate(alphas)), 2):
            for v1 in a1:
                for v2 in a2:
                    combo = list(base)
                    combo[i], combo[j] = v1, v2
                    key = dumps(combo)
                    if key not in seen:
                        seen.add(key)
                        yield 'object-2factor', dumps(obj(*combo))
        for _ in range(samples):
            combo = [rng.choice(a) for a in alphas]
            key = dumps(combo)
            if key not in seen:
                seen.add(key)
                yield 'object-product', dumps(obj(*combo))


# ---- well-typed calls per probe method ---------------------------------------------------------------

JSON_SHAPES = [None, True, False, 0, 1, -1, 2 ** 63, 10 ** 30, 1.5, -0.0, 1e308, '', 'a', 'é', '\u0000\u001f', '\U0001F600',
               '\ud800', 'Zq7', [], {}, [None], {'a': None}, [[[]]], {'a': {'b': {'c': [1, 'x', None]}}},
               [1, 'a', None, True, 1.5], {'': 0}, {'é': [{}]}]

RPC_CODES = [0, 1, -1, -32700, -32600, -32601, -32602, -32603, -32000, -32099, -32050, 70001, 2 ** 40, -(2 ** 40)]
RPC_MESSAGES = ['', 'm', 'Ünï©ode \U0001F600', 'with "quotes" and \\ backslash\n']
RPC_DATA = ['__absent__', None, 0, '', [], {}, False, {'k': [1, {'n': None}]}, 10 ** 30, 'text']
EXC_KINDS = ['ValueError', 'KeyError', 'TypeError', 'AssertionError', 'RuntimeError', 'ZeroDivisionError',
             'LookupError', 'OSError', 'StopIteration', 'Xq9ErrorCustom', 'Xq9ErrorSub', 'TimeoutError', 'ConnectionError',
             'Xq9Timeout', 'NotImplementedError', 'UnicodeError', 'RecursionError', 'ArithmeticError', 'AttributeError',
             'IndexError', 'StopAsyncIteration', 'BufferError', 'PjBaseError', 'PjDeserializationError', 'PjIdentityError',
             'PjValidationError', 'JSONDecodeError', 'PjValidationErrorLive', 'ValueErrorLive',
             'ValueErrorEmpty', 'KeyErrorEmpty', 'AssertionErrorEmpty', 'ValueErrorBlank', 'Xq9EmptyStr', 'ValueErrorMultiline',
             'Xq9BadRepr', 'GroupOfOneRpcError', 'NestedGroupOfOneRpcError', 'GroupOfTwo', 'KeyErrorSubclass',
             'CausedByRpcError', 'CausedByRpcErrorDeep', 'ContextIsRpcError', 'CausedByLibError', 'CausedByInvalidParams']
KEYED_KINDS = ['int', 'mixed', 'float', 'consts', 'nested', 'neg-and-str']
LIB_ERROR_NAMES = ['ParseError', 'InvalidRequestError', 'MethodNotFoundError', 'InvalidParamsError', 'InternalError', 'ServerError']


def typed_calls(rng: random.Random, full: bool) -> Iterator[Tuple[str, str, List[Any] | Dict[str, Any]]]:
    """(family, method, params) of calls whose arguments fit the probe they address (or deliberately do not)."""
    for v in JSON_SHAPES:
        yield 'echo-shape', 'echo', [v]
        yield 'echo-shape', 'echo', {'v': v}
    for name in UNKNOWN_NAMES:
        for p in ([1], {'a': 1}, []):
            yield 'unknown-name', name, p
    for p in ([1], [1, 2], {'a': 1}, {'a': 1, 'b': 2}, {'b': 2, 'a': None}):
        yield 'ok', 'ok', p
        yield 'view', 'view.vm', p
    for p in ([], [1, 2, 3], {'b': 2}, {'a': 1, 'c': 3}, {'a': 1, 'b': 2, 'c': 3}, [1, 2, 3, 4]):
        yield 'unbound', 'ok', p
        yield 'unbound', 'view.vm', p
    for t in (0, 1, 2, 3, 5):
        yield 'slow', 'slow', [f's{t}', t]
        yield 'slowfail', 'slowfail', [f'f{t}', t, 'rpc' if t % 2 else 'exc']
    for p in (['10.0.0.1'], {'ip': '192.168.1.254'}):
        yield 'shared-validator', 'js_checked', p
    for p in (['not-an-ip'], {'ip': '10.0.0.256'}, [5], []):
        yield 'unbound', 'js_checked', p
    for p in (['not-an-ip'], {'s': '10.0.0.1'}, ['']):
        yield 'shared-validator', 'js_loose', p
    for p in ([5], {'s': None}, {'zz': 'x'}):
        yield 'unbound', 'js_loose', p
    for p in ([7], {'id': 7}, {'id': 'x', 'extra': 1}, {'id': None}, [0, 0]):
        yield 'param-named-id', 'byid', p
    for p in ({'extra': 1}, {'id': 1, 'idd': 2}, []):
        yield 'unbound', 'byid', p
    for p in ([1], [1, 2], {'a': 1, 'b': 2}):
        yield 'coroutine-returning-callable', 'wrapped', p
    yield 'unbound', 'wrapped', {'zz': 1}
    yield 'slow', 'slow', {'v': 'sk', 'ticks': 2}
    for p in ([1], {'x': 1}):
        yield 'factory', 'fac1', p
    for p in ([1], [1, 2], {'x': 1, 'y': 2}, {'x': 1, 'z': 3}, {'x': 1, 'y': 2, 'z': 3}):
        yield 'factory', 'fac2', p
    for p in ([1, 2], {'x': 1, 'y': 2}, [], {'x': 1, 'z': 3}):
        yield 'unbound', 'fac1', p
    for p in ([1, 2, 3], {'y': 2}, {'x': 1, 'w': 0}):
        yield 'unbound', 'fac2', p
    for p in ([], {}):
        yield 'noargs', 'noargs', p
    for p in ([1], {'x': 1}):
        yield 'unbound', 'noargs', p
    # by-name parameters wrapped as the single element of an array: an array is positional, whatever it holds
    yield 'unbound-object-inside-array', 'noargs', [{}]
    yield 'unbound-object-inside-array', 'whoami', [{}]
    yield 'unbound-object-inside-array', 'rpcerr', [{'code': 1, 'message': 'm'}]
    yield 'unbound-object-inside-array', 'slowfail', [{'v': 1}, {'ticks': 0}, {'how': 'rpc'}, {}]
    yield 'object-inside-array-binds-positionally', 'ok', [{'a': 1, 'b': 2}]
    yield 'object-inside-array-binds-positionally', 'echo', [{'v': 1}]
    for p in ([5], {'n': 7}, [10 ** 20]):
        yield 'annotated-constraint', 'pd_pos', p
    for p in ([0], [-3], {'n': -1}, ['x'], [None], [], {'m': 1}, [1, 2], [[1]]):
        yield 'unbound', 'pd_pos', p
    for p in ([3], {'n': -4}, [10 ** 20]):
        yield 'schema-declares-draft-04', 'js_draft4', p
    for p in ([3.0], {'n': 1.0}, ['3'], [None], [True]):
        yield 'unbound', 'js_draft4', p
    for p in ([[1, 2]], {'items': [1], 'stop': 5}, {'items': [1], 'step': 2}, {'items': [], 'start': 1, 'step': 2}, [[1], 1, 2, 3],
              {'step': 9, 'items': 'i'}):
        yield 'skips-optional-parameters', 'window', p
    for p in ({'stop': 5}, {'items': 1, 'stride': 2}):
        yield 'unbound', 'window', p
    for p in ([[1, 2, 3]], {'lst': [], 'd': {}}, [[5], {'k': 1}]):
        yield 'mutates-its-arguments', 'mutate', p
    for p in ([], [1], {'a': 2}):
        yield 'view-constructor-fails', 'broken.vm', p
    yield 'unbound', 'ok', {'content-type': 1, 'a': 1}
    yield 'unbound', 'noargs', {'': 0}
    for p in ([2], {'n': 4}):
        yield 'custom-validator-code', 'pd_even', p
    for p in ([1], [1, 2], {'a': 3}, {'b': 4, 'a': 5}):
        yield 'pydantic-validator-not-coercing', 'pd_asis', p
    for p in ([], ['x'], {'a': 1, 'b': 'x'}, [1, 2, 3], {'b': 1}, [None], [[1]]):
        yield 'unbound', 'pd_asis', p
    for p in ([1], {'a': 0, 'b': {'t': 'x'}}, [2, {'t': 'T'}], {'a': 3, 'b': {}}):
        yield 'schema-with-$id-and-$ref', 'js_ref', p
    for p in ([-1], {'a': 'x'}, [1, {'t': 5}], [1, 'b'], [], {'b': {'t': 'x'}}):
        yield 'unbound', 'js_ref', p
    for p in ([], [7], {'a': 8}):
        yield 'registered-name-in-the-rpc-namespace', 'rpc.ping', p
    yield 'unbound', 'rpc.ping', {'zz': 1}
    for p in ([5], {'d': 1.5}, ['P2D']):
        yield 'bound-on-a-converted-type', 'pd_span', p
    for p in ([-5], [0], {'d': '-P1D'}, ['P0D'], ['x'], [None], [], [[1]], {'e': 1}):
        yield 'unbound', 'pd_span', p
    for p in ([3], {'n': 7}, ['x'], []):
        yield 'unbound', 'pd_even', p
    for p in ([['a', 'b']], {'items': []}, [[]]):
        yield 'array-parameter', 'js_list', p
    for p in (['abc'], {'items': ''}, [[1]], [None], [{'0': 'a'}]):
        yield 'unbound', 'js_list', p
    for p in ([], [5], {'a': 5}):
        yield 'one-function-two-registrations', 'ctxm_plain', ([9] + p if isinstance(p, list) else dict(p, ctx=9))
    yield 'unbound', 'ctxm_plain', []
    for p in ([1], {'a': 'x'}):
        yield 'non-json-defaults', 'odd_defaults', p
    for p in ([], {'zz': 1}, [1, 2, 3, 4, 5, 6], {'a': 1, 'nope': 2}):
        yield 'unbound', 'odd_defaults', p
    for p in ([1], {'a': 1, 'b': 2}):
        yield 'type-checker-only-annotations', 'tc_only', p
    yield 'unbound', 'tc_only', {'c': 1}
    for p in ([' x '], {'s': 'y'}):
        yield 'custom-validator-code', 'pd_strip', p
    for p in ([1], {'a': 1, 'b': 2}, [1, 2]):
        yield 'view-class-or-static-method', 'view.cm', p
        yield 'view-class-or-static-method', 'view.sm', p
    for p in (['m'], ['m', 'c'], {'message': 'm', 'context': {'k': 1}}, {'context': None, 'message': 1}):
        yield 'view-method-with-a-parameter-named-context', 'view.note', p
    for p in ([], {'context': 1}, [1, 2, 3], {'message': 1, 'ctx': 2}):
        yield 'unbound', 'view.note', p
    for p in ([], {'cls': 1}, {'b': 2}, [1, 2, 3]):
        yield 'unbound', 'view.cm', p
        yield 'unbound', 'view.sm', p
    for p in ([], [3], {'by': 2}):
        yield 'stateful-view-without-context', 'cnt.bump', p
    for p in ([1], {'a': 2}):
        yield 'underscore-name', '_under', p
        yield 'underscore-name', 'ns._dotted', p
    yield 'unbound', '_under', {'zz': 1}
    for p in ([1], [1, 2], {'a': 1, 'b': 2}):
        yield 'coroutine-object-of-another-class', 'cowrapped', p
    for p in ([1], {'a': 1}, {'a': 1, 'k': 2}):
        yield 'kwonly', 'kwonly', p
    for p in ([1, 2], {'k': 2}, {'a': 1, 'k': 2, 'z': 3}):
        yield 'unbound', 'kwonly', p
    for p in ([], [5], {'a': 5}, {}):
        yield 'ctx', 'ctxm', p
        yield 'ctx', 'ctxp', p
    for p in ([], {}):
        yield 'ctx', 'whoami', p
    for p in ([1], {'ctx': 'evil'}, {'a': 1}):
        yield 'ctx-unbound', 'whoami', p
    for p in ({'ctx': 'evil'}, [1, 2], {'zz': 1}):
        yield 'ctx-unbound', 'ctxp', p
    for p in ({'ctx': 'evil'}, {'ctx': 'evil', 'a': 1}, [1, 2], {'a': 1, 'zz': 2}):
        yield 'ctx-unbound', 'ctxm', p
    codes = RPC_CODES if full else RPC_CODES[:6] + [rng.choice(RPC_CODES[6:])]
    for code in codes:
        for message in (RPC_MESSAGES if full else RPC_MESSAGES[:2]):
            for data in (RPC_DATA if full else [RPC_DATA[0], RPC_DATA[1], rng.choice(RPC_DATA[2:])]):
                if rng.random() < 0.5:
                    yield 'rpcerr', 'rpcerr', [code, message] if data == '__absent__' else [code, message, data]
                else:
                    p = {'code': code, 'message': message}
                    if data != '__absent__':
                        p['data'] = data
                    yield 'rpcerr', 'rpcerr', p
    for p in (['x', 'm'], [True, 'm'], [1, 2], [1.5, 'm']):
        yield 'rpcerr-misuse', 'rpcerr', p
    for data in RPC_DATA:
        yield 'typed', 'typed', [] if data == '__absent__' else [data]
    for uid in (0, 'u', None, [1, {'k': 2}]):
        yield 'typed-own-constructor', 'typedctor', [uid]
    yield 'typed-own-constructor', 'typedctor', {}
    for name in LIB_ERROR_NAMES:
        for data in ('__absent__', None, {'k': [1]}, 'text'):
            yield 'raises-library-error-class', 'raiselib', [name] if data == '__absent__' else {'name': name, 'data': data}
    yield 'raises-library-error-class', 'raiselib', ['NoSuchError']
    # two modules, one validator, the same signature text `create(item: 'Item')` - the classes differ
    for p in ([{'name': 'ann'}], {'item': {'name': 'bob', 'sku': 3}}):
        yield 'same-signature-text-in-two-modules', 'users.create', p
    for p in ([{'sku': 5}], {'item': {'sku': 6, 'qty': 2}}, [{'sku': 7, 'name': 'n'}]):
        yield 'same-signature-text-in-two-modules', 'orders.create', p
    for p in ([{'sku': 5}], [{}], [[1]], {'item': None}, [], {'it': {'name': 'x'}}):
        yield 'unbound', 'users.create', p
    for p in ([{'name': 'ann'}], [{'qty': 2}], ['x'], [], [{'sku': 1}, 2]):
        yield 'unbound', 'orders.create', p
    for m in ('pd_d_int', 'pd_d_bool', 'pd_d_float'):
        for p in ([], {}, ['given'], {'x': None}):
            yield 'defaults-that-compare-equal-across-methods', m, p
        yield 'unbound', m, {'y': 1}
    # an application error object whose truth value follows its content (an empty collection of field errors is falsy)
    for p in ([], [[]], [['name: required']], {'entries': []}, {'entries': ['a', 'b']}, ['single']):
        yield 'error-object-with-a-truth-value-of-its-own', 'fielderr', p
    for kind in KEYED_KINDS:
        yield 'mapping-with-non-string-keys', 'keyed', [kind]
        yield 'mapping-with-non-string-keys', 'keyed', {'kind': kind, 'how': 'error'}
    # one long-lived error object, updated and raised again and again (the world keeps it between requests)
    for data in ('__absent__', {'n': 1}, None, 'text', '__absent__', [], 0, {'n': 2}):
        for peek in (True, False):
            yield 'long-lived-error-object', 'stale', {'peek': peek} if data == '__absent__' else [data, peek]
    for kind in EXC_KINDS:
        yield 'boom', 'boom', [kind, f'{kind[:3]}{rng.randrange(1000)}']
    yield 'boom', 'boom', ['NoSuchKind', 'm']
    yield 'boom', 'boom', [[], 'm']


SINGLE_IDS = [0, 1, -1, 2 ** 63, 10 ** 30, '', '1', 'a', 'é', '\U0001F600', None, MISSING]


def singles(rng: random.Random, full: bool) -> Iterator[Tuple[str, str]]:
    ids = SINGLE_IDS
    k = 0
    for fam, method, params in typed_calls(rng, full):
        use = ids if full else [ids[k % len(ids)], ids[(k * 7 + 3) % len(ids)], MISSING]
        k += 1
        for i in use:
            yield f'single-{fam}', dumps(obj(id=i, method=method, params=params))


# ---- batches ----------------------------------------------------------------------------------------

ELEMENT_KINDS = ['call_slowfail', 'call_wrapped', 'call_slow', 'call_ok', 'call_unknown', 'call_unbound', 'call_rpcerr', 'call_typed', 'call_exc', 'call_view',
                 'notify_ok', 'notify_unknown', 'notify_unbound', 'notify_rpcerr', 'notify_exc',
                 'invalid_obj', 'scalar', 'nullid_call']
ID_SCHEMES = ['int', 'mixed', 'exotic']
LARGE_BATCH_LENGTHS = (17, 33, 65, 70, 101, 129, 260)


def element_id(scheme: str, pos: int) -> Any:
    if scheme == 'int':
        return pos + 1
    if scheme == 'mixed':
        return [1, '1', 2, '2', 0, '0', -1, '-1'][pos % 8]
    return [0, '', -1, 2 ** 63, 'é', 'a', 10 ** 30, '\U0001F600'][pos % 8]


def make_element(kind: str, pos: int, scheme: str = 'int') -> Any:
    tok = f't{pos}'
    i = element_id(scheme, pos)
    if kind == 'call_ok':
        return obj(id=i, method='ok', params=[tok])
    if kind == 'call_slowfail':
        return obj(id=i, method='slowfail', params=[tok, max(0, 3 - pos), 'rpc' if pos % 2 else 'exc'])
    if kind == 'call_wrapped':
        return obj(id=i, method='wrapped', params=[tok])
    if kind == 'call_slow':
        return obj(id=i, method='slow', params=[tok, max(0, 3 - pos)])    # earlier elements finish later
    if kind == 'call_view':
        if pos % 2:
            return obj(id=i, method='view.note', params={'message': tok, 'context': pos})
        return obj(id=i, method='view.vm', params={'a': tok})
    if kind == 'call_unknown':
        return obj(id=i, method=UNKNOWN_NAMES[pos % len(UNKNOWN_NAMES)], params=[tok])
    if kind == 'call_unbound':
        return obj(id=i, method='ok', params={'zz': tok})
    if kind == 'call_rpcerr':
        return obj(id=i, method='rpcerr', params=[1000 + pos, f'msg-{tok}', {'tok': tok}])
    if kind == 'call_typed':
        # by position: a typed error, a library error class raised by the method, an error with its own constructor
        if pos % 3 == 1:
            return obj(id=i, method='raiselib', params=[LIB_ERROR_NAMES[(pos // 3) % 2], tok])
        if pos % 3 == 2:
            return obj(id=i, method='typedctor', params=[tok])
        return obj(id=i, method='typed', params=[tok])
    if kind == 'call_exc':
        return obj(id=i, method='boom', params=['ValueError', tok])
    if kind == 'notify_ok':
        return obj(method='ok', params=[tok])
    if kind == 'notify_unknown':
        return obj(method=UNKNOWN_NAMES[(pos + 1) % len(UNKNOWN_NAMES)], params=[tok])
    if kind == 'notify_unbound':
        return obj(method='ok', params={'zz': tok})
    if kind == 'notify_rpcerr':
        return obj(method='rpcerr', params=[1000 + pos, f'msg-{tok}'])
    if kind == 'notify_exc':
        return obj(method='boom', params=['RuntimeError', tok])
    if kind == 'invalid_obj':
        return {'jsonrpc': '2.0', 'id': i}
    if kind == 'scalar':
        return pos
    if kind == 'nullid_call':
        return obj(id=None, method='ok', params=[tok])
    raise KeyError(kind)


def batches(rng: random.Random, max_exhaustive_len: int, sampled: int, max_len: int = 8) -> Iterator[Tuple[str, str, int]]:
    """(family, text, length)"""
    yield 'batch-empty', '[]', 0
    for n in range(1, max_exhaustive_len + 1):
        for kinds in itertools.product(ELEMENT_KINDS, repeat=n):
            scheme = ID_SCHEMES[(hash_kinds(kinds)) % 3]
            yield f'batch-exhaustive-{n}', dumps([make_element(k, p, scheme) for p, k in enumerate(kinds)]), n
    for _ in range(sampled):
        n = rng.randint(max_exhaustive_len + 1, max_len)
        # mostly valid elements so that long batches are accepted often
        pool = ELEMENT_KINDS if rng.random() < 0.3 else ELEMENT_KINDS[:15]
        kinds = [rng.choice(pool) for _ in range(n)]
        yield f'batch-sampled', dumps([make_element(k, p, rng.choice(ID_SCHEMES)) for p, k in enumerate(kinds)]), n
    # all-notification batches of every length
    notif = ['notify_ok', 'notify_unknown', 'notify_unbound', 'notify_rpcerr', 'notify_exc']
    for n in range(1, max_len + 1):
        yield 'batch-all-notifications', dumps([make_element(notif[p % len(notif)], p) for p in range(n)]), n
        yield 'batch-all-notifications', dumps([make_element('notify_ok', p) for p in range(n)]), n
    # duplicate ids at every pair of positions
    for n in (2, 3, 4):
        for a, b in itertools.combinations(range(n), 2):
            for dup in (1, '1', 0, '', '%s', '100%'):
                els = [make_element('call_ok', p) for p in range(n)]
                els[a]['id'] = dup
                els[b]['id'] = dup
                yield 'batch-duplicate-ids', dumps(els), n
            # same value, different JSON type: not a duplicate
            els = [make_element('call_ok', p) for p in range(n)]
            els[a]['id'] = 7
            els[b]['id'] = '7'
            yield 'batch-lookalike-ids', dumps(els), n
    # two DIFFERENT ids each repeated, of the same and of different JSON types
    for pair in ((1, 'a'), (0, ''), (1, '1'), (1, 2), ('a', 'b'), (-1, 10 ** 30)):
        for order in ((0, 1, 0, 1), (0, 0, 1, 1), (0, 1, 1, 0)):
            els = [make_element('call_ok', p) for p in range(4)]
            for p, which in enumerate(order):
                els[p]['id'] = pair[which]
            yield 'batch-two-duplicated-ids', dumps(els), 4
        els = [make_element('call_ok', p) for p in range(5)]
        for p, v in enumerate((pair[0], pair[1], 9, pair[0], pair[1])):
            els[p]['id'] = v
        yield 'batch-two-duplicated-ids', dumps(els), 5
    # large batches whose elements really suspend (lengths around powers of two and round numbers, where pool / queue / limit
    # sizes like to sit): every element is in flight at the same time on a concurrent dispatcher
    for n in LARGE_BATCH_LENGTHS:
        els = []
        for p in range(n):
            if p % 7 == 3:
                els.append(obj(method='slow', params=[f't{p}', 1 + p % 3]))
            elif p % 11 == 5:
                els.append(obj(id=p + 1, method='slowfail', params=[f't{p}', 1 + p % 2, 'rpc' if p % 2 else 'exc']))
            else:
                els.append(obj(id=p + 1, method='slow', params=[f't{p}', 1 + p % 3]))
        yield 'batch-large', dumps(els), n
    # lengths around the size limits used by the configurations (1 and 3)
    for n in (1, 2, 3, 4, 5):
        yield 'batch-size-boundary', dumps([make_element('call_ok', p) for p in range(n)]), n
        yield 'batch-size-boundary', dumps([make_element('notify_ok', p) for p in range(n)]), n


def hash_kinds(kinds) -> int:
    h = 0
    for k in kinds:
        h = h * 31 + ELEMENT_KINDS.index(k)
    return h


# ---- non-JSON and exotic texts ------------------------------------------------------------------------

VALID_DOCS = [
    dumps(obj(id=1, method='ok', params=[1])),
    dumps(obj(id='a', method='echo', params={'v': {'k': [1, 2.5, None, True, 'é']}})),
    dumps(obj(method='ok', params=[1])),
    dumps([obj(id=1, method='ok', params=[1]), obj(method='noargs')]),
    dumps([obj(id=1, method='ok', params=[1]), obj(id=2, method='boom', params=['ValueError', 'x'])]),
    '{"jsonrpc": "2.0", "id": 1, "method": "echo", "params": ["\\u00e9\\ud83d\\ude00\\n"]}',
    ' \t\r\n{"jsonrpc":"2.0","id":1,"method":"noargs"}\n ',
]


def nonjson(rng: random.Random, per_doc: int, random_texts: int) -> Iterator[Tuple[str, str]]:
    for d in VALID_DOCS:
        cuts = range(len(d)) if per_doc >= len(d) else sorted(rng.sample(range(len(d)), per_doc))
        for c in cuts:
            yield 'prefix', d[:c]
        for c in cuts:
            yield 'deletion', d[:c] + d[c + 1:]
        for c in cuts:
            yield 'insertion', d[:c] + rng.choice(',:{}[]"\\x0 \u0000é') + d[c:]
    fixed = ['', ' ', '\n', '﻿', '﻿{}', '\u0000', '\x1f', '\ud800', '\U0001F600', 'null', 'true', 'false', '0', '-0',
             '1.5', '1e5', '"s"', '""', '[]', '{}', '[[]]', '[{}]', '[null]', '[1,2]', '{"a":1}', 'nul', 'tru', "{'a': 1}",
             '{"jsonrpc":"2.0","id":1,"method":"ok","params":[1],}', '[1,]', '01', '1.', '.5', '+1', '0x10', '1e', '--1',
             '"\\x"', '"\t"', '"abc', '{"a"}', '{"a":}', '{:1}', '[,]', '{} {}', '[] []', '1 2', '//c\n1', '/* */ 1',
             '{"jsonrpc":"2.0","id":1,"method":"ok","params":[1]} x', 'NaN', 'Infinity', '-Infinity', '[NaN]', '-NaN',
             '{"jsonrpc":"2.0","id":1,"method":"echo","params":[NaN]}', '{"jsonrpc":"2.0","id":1,"method":"echo","params":[Infinity]}',
             '{"jsonrpc":"2.0","id":NaN,"method":"ok","params":[1]}', '{"jsonrpc":"2.0","id":1,"method":"echo","params":[1E400]}',
             '{"jsonrpc":"2.0","id":1,"method":"echo","params":[-1E400]}', '{"jsonrpc":"2.0","id":1e2,"method":"ok","params":[1]}',
             '{"jsonrpc":"2.0","jsonrpc":"1.0","id":1,"method":"ok","params":[1]}',
             '{"jsonrpc":"1.0","jsonrpc":"2.0","id":1,"method":"ok","params":[1]}',
             '{"jsonrpc":"2.0","id":1,"id":2,"method":"ok","params":[1]}',
             '{"jsonrpc":"2.0","id":1,"method":"ok","params":[1],"extra":true}',
             '{"jsonrpc":"2.0","id":1,"method":"ok","params":[1],"result":1}',
             '{"jsonrpc":"2.0","id":1,"method":"ok","params":[1],"error":{"code":1,"message":"m"}}',
             '{"jsonrpc":"2.0","id":1,"result":1}', '{"jsonrpc":"2.0","id":null,"error":{"code":-32600,"message":"m"}}',
             '"\\ud800"', '"\\udc00\\ud800"', '{"\\u0000":1}']
    for t in fixed:
        yield 'fixed-text', t
    alphabet = '{}[]":,0123456789.-+eE \n\ttruefalsn\\u"é\u0000\U0001F600\ud800jsonrpcidmethodparams'
    for _ in range(random_texts):
        n = rng.randint(1, 64)
        yield 'random-text', ''.join(rng.choice(alphabet) for _ in range(n))


def numbers(full: bool) -> Iterator[Tuple[str, str]]:
    digit_counts = [1, 18, 19, 20, 100, 4299, 4300, 4301, 5000, 20000] if full else [1, 19, 100, 4300, 4301, 5000]
    for n in digit_counts:
        lit = '1' + '0' * (n - 1) if n > 1 else '7'
        for sign in ('', '-'):
            x = sign + lit
            yield f'bigint-id', '{"jsonrpc":"2.0","id":%s,"method":"ok","params":[1]}' % x
            yield f'bigint-param', '{"jsonrpc":"2.0","id":1,"method":"echo","params":[%s]}' % x
            yield f'bigint-top', x
            yield f'bigint-batch', '[{"jsonrpc":"2.0","id":1,"method":"echo","params":[%s]},{"jsonrpc":"2.0","id":2,"method":"noargs"}]' % x
            yield f'bigint-code', '{"jsonrpc":"2.0","id":1,"method":"rpcerr","params":[%s,"m"]}' % x
    for f in ('1e308', '1e309', '-0.0', '1E400', '-1E400', '1e-400', '0.1', '1.0', '123456789012345678901234567890.5',
              '0.' + '1' * 5000, '1' * 400 + '.5'):
        yield 'float-param', '{"jsonrpc":"2.0","id":1,"method":"echo","params":[%s]}' % f
        yield 'float-id', '{"jsonrpc":"2.0","id":%s,"method":"ok","params":[1]}' % f
        yield 'float-top', f


def nesting(depths) -> Iterator[Tuple[str, str]]:
    for d in depths:
        arr = '[' * d + ']' * d
        ob = '{"k":' * d + 'null' + '}' * d
        mixed = ''.join('[{"k":' for _ in range(d // 2)) + '1' + ''.join('}]' for _ in range(d // 2))
        for name, v in (('array', arr), ('object', ob), ('mixed', mixed)):
            yield f'nest-param', '{"jsonrpc":"2.0","id":1,"method":"echo","params":[%s]}' % v
            yield f'nest-top', v
            yield f'nest-data', '{"jsonrpc":"2.0","id":1,"method":"rpcerr","params":[5,"m",%s]}' % v
            yield f'nest-batch', '[{"jsonrpc":"2.0","id":1,"method":"echo","params":[%s]}]' % v
