"""Probe server world shared by the dispatcher-side monitors (C01-C03, C11-C13, C18).

A *world* is a registry of instrumented methods (plain functions, coroutines and a class-based view)
that log every execution, plus helpers to build sync / async dispatchers over it and to run one request
text through them. Nothing here judges anything.
"""
from __future__ import annotations

import asyncio
import collections.abc
from typing import Any, Callable, Dict, List, Optional, Tuple

import pjrpc
import pjrpc.server
from pjrpc.common import UNSET

ABSENT = '__absent__'          # JSON-able stand-in for "member not present"

BUILTIN_EXC = {
    'ValueError': ValueError, 'KeyError': KeyError, 'TypeError': TypeError, 'AssertionError': AssertionError,
    'RuntimeError': RuntimeError, 'ZeroDivisionError': ZeroDivisionError, 'LookupError': LookupError,
    'OSError': OSError, 'StopIteration': StopIteration,
}


class Xq9ErrorCustom(Exception):
    """Custom application exception (its name is a leak marker)."""


class Xq9ErrorSub(Xq9ErrorCustom):
    pass


BUILTIN_EXC['Xq9ErrorCustom'] = Xq9ErrorCustom
BUILTIN_EXC['Xq9ErrorSub'] = Xq9ErrorSub


class Xq9Timeout(TimeoutError):
    pass


def _lib_exc():
    import json as _json

    from pjrpc.server import validators as _v
    return {
        'TimeoutError': TimeoutError, 'ConnectionError': ConnectionError, 'Xq9Timeout': Xq9Timeout,
        'NotImplementedError': NotImplementedError, 'UnicodeError': UnicodeError, 'RecursionError': RecursionError,
        'ArithmeticError': ArithmeticError, 'AttributeError': AttributeError, 'IndexError': IndexError,
        'StopAsyncIteration': StopAsyncIteration, 'BufferError': BufferError,
        # the library's own (non-protocol) exception types raised by user code
        'PjBaseError': pjrpc.exceptions.BaseError, 'PjDeserializationError': pjrpc.exceptions.DeserializationError,
        'PjIdentityError': pjrpc.exceptions.IdentityError, 'PjValidationError': _v.ValidationError,
        'JSONDecodeError': lambda m: _json.JSONDecodeError(m, 'doc', 0),
        # exceptions whose arguments are live, non-JSON objects
        'PjValidationErrorLive': lambda m: _v.ValidationError(ValueError(m), object()),
        'ValueErrorLive': lambda m: ValueError(m, object(), {1, 2}),
    }


BUILTIN_EXC.update(_lib_exc())


class Xq9EmptyStr(Exception):
    def __str__(self) -> str:
        return ''


class Xq9BadRepr(Exception):
    def __str__(self) -> str:
        raise RuntimeError('Zq7_marker_str_failed')

    def __repr__(self) -> str:
        raise RuntimeError('Zq7_marker_repr_failed')


class Xq9MissingUser(KeyError):
    pass


# exception groups (what a TaskGroup raises), also when their only member is a protocol error: a group is an arbitrary exception
BUILTIN_EXC.update({
    'GroupOfOneRpcError': lambda m: ExceptionGroup(m, [pjrpc.exceptions.JsonRpcError(code=4290, message='quota', data='Zq7_marker_g')]),
    'NestedGroupOfOneRpcError': lambda m: ExceptionGroup(m, [ExceptionGroup('inner', [pjrpc.exceptions.MethodNotFoundError()])]),
    'GroupOfTwo': lambda m: ExceptionGroup(m, [ValueError('a'), pjrpc.exceptions.JsonRpcError(code=4291, message='x')]),
    'KeyErrorSubclass': lambda m: Xq9MissingUser(m),
})

# exceptions without a message, with an empty / multi-line / unprintable rendering
BUILTIN_EXC.update({
    'ValueErrorEmpty': lambda m: ValueError(), 'KeyErrorEmpty': lambda m: KeyError(), 'AssertionErrorEmpty': lambda m: AssertionError(),
    'ValueErrorBlank': lambda m: ValueError(''), 'Xq9EmptyStr': lambda m: Xq9EmptyStr(m),
    'ValueErrorMultiline': lambda m: ValueError(m + '\nsecond line\n\nfourth'), 'Xq9BadRepr': lambda m: Xq9BadRepr(m),
})



def _chained(m, how='cause', depth=1, inner=None):
    """an ordinary exception explicitly chained to a protocol error (`raise X from rpc_error`, as a gateway or a retry /
    timeout wrapper does), or raised while one was being handled: still an arbitrary exception"""
    cur = inner if inner is not None else pjrpc.exceptions.JsonRpcError(code=4292, message='inner quota', data='Zq7_marker_cause')
    for i in range(depth):
        nxt = (RuntimeError if i == depth - 1 else TimeoutError)(m)
        if how == 'cause':
            nxt.__cause__ = cur
        else:
            nxt.__context__ = cur
        cur = nxt
    return cur


BUILTIN_EXC.update({
    'CausedByRpcError': lambda m: _chained(m), 'CausedByRpcErrorDeep': lambda m: _chained(m, depth=3),
    'ContextIsRpcError': lambda m: _chained(m, how='context'),
    'CausedByLibError': lambda m: _chained(m, inner=pjrpc.exceptions.MethodNotFoundError(data='Zq7_marker_cause')),
    'CausedByInvalidParams': lambda m: _chained(m, inner=pjrpc.exceptions.InvalidParamsError()),
})

TYPED_CODE = 70001
TYPED_MESSAGE = 'probe typed error'


class ProbeTypedError(pjrpc.exceptions.JsonRpcError):
    code = TYPED_CODE
    message = TYPED_MESSAGE


STALE_CODE = 70003
STALE_MESSAGE = 'probe long-lived error'


class ProbeStaleError(pjrpc.exceptions.JsonRpcError):
    code = STALE_CODE
    message = STALE_MESSAGE


# results (and error data) whose mappings have keys that are not strings: the JSON encoder writes them as strings
KEYED = {
    'int': lambda: {1: 'a', 2: 'b'}, 'mixed': lambda: {200: 7, 'total': 8, 404: 1}, 'float': lambda: {1.5: 'x', 'y': 2},
    'consts': lambda: {True: 1, None: 2, 'z': 3}, 'nested': lambda: {'k': [{7: {8: 'deep', 'x': None}}]},
    'neg-and-str': lambda: {-1: 0, '-2': 0, 'a': {'b': 1, 3: 2}},
}

FIELDS_CODE = 70004
FIELDS_MESSAGE = 'probe field errors'


class ProbeFieldErrors(pjrpc.exceptions.JsonRpcError):
    """an application error that is also the collection of its entries (len() = number of field errors): with no entry it is a
    perfectly good error object whose truth value is False"""
    code = FIELDS_CODE
    message = FIELDS_MESSAGE

    def __len__(self):
        return len(self.data.get('entries', ())) if isinstance(self.data, dict) else 0


CTOR_CODE = 70002
CTOR_MESSAGE = 'probe ctor error'


class ProbeCtorError(pjrpc.exceptions.JsonRpcError):
    """An application error with its own constructor signature (no class-level code, so it stays out of the client-side
    registry of typed errors)."""

    def __init__(self, uid: Any, *, hint: str = 'h'):
        super().__init__(code=CTOR_CODE, message=CTOR_MESSAGE, data={'uid': uid, 'hint': hint})


LIB_ERRORS = ('ParseError', 'InvalidRequestError', 'MethodNotFoundError', 'InvalidParamsError', 'InternalError', 'ServerError')


def _app_module(name: str, source: str):
    """a synthetic application module (registered in sys.modules, as an imported one would be)"""
    import sys
    import types
    m = sys.modules.get(name)
    if m is None:
        m = types.ModuleType(name)
        sys.modules[name] = m
        exec(compile(source, f'<{name}>', 'exec', dont_inherit=True), m.__dict__)
    return m


# two application modules written the same way: each has a model called `Item` and a function `create(item: 'Item') -> 'str'`
# (string annotations, resolved in the function's own module) - textually identical signatures, different classes
SHOP_USERS = _app_module('zq7_shop_users', 'import pydantic\n\n\nclass Item(pydantic.BaseModel):\n    name: str\n')
SHOP_ORDERS = _app_module('zq7_shop_orders', 'import pydantic\n\n\nclass Item(pydantic.BaseModel):\n    sku: int\n    qty: int = 1\n')


def _shop_function(module, log, tag, render):
    ns = {'__name__': module.__name__, '_log': log, '_render': render}
    src = ("def create(item: 'Item') -> 'str':\n    d = item.model_dump()\n"
           f"    _log.calls.append(({tag!r}, (d,), {{}}))\n    return _render(d)\n")
    exec(compile(src, f'<{module.__name__}>', 'exec', dont_inherit=True), ns)
    return ns['create']


class CtorFailed(Exception):
    """Raised by a probe when pjrpc refuses to construct the protocol error it was asked to raise."""


class Log:
    def __init__(self) -> None:
        self.calls: List[Tuple[str, Tuple[Any, ...], Dict[str, Any]]] = []
        self.ctor_failed: List[str] = []
        self.contexts: List[Any] = []

    def clear(self) -> None:
        self.calls.clear()
        self.ctor_failed.clear()
        self.contexts.clear()


class Context:
    """Per-request context object (weak-referenceable)."""

    def __init__(self, token: Any):
        self.token = token


def _raise_rpc(log: Log, code: Any, message: Any, data: Any) -> None:
    if not (isinstance(code, int) and not isinstance(code, bool) and isinstance(message, str)):
        raise ValueError('probe misuse: code must be an integer and message a string')
    try:
        err = pjrpc.exceptions.JsonRpcError(code=code, message=message, data=UNSET if data == ABSENT else data)
    except BaseException as e:  # pjrpc refused to build it
        log.ctor_failed.append(f'{type(e).__name__}')
        raise CtorFailed(f'{type(e).__name__}') from e
    raise err


def _raise_exc(kind: str, marker: str) -> None:
    cls = BUILTIN_EXC[kind]
    raise cls(f'Zq7_marker_{marker}')


# The reference twins (plain Python, no pjrpc): name -> (signature function, body outcome function).
# The signature function is only ever *bound* (inspect / a direct call) by the model; the outcome function
# says what the method does with the bound arguments.

def make_methods(log: Log, is_async: bool) -> Dict[str, Callable[..., Any]]:
    """Probe methods. In async worlds half of them are coroutines, half plain functions."""

    def ok(a, b=0):
        log.calls.append(('ok', (a, b), {}))
        return ['ok', a, b]

    def noargs():
        log.calls.append(('noargs', (), {}))
        return 'pong'

    def echo(v):
        log.calls.append(('echo', (v,), {}))
        return v

    def kwonly(a, *, k=1):
        log.calls.append(('kwonly', (a,), {'k': k}))
        return [a, k]

    def rpcerr(code, message, data=ABSENT):
        log.calls.append(('rpcerr', (code, message, data), {}))
        _raise_rpc(log, code, message, data)

    def typed(data=ABSENT):
        log.calls.append(('typed', (data,), {}))
        raise ProbeTypedError(data=UNSET if data == ABSENT else data)

    def boom(kind, marker='m'):
        log.calls.append(('boom', (kind, marker), {}))
        _raise_exc(kind, marker)

    def typedctor(uid=0):
        log.calls.append(('typedctor', (uid,), {}))
        raise ProbeCtorError(uid)

    def raiselib(name, data=ABSENT):
        # a method that raises one of the library's own protocol error CLASSES (a gateway re-raising an upstream error)
        log.calls.append(('raiselib', (name, data), {}))
        if name not in LIB_ERRORS:
            raise KeyError('Zq7_marker_nolib')
        raise getattr(pjrpc.exceptions, name)(data=UNSET if data == ABSENT else data)

    def ctxm(ctx, a=0):
        log.calls.append(('ctxm', (a,), {}))
        log.contexts.append(ctx)
        return [getattr(ctx, 'token', None), a]

    def factory(n):
        # two handlers with the same __module__ / __qualname__ but different signatures (closure factories are common)
        if n == 1:
            def handler(x):
                log.calls.append(('fac1', (x,), {}))
                return ['fac1', x]
        else:
            def handler(x, y=5, *, z=None):
                log.calls.append(('fac2', (x, y), {'z': z}))
                return ['fac2', x, y, z]
        return handler

    def unenc(what='set'):
        # returns something the JSON encoder refuses: outside the corpus the model judges (used as a history step by C13)
        log.calls.append(('unenc', (what,), {}))
        return {'set': {1, 2}, 'object': object(), 'bytes': b'x', 'nested': {'k': [object()]}}.get(what, {1})

    fac = dict(fac1=factory(1), fac2=factory(2), typedctor=typedctor, raiselib=raiselib, unenc=unenc)

    def slow(v, ticks=0):
        log.calls.append(('slow', (v, ticks), {}))
        return ['slow', v]

    async def a_slow(v, ticks=0):
        # really suspends: `ticks` trips through the event loop before finishing
        log.calls.append(('slow', (v, ticks), {}))
        for _ in range(ticks if isinstance(ticks, int) and not isinstance(ticks, bool) and 0 <= ticks <= 8 else 0):
            await asyncio.sleep(0)
        return ['slow', v]

    fac['slow'] = a_slow if is_async else slow

    def slowfail(v, ticks=0, how='rpc'):
        log.calls.append(('slowfail', (v, ticks, how), {}))
        if how == 'rpc':
            raise ProbeTypedError(data=v)
        raise RuntimeError(f'Zq7_marker_{v}')

    async def a_slowfail(v, ticks=0, how='rpc'):
        # really suspends, THEN fails: the error path runs while other elements are in flight
        log.calls.append(('slowfail', (v, ticks, how), {}))
        for _ in range(ticks if isinstance(ticks, int) and not isinstance(ticks, bool) and 0 <= ticks <= 8 else 0):
            await asyncio.sleep(0)
        if how == 'rpc':
            raise ProbeTypedError(data=v)
        raise RuntimeError(f'Zq7_marker_{v}')

    fac['slowfail'] = a_slowfail if is_async else slowfail

    def byid(id, extra=0):
        # a parameter literally named like a protocol member
        log.calls.append(('byid', (id, extra), {}))
        return ['byid', id, extra]

    fac['byid'] = byid

    async def _a_wrapped(a, b=0):
        log.calls.append(('wrapped', (a, b), {}))
        return ['wrapped', a, b]

    def _s_wrapped(a, b=0):
        log.calls.append(('wrapped', (a, b), {}))
        return ['wrapped', a, b]

    def wrapped(a, b=0):
        # in async worlds: a plain callable that RETURNS a coroutine (what a functools.wraps decorator around an
        # `async def` looks like to asyncio.iscoroutinefunction)
        return _a_wrapped(a, b) if is_async else _s_wrapped(a, b)

    fac['wrapped'] = wrapped

    # two methods validated by one JsonSchemaValidator instance; only one of them passes a format checker
    import jsonschema as _js

    from pjrpc.server.validators import jsonschema as _vjs
    shared_validator = _vjs.JsonSchemaValidator()

    @shared_validator.validate(schema={'type': 'object', 'properties': {'ip': {'type': 'string', 'format': 'ipv4'}}, 'required': ['ip']},
                               format_checker=_js.FormatChecker())
    def js_checked(ip):
        log.calls.append(('js_checked', (ip,), {}))
        return ['js_checked', ip]

    @shared_validator.validate(schema={'type': 'object', 'properties': {'s': {'type': 'string', 'format': 'ipv4'}}, 'required': ['s']})
    def js_loose(s):
        log.calls.append(('js_loose', (s,), {}))
        return ['js_loose', s]

    fac['js_checked'] = js_checked
    fac['js_loose'] = js_loose

    # a schema with a sub-schema that has an identifier of its own (`$id`: references inside it are relative to THAT), a
    # reference elsewhere, and a user-supplied format check that takes its time (a lookup, in real life) and lets other threads run
    slow_formats = _js.FormatChecker(formats=())

    @slow_formats.checks('zq7-slow')
    def _slow_format(value):
        import time as _time
        _time.sleep(0.002)
        return True

    @shared_validator.validate(schema={
        'type': 'object', 'definitions': {'pos': {'type': 'integer', 'minimum': 0}},
        'properties': {'a': {'$ref': '#/definitions/pos'},
                       'b': {'$id': 'file:///zq7-no-such-dir/schemas/b.json', 'type': 'object', 'properties': {'t': {'type': 'string', 'format': 'zq7-slow'}}}},
        'required': ['a']}, format_checker=slow_formats)
    def js_ref(a, b=None):
        log.calls.append(('js_ref', (a, b), {}))
        return ['js_ref', a, b]

    fac['js_ref'] = js_ref

    # a schema that says which draft it is written in: under draft-04 the number 3.0 is not an integer
    @shared_validator.validate(schema={'$schema': 'http://json-schema.org/draft-04/schema#', 'type': 'object',
                                       'properties': {'n': {'type': 'integer'}}, 'required': ['n']})
    def js_draft4(n):
        log.calls.append(('js_draft4', (n,), {}))
        return ['js_draft4', n]

    fac['js_draft4'] = js_draft4

    @shared_validator.validate(schema={'type': 'object', 'properties': {'items': {'type': 'array', 'items': {'type': 'string'}}},
                                       'required': ['items']})
    def js_list(items):
        log.calls.append(('js_list', (items,), {}))
        return ['js_list', list(items)]

    fac['js_list'] = js_list

    def window(items, start=0, stop=3, step=1):
        # several optional parameters: a by-name call may skip any of them
        log.calls.append(('window', (items, start, stop, step), {}))
        return ['window', items, start, stop, step]

    fac['window'] = window

    import datetime as _dt
    import decimal as _dec

    _MISSING = object()

    def odd_defaults(a, opt=_MISSING, when=_dt.date(2020, 1, 2), amount=_dec.Decimal('1.5'), kind=_dt.timezone.utc):
        # defaults that are not JSON values (a sentinel, a date, a Decimal): they never travel, whatever happens to a call
        log.calls.append(('odd_defaults', (a,), {}))
        return ['odd_defaults', a, opt is _MISSING]

    fac['odd_defaults'] = odd_defaults

    def tc_only(a, b=0):
        log.calls.append(('tc_only', (a, b), {}))
        return ['tc_only', a, b]

    # annotations that exist for the type checker only (`if TYPE_CHECKING: from x import T`): binding never needs them
    tc_only.__annotations__ = {'a': 'Xq9OnlyForTheTypeChecker', 'b': 'typing.Optional[Xq9AlsoMissing]', 'return': 'Xq9Result'}
    fac['tc_only'] = tc_only

    def mutate(lst, d=None):
        # works on the values it was handed, in place (they belong to this request alone)
        log.calls.append(('mutate', (list(lst) if isinstance(lst, list) else lst, dict(d) if isinstance(d, dict) else d), {}))
        if isinstance(lst, list):
            lst.append('seen')
        if isinstance(d, dict):
            d.setdefault('seen', True)
        return ['mutate', lst, d]

    fac['mutate'] = mutate

    # a constraint that lives in Annotated metadata, checked by the pydantic validator
    import typing as _t

    import pydantic as _pd

    from pjrpc.server.validators import pydantic as _vpd
    pd_validator = _vpd.PydanticValidator()

    def pd_pos(n):
        log.calls.append(('pd_pos', (n,), {}))
        return ['pd_pos', n]

    # (this module postpones its annotations: the real annotation object is attached by hand)
    pd_pos.__annotations__ = {'n': _t.Annotated[int, _pd.Field(gt=0)]}
    fac['pd_pos'] = pd_validator.validate(pd_pos)

    def pd_even(n):
        log.calls.append(('pd_even', (n,), {}))
        return ['pd_even', n]

    def _even(v):
        if v % 2:
            raise ValueError('Zq7_marker_odd')        # (the exception object ends up in pydantic's error context)
        return v

    pd_even.__annotations__ = {'n': _t.Annotated[int, _pd.AfterValidator(_even)]}
    fac['pd_even'] = pd_validator.validate(pd_even)

    def pd_span(d):
        log.calls.append(('pd_span', (d.total_seconds(),), {}))
        return ['pd_span', d.total_seconds()]

    # a bound on a type pydantic converts BEFORE it checks the bound: the error details name a converted (non-JSON) value
    import datetime as _dt
    pd_span.__annotations__ = {'d': _t.Annotated[_dt.timedelta, _pd.Field(gt=_dt.timedelta(0))]}
    fac['pd_span'] = pd_validator.validate(pd_span)

    def pd_asis(a, b=0):
        log.calls.append(('pd_asis', (a, b), {}))
        return ['pd_asis', a, b]

    # the validator in its non-coercing mode: arguments reach the method as sent, omitted ones take their defaults
    pd_asis.__annotations__ = {'a': int, 'b': int}
    fac['pd_asis'] = _vpd.PydanticValidator(coerce=False).validate(pd_asis)

    # defaults that compare equal across methods although they are different values (1 == True == 1.0), under one validator
    def pd_d_int(x=1):
        log.calls.append(('pd_d_int', (x,), {}))
        return ['pd_d_int', x]

    def pd_d_bool(x=True):
        log.calls.append(('pd_d_bool', (x,), {}))
        return ['pd_d_bool', x]

    def pd_d_float(x=1.0):
        log.calls.append(('pd_d_float', (x,), {}))
        return ['pd_d_float', x]

    for _f in (pd_d_int, pd_d_bool, pd_d_float):
        fac[_f.__name__] = pd_validator.validate(_f)

    # one validator object, two modules, the same signature text
    fac['users.create'] = pd_validator.validate(_shop_function(SHOP_USERS, log, 'users.create', lambda d: ['user', d['name']]))
    fac['orders.create'] = pd_validator.validate(_shop_function(SHOP_ORDERS, log, 'orders.create', lambda d: ['order', d['sku'], d['qty']]))

    def rpc_ping(a=0):
        # registered under a name inside the namespace the specification reserves for extensions: a method like any other
        log.calls.append(('rpc.ping', (a,), {}))
        return ['rpc.ping', a]

    fac['rpc.ping'] = rpc_ping

    def pd_kw(a, **kw):
        # variadic keywords under the pydantic validator (only used by C13's used-vs-fresh comparison)
        log.calls.append(('pd_kw', (a,), dict(kw)))
        return ['pd_kw', a, sorted(kw)]

    fac['pd_kw'] = pd_validator.validate(pd_kw)

    def pd_strip(s):
        log.calls.append(('pd_strip', (s,), {}))
        return ['pd_strip', s]

    # custom validator code that raises something else than ValueError for some inputs (str.strip on a number: TypeError)
    pd_strip.__annotations__ = {'s': _t.Annotated[str, _pd.BeforeValidator(str.strip)]}
    fac['pd_strip'] = pd_validator.validate(pd_strip)

    # explicitly registered names may start with an underscore (the underscore rule concerns view members only)
    def _under(a=0):
        log.calls.append(('_under', (a,), {}))
        return ['_under', a]

    def _dotted(a=0):
        log.calls.append(('ns._dotted', (a,), {}))
        return ['_dotted', a]

    fac['_under'] = _under
    fac['ns._dotted'] = _dotted

    class _Co(collections.abc.Coroutine):
        """a coroutine object that is not a native one (what Cython or a timing decorator hands out)"""

        def __init__(self, inner):
            self._inner = inner

        def send(self, value):
            return self._inner.send(value)

        def throw(self, *a):
            return self._inner.throw(*a)

        def close(self):
            return self._inner.close()

        def __await__(self):
            return self._inner.__await__()

    async def _a_cowrapped(a, b=0):
        log.calls.append(('cowrapped', (a, b), {}))
        await asyncio.sleep(0)
        return ['cowrapped', a, b]

    def cowrapped(a, b=0):
        if is_async:
            return _Co(_a_cowrapped(a, b))
        log.calls.append(('cowrapped', (a, b), {}))
        return ['cowrapped', a, b]

    fac['cowrapped'] = cowrapped

    def keyed(kind, how='result'):
        log.calls.append(('keyed', (kind, how), {}))
        v = KEYED[kind]() if isinstance(kind, str) and kind in KEYED else {}
        if how == 'error':
            raise ProbeTypedError(data=v)
        return ['keyed', v]

    async def a_keyed(kind, how='result'):
        return keyed(kind, how)

    fac['keyed'] = a_keyed if is_async else keyed

    def fielderr(entries=()):
        log.calls.append(('fielderr', (entries,), {}))
        raise ProbeFieldErrors(data={'entries': list(entries) if isinstance(entries, (list, tuple)) else [entries]})

    fac['fielderr'] = fielderr

    stale_error = ProbeStaleError()     # ONE long-lived error object (a module-level constant, in real life)

    def stale(data=ABSENT, peek=True):
        # updates the long-lived error object and raises it again; `peek`: the application renders it first (an audit log)
        log.calls.append(('stale', (data, peek), {}))
        if peek:
            stale_error.to_json()
        stale_error.data = UNSET if data == ABSENT else data
        raise stale_error.with_traceback(None)

    fac['stale'] = stale

    def whoami(ctx):
        log.calls.append(('whoami', (), {}))
        log.contexts.append(ctx)
        return [getattr(ctx, 'token', None)]

    def ctxp(ctx, a=0):
        log.calls.append(('ctxp', (a,), {}))
        log.contexts.append(ctx)
        return [getattr(ctx, 'token', None), a]

    fac['whoami'] = whoami
    fac['ctxp'] = ctxp

    if not is_async:
        return dict(fac, ok=ok, noargs=noargs, echo=echo, kwonly=kwonly, rpcerr=rpcerr, typed=typed, boom=boom, ctxm=ctxm)

    async def a_ok(a, b=0):
        return ok(a, b)

    async def a_echo(v):
        return echo(v)

    async def a_rpcerr(code, message, data=ABSENT):
        return rpcerr(code, message, data)

    async def a_boom(kind, marker='m'):
        return boom(kind, marker)

    async def a_ctxm(ctx, a=0):
        return ctxm(ctx, a)

    # mixture: coroutines and plain functions side by side
    return dict(fac, ok=a_ok, noargs=noargs, echo=a_echo, kwonly=kwonly, rpcerr=a_rpcerr, typed=typed, boom=a_boom,
                ctxm=a_ctxm)


def make_view(log: Log, is_async: bool, plain_only: bool = False):
    class ProbeView(pjrpc.server.ViewMixin):
        def __init__(self, context=None):
            super().__init__()
            self._context = context

        if is_async:
            async def vm(self, a, b=0):
                log.calls.append(('view.vm', (a, b), {}))
                log.contexts.append(self._context)
                return ['vm', a, b]
        else:
            def vm(self, a, b=0):
                log.calls.append(('view.vm', (a, b), {}))
                log.contexts.append(self._context)
                return ['vm', a, b]

        def _hidden(self):
            log.calls.append(('view._hidden', (), {}))
            return 'hidden'

        def note(self, message, context=None):
            # `context` is an ordinary JSON-RPC parameter of this method (the view's own context arrives through __init__)
            log.calls.append(('view.note', (message, context), {}))
            return ['note', message, context]

        @classmethod
        def cm(cls, a, b=0):
            log.calls.append(('view.cm', (a, b), {}))
            return ['cm', cls.__name__, a, b]

        @staticmethod
        def sm(a, b=0):
            log.calls.append(('view.sm', (a, b), {}))
            return ['sm', a, b]

    if plain_only:
        del ProbeView.cm, ProbeView.sm
    return ProbeView


def make_counter_view(log: Log, is_async: bool):
    class CounterView(pjrpc.server.ViewMixin):
        """registered WITHOUT a context; keeps state on the instance: every request gets its own instance"""

        def __init__(self):
            super().__init__()
            self.n = 0

        def bump(self, by=1):
            log.calls.append(('cnt.bump', (by,), {}))
            self.n += by if isinstance(by, int) and not isinstance(by, bool) else 1
            return ['bump', self.n]

    return CounterView


def make_broken_view(log: Log, is_async: bool):
    class BrokenView(pjrpc.server.ViewMixin):
        """its constructor fails (a key the application context lacks): handling fails before the method body"""

        def __init__(self, context=None):
            super().__init__()
            raise KeyError('Zq7_marker_db')

        def vm(self, a=0):
            log.calls.append(('broken.vm', (a,), {}))
            return ['broken', a]

    return BrokenView


METHOD_NAMES = ('js_checked', 'js_loose', 'slowfail', 'byid', 'wrapped', 'whoami', 'ctxp', 'slow', 'fac1', 'fac2', 'ok', 'noargs', 'echo', 'kwonly', 'rpcerr', 'typed', 'boom', 'ctxm', 'view.vm', 'typedctor', 'raiselib', 'pd_pos', '_under',
                'ns._dotted', 'cowrapped', 'js_draft4', 'window', 'mutate', 'broken.vm', 'odd_defaults', 'tc_only',
                'pd_strip', 'view.cm', 'view.sm', 'cnt.bump', 'pd_even', 'js_list', 'ctxm_plain', 'pd_span', 'view.note', 'pd_asis', 'rpc.ping', 'js_ref',
                'keyed', 'stale', 'users.create', 'orders.create', 'pd_d_int', 'pd_d_bool', 'pd_d_float', 'fielderr')


def build_registry(log: Log, coroutines: bool) -> 'pjrpc.server.MethodRegistry':
    """The probe registry (functions / coroutines + the class-based view) writing into `log`."""
    registry = pjrpc.server.MethodRegistry()
    for name, fn in make_methods(log, coroutines).items():
        if name in ('ctxm', 'whoami'):
            registry.add(fn, name, context='ctx')
            if name == 'ctxm':
                # the very same function object once more, WITHOUT a context designation: there `ctx` is an ordinary parameter
                registry.add(fn, 'ctxm_plain')
        elif name == 'ctxp':
            registry.add(fn, name, context='ctx', positional=True)
        else:
            registry.add(fn, name)
    try:
        registry.view(make_view(log, coroutines), context='context', prefix='view')
    except Exception:
        # a tree on which a view with class / static members cannot even be registered (the defect repaired by 69fb68b): the
        # rest of the probe world is still worth judging; the model keeps expecting view.cm / view.sm, so nothing is hidden
        registry.view(make_view(log, coroutines, plain_only=True), context='context', prefix='view')
    registry.view(make_broken_view(log, coroutines), context='context', prefix='broken')
    registry.view(make_counter_view(log, coroutines), prefix='cnt')
    return registry


class World:
    def __init__(self, is_async: bool, max_batch_size: Optional[int] = None, all_coroutines: Optional[bool] = None,
                 make_dispatcher: Optional[Callable[..., Any]] = None, **dispatcher_kwargs: Any):
        self.is_async = is_async
        self.log = Log()
        self.max_batch_size = max_batch_size
        coro = is_async if all_coroutines is None else all_coroutines
        cls = pjrpc.server.AsyncDispatcher if is_async else pjrpc.server.Dispatcher
        if make_dispatcher is not None:
            # the dispatcher is obtained through another entry point of the library (an integration's add_endpoint, ...)
            self.dispatcher = make_dispatcher(**dispatcher_kwargs)
        else:
            self.dispatcher = cls(max_batch_size=max_batch_size, **dispatcher_kwargs)
        self.dispatcher.add_methods(build_registry(self.log, coro))

    def dispatch(self, text: str, context: Any = None):
        """Returns ('ret', value) or ('exc', exception)."""
        try:
            if self.is_async:
                own = getattr(self, 'loop', None)      # a world may be driven under event loops of its own (see C02's loops cases)
                if own is not None:
                    return 'ret', own.run_until_complete(self.dispatcher.dispatch(text, context=context))
                return 'ret', run(self.dispatcher.dispatch(text, context=context))
            return 'ret', self.dispatcher.dispatch(text, context=context)
        except BaseException as e:
            if isinstance(e, (KeyboardInterrupt, SystemExit)):
                raise
            return 'exc', e


_LOOP: Optional[asyncio.AbstractEventLoop] = None


def loop() -> asyncio.AbstractEventLoop:
    global _LOOP
    if _LOOP is None or _LOOP.is_closed():
        _LOOP = asyncio.new_event_loop()
    return _LOOP


def run(coro):
    return loop().run_until_complete(coro)
