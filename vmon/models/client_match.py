"""Reference model of how a JSON-RPC client must match responses to requests (C08). No pjrpc code."""
from __future__ import annotations

from typing import Any, Dict, List, Optional, Tuple

from ..strictjson import typed_eq
from . import wire


def _valid_response_obj(r: Any) -> bool:
    if wire.response_object_problem(r) is not None:
        return False
    # pjrpc admits integer ids only (C06); fractional ids make the element "not a valid response" for this client
    return not isinstance(r.get('id'), float)


def is_batch_level_error(doc: Any) -> bool:
    return (isinstance(doc, dict) and doc.get('jsonrpc') == '2.0' and doc.get('id') is None and 'error' in doc
            and 'result' not in doc and wire.error_object_problem(doc['error']) is None)


def single(request_id: Any, doc: Any, strict: bool) -> Tuple[str, Any]:
    """('deser',) / ('identity',) / ('accept', response object)"""
    if not isinstance(doc, dict) or not _valid_response_obj(doc):
        return ('deser', None)
    rid = doc['id']
    if strict and rid is not None and not typed_eq(rid, request_id):
        return ('identity', None)
    return ('accept', doc)


def batch(call_ids: List[Any], doc: Any, strict: bool) -> Tuple[str, Any]:
    """call_ids: ids of the calls in call order (notifications left out).
    ('deser',) / ('identity',) / ('batch-error', error obj) / ('open', reason) / ('accept', {id-key: response obj})"""
    if is_batch_level_error(doc):
        return ('batch-error', doc['error'])
    if not isinstance(doc, list):
        return ('deser', None)
    if any(not isinstance(r, dict) or not _valid_response_obj(r) for r in doc):
        return ('deser', None)
    ids = [r['id'] for r in doc]
    nonnull = [i for i in ids if i is not None]
    for a in range(len(nonnull)):
        for b in range(a + 1, len(nonnull)):
            if typed_eq(nonnull[a], nonnull[b]):
                return ('identity', 'duplicate')
    missing = [c for c in call_ids if not any(typed_eq(c, i) for i in nonnull)]
    extra = [i for i in nonnull if not any(typed_eq(c, i) for c in call_ids)]
    if len(nonnull) != len(ids):
        # the statement does not say whom a null-id element in an array answers; what it does say is that a server
        # error is raised to the caller: if every call is answered, the null-id elements must at least survive
        if strict and (missing or extra):
            # an element without id answers nobody in particular: it cannot stand in for the answer a call is waiting for
            return ('identity', 'missing' if missing else 'unexpected')
        if missing or extra:
            return ('open', 'null-id-element-with-missing-or-unasked-ids')
        nulls = [r for r in doc if r['id'] is None]
        return ('accept-null', {'nulls': nulls, 'any_error': any('error' in r for r in doc)})
    if strict and (missing or extra):
        return ('identity', 'missing' if missing else 'unexpected')
    by_call: Dict[int, Any] = {}
    for pos, c in enumerate(call_ids):
        for r in doc:
            if typed_eq(r['id'], c):
                by_call[pos] = r
    return ('accept', {'by_call': by_call, 'missing': bool(missing), 'extra': bool(extra)})
