"""Structural validity predicates for JSON-RPC 2.0 wire documents (C01, C05-C08). No pjrpc code."""
from __future__ import annotations

from typing import Any, List, Optional


def is_int(v: Any) -> bool:
    return isinstance(v, int) and not isinstance(v, bool)


def is_number(v: Any) -> bool:
    return (isinstance(v, (int, float))) and not isinstance(v, bool)


def error_object_problem(e: Any) -> Optional[str]:
    if not isinstance(e, dict):
        return 'error-not-object'
    if 'code' not in e or not is_int(e['code']):
        return 'error-code-not-integer'
    if 'message' not in e or not isinstance(e['message'], str):
        return 'error-message-not-string'
    extra = set(e) - {'code', 'message', 'data'}
    if extra:
        return 'error-extra-members'
    return None


def response_object_problem(r: Any) -> Optional[str]:
    """None if `r` is a well-formed JSON-RPC 2.0 response object (C01 wording)."""
    if not isinstance(r, dict):
        return 'response-not-object'
    if r.get('jsonrpc') != '2.0' or not isinstance(r.get('jsonrpc'), str):
        return 'jsonrpc-not-2.0'
    if 'id' not in r:
        return 'id-missing'
    i = r['id']
    if not (i is None or isinstance(i, str) or is_number(i)):
        return 'id-bad-type'
    has_r, has_e = 'result' in r, 'error' in r
    if has_r and has_e:
        return 'both-result-and-error'
    if not has_r and not has_e:
        return 'neither-result-nor-error'
    if has_e:
        p = error_object_problem(r['error'])
        if p:
            return p
    extra = set(r) - {'jsonrpc', 'id', 'result', 'error'}
    if extra:
        return 'response-extra-members'
    return None


def response_document_problem(doc: Any) -> Optional[str]:
    if isinstance(doc, list):
        if not doc:
            return 'empty-array'
        for k, r in enumerate(doc):
            p = response_object_problem(r)
            if p:
                return f'element:{p}'
        return None
    return response_object_problem(doc)


def codes_of(doc: Any) -> List[int]:
    objs = doc if isinstance(doc, list) else [doc]
    return [o['error']['code'] if 'error' in o else 0 for o in objs]


def request_object_problem(r: Any) -> Optional[str]:
    """None if `r` is a well-formed request object as a client must emit it (C07)."""
    if not isinstance(r, dict):
        return 'request-not-object'
    if r.get('jsonrpc') != '2.0' or not isinstance(r.get('jsonrpc'), str):
        return 'jsonrpc-not-2.0'
    if not isinstance(r.get('method'), str):
        return 'method-not-string'
    if 'id' in r and not (isinstance(r['id'], str) or is_int(r['id'])):
        # a client never needs to emit null / fractional ids
        return 'id-bad-type'
    if 'params' in r and not isinstance(r['params'], (list, dict)):
        return 'params-not-structured'
    extra = set(r) - {'jsonrpc', 'id', 'method', 'params'}
    if extra:
        return 'request-extra-members'
    return None
