"""Reference model of the retry loop and the backoff families (C09). No pjrpc code."""
from __future__ import annotations

from typing import Any, List, Optional, Tuple


def backoff_delays(spec: dict) -> List[float]:
    """spec: {'family': 'periodic'|'exponential'|'fibonacci', 'attempts': n, 'jitter': c, ...family parameters}
    k-th delay (k from 0): periodic interval; exponential base*factor**k; fibonacci multiplier*fib(k) with
    fib = 1, 2, 3, 5, 8, ... ; each plus jitter, then capped by max_value when one is configured."""
    if spec['family'] == 'custom-iterator':
        return [float(x) for x in spec['schedule']]
    n, j = spec['attempts'], spec.get('jitter', 0.0)
    out = []
    a, b = 1, 2
    for k in range(n):
        if spec['family'] == 'periodic':
            v = spec['interval'] + j
        elif spec['family'] == 'exponential':
            v = spec['base'] * spec['factor'] ** k + j
            if spec.get('max_value') is not None:
                v = min(spec['max_value'], v)
        else:
            v = a * spec['multiplier'] + j
            a, b = b, a + b
            if spec.get('max_value') is not None:
                v = min(spec['max_value'], v)
        out.append(v)
    return out


def raw_delays(spec: dict) -> List[float]:
    """The successive delays before jitter and cap."""
    if spec['family'] == 'custom-iterator':
        return [float(x) for x in spec['schedule']]
    out, a, b = [], 1, 2
    for k in range(spec['attempts']):
        if spec['family'] == 'periodic':
            out.append(spec['interval'])
        elif spec['family'] == 'exponential':
            out.append(spec['base'] * spec['factor'] ** k)
        else:
            out.append(a * spec['multiplier'])
            a, b = b, a + b
    return out


def pauses_explained_by_draws(pauses: List[float], raws: List[float], cap: Optional[float], draws: List[float],
                              used: set, tol: float = 1e-9) -> bool:
    """For a jitter function whose every draw is a fresh recognisable value: is every pause `cap(raw delay + j)` for a draw
    j that no other pause (of this or an earlier request: `used`, updated in place) has used? The order and the number
    of the draws are left free; only re-using one draw for several pauses, or a value that was never drawn, is refused."""
    def fits(k, i):
        v = raws[k] + draws[i]
        if cap is not None:
            v = min(cap, v)
        return abs(v - pauses[k]) <= tol
    if len(pauses) > len(raws):
        return False
    cands = {k: [i for i in range(len(draws)) if i not in used and fits(k, i)] for k in range(len(pauses))}
    for k in sorted(cands, key=lambda k: len(cands[k])):      # candidate sets are singletons or nested: smallest first
        free = [i for i in cands[k] if i not in used]
        if not free:
            return False
        used.add(free[0])
    return True


def run(delays: Optional[List[float]], codes, exc_types: Tuple[type, ...], script: List[dict], is_notification: bool):
    """Returns (events, index of the final attempt). events: 'send' and ('sleep', seconds).
    `delays` None = no strategy in effect."""
    events: List[Any] = []
    used = 0
    for idx, outcome in enumerate(script):
        events.append('send')
        if delays is None or is_notification:
            return events, idx
        if outcome['kind'] == 'error-response':
            retriable = bool(codes) and outcome['code'] in codes
        elif outcome['kind'] == 'exception':
            retriable = bool(exc_types) and isinstance(outcome['exc'], exc_types)
        else:
            retriable = False
        if retriable and used < len(delays):
            events.append(('sleep', delays[used]))
            used += 1
            continue
        return events, idx
    raise AssertionError('outcome script too short for the model')
