"""Executable reference model of a JSON-RPC 2.0 server over the probe world (C01-C03, C11-C13, C18).

Pure Python, shares no code with pjrpc. `expected(...)` maps a decoded request document (or NOT_JSON) to
  * the response document the property demands, with wildcards where the statement leaves freedom, and
  * the multiset of method executions.
"""
from __future__ import annotations

import inspect
from typing import Any, Dict, List, Optional, Tuple

from ..strictjson import typed_eq

NOT_JSON = object()
ANY = object()           # any JSON value (or absent)
ANY_STR = object()
ABSENT = '__absent__'

TYPED_CODE = 70001
TYPED_MESSAGE = 'probe typed error'


# --- twins: the signature each probe method has, and what it does ------------------------------------

def _sig(fn):
    return inspect.signature(fn)


def _t_ok(a, b=0): return ('result', ['ok', a, b], ('ok', (a, b), {}))
def _t_noargs(): return ('result', 'pong', ('noargs', (), {}))
def _t_echo(v): return ('result', v, ('echo', (v,), {}))
def _t_kwonly(a, *, k=1): return ('result', [a, k], ('kwonly', (a,), {'k': k}))
def _t_rpcerr(code, message, data=ABSENT):
    if not (isinstance(code, int) and not isinstance(code, bool) and isinstance(message, str)):
        return ('exception', ('ValueError', 'probe misuse'), ('rpcerr', (code, message, data), {}))
    return ('error', (code, message, data), ('rpcerr', (code, message, data), {}))
def _t_typed(data=ABSENT): return ('error', (TYPED_CODE, TYPED_MESSAGE, data), ('typed', (data,), {}))
def _t_typedctor(uid=0): return ('error', (70002, 'probe ctor error', {'uid': uid, 'hint': 'h'}), ('typedctor', (uid,), {}))


LIB_ERRORS = {'ParseError': (-32700, 'Parse error'), 'InvalidRequestError': (-32600, 'Invalid Request'),
              'MethodNotFoundError': (-32601, 'Method not found'), 'InvalidParamsError': (-32602, 'Invalid params'),
              'InternalError': (-32603, 'Internal error'), 'ServerError': (-32000, 'Server error')}


def _t_raiselib(name, data=ABSENT):
    if not isinstance(name, str) or name not in LIB_ERRORS:
        return ('exception', ('KeyError', 'nolib'), ('raiselib', (name, data), {}))
    code, message = LIB_ERRORS[name]
    return ('error', (code, message, data), ('raiselib', (name, data), {}))


def _t_boom(kind, marker='m'): return ('exception', (kind, marker), ('boom', (kind, marker), {}))
def _t_ctxm(a=0): return ('ctx-result', a, ('ctxm', (a,), {}))
def _t_fac1(x): return ('result', ['fac1', x], ('fac1', (x,), {}))
def _t_fac2(x, y=5, *, z=None): return ('result', ['fac2', x, y, z], ('fac2', (x, y), {'z': z}))
def _t_slow(v, ticks=0): return ('result', ['slow', v], ('slow', (v, ticks), {}))
def _t_whoami(): return ('ctx-only', None, ('whoami', (), {}))
def _t_ctxp(a=0): return ('ctx-result', a, ('ctxp', (a,), {}))
def _t_slowfail(v, ticks=0, how='rpc'):
    if how == 'rpc':
        return ('error', (TYPED_CODE, TYPED_MESSAGE, v), ('slowfail', (v, ticks, how), {}))
    return ('exception', ('RuntimeError', v), ('slowfail', (v, ticks, how), {}))


def _is_ipv4(s):
    parts = s.split('.') if isinstance(s, str) else []
    return len(parts) == 4 and all(p.isdigit() and 0 <= int(p) <= 255 and (p == '0' or not p.startswith('0')) for p in parts)


def _t_js_checked(ip):
    if not _is_ipv4(ip):
        return ('invalid', None, None)
    return ('result', ['js_checked', ip], ('js_checked', (ip,), {}))


def _t_js_loose(s):
    if not isinstance(s, str):
        return ('invalid', None, None)
    return ('result', ['js_loose', s], ('js_loose', (s,), {}))       # no format checker configured: any string conforms


def _t_pd_pos(n):
    if not (isinstance(n, int) and not isinstance(n, bool) and n > 0):
        return ('invalid', None, None)
    return ('result', ['pd_pos', n], ('pd_pos', (n,), {}))


def _t_under(a=0): return ('result', ['_under', a], ('_under', (a,), {}))
def _t_dotted(a=0): return ('result', ['_dotted', a], ('ns._dotted', (a,), {}))
def _t_cowrapped(a, b=0): return ('result', ['cowrapped', a, b], ('cowrapped', (a, b), {}))


def _t_js_draft4(n):
    if not (isinstance(n, int) and not isinstance(n, bool)):
        return ('invalid', None, None)
    return ('result', ['js_draft4', n], ('js_draft4', (n,), {}))


def _t_window(items, start=0, stop=3, step=1): return ('result', ['window', items, start, stop, step], ('window', (items, start, stop, step), {}))


def _t_mutate(lst, d=None):
    out_l = lst + ['seen'] if isinstance(lst, list) else lst
    out_d = dict(d, **({} if 'seen' in d else {'seen': True})) if isinstance(d, dict) else d
    return ('result', ['mutate', out_l, out_d], ('mutate', (lst, d), {}))


def _t_broken(a=0): return ('internal', None, None)
def _t_odd_defaults(a, opt=None, when=None, amount=None, kind=None): return ('result', ['odd_defaults', a, opt is None], ('odd_defaults', (a,), {}))
def _t_tc_only(a, b=0): return ('result', ['tc_only', a, b], ('tc_only', (a, b), {}))


def _t_pd_strip(s):
    if not isinstance(s, str):
        return ('internal-or-invalid', None, None)      # the custom validator code itself fails: -32602 or -32603, not executed
    return ('result', ['pd_strip', s.strip()], ('pd_strip', (s.strip(),), {}))


def _t_pd_even(n):
    if not (isinstance(n, int) and not isinstance(n, bool)) or n % 2:
        return ('invalid', None, None)
    return ('result', ['pd_even', n], ('pd_even', (n,), {}))


def _t_pd_span(d):
    import re
    if isinstance(d, (int, float)) and not isinstance(d, bool):
        sec = float(d)
    elif isinstance(d, str) and re.fullmatch(r'-?P\d+D', d):
        sec = float(d.replace('-', '').strip('PD')) * 86400.0 * (-1 if d.startswith('-') else 1)
    else:
        return ('invalid', None, None)
    if not sec > 0:
        return ('invalid', None, None)
    return ('result', ['pd_span', sec], ('pd_span', (sec,), {}))


def _t_pd_asis(a, b=0):
    # (only integers are ever sent as conforming values: what pydantic's lax mode would convert is not probed)
    if not all(isinstance(v, int) and not isinstance(v, bool) for v in (a, b)):
        return ('invalid', None, None)
    return ('result', ['pd_asis', a, b], ('pd_asis', (a, b), {}))


def _t_rpc_ping(a=0): return ('result', ['rpc.ping', a], ('rpc.ping', (a,), {}))


def _t_js_ref(a, b=None):
    if not (isinstance(a, int) and not isinstance(a, bool) and a >= 0):
        return ('invalid', None, None)
    if b is not None and not (isinstance(b, dict) and isinstance(b.get('t', ''), str)):
        return ('invalid', None, None)
    return ('result', ['js_ref', a, b], ('js_ref', (a, b), {}))


def _t_js_list(items):
    if not (isinstance(items, list) and all(isinstance(x, str) for x in items)):
        return ('invalid', None, None)
    return ('result', ['js_list', items], ('js_list', (items,), {}))


def _t_ctxm_plain(ctx, a=0): return ('result', [None, a], ('ctxm', (a,), {}))


def _t_cm(a, b=0): return ('result', ['cm', 'ProbeView', a, b], ('view.cm', (a, b), {}))
def _t_sm(a, b=0): return ('result', ['sm', a, b], ('view.sm', (a, b), {}))
def _t_note(message, context=None): return ('result', ['note', message, context], ('view.note', (message, context), {}))
def _t_bump(by=1): return ('result', ['bump', by if isinstance(by, int) and not isinstance(by, bool) else 1], ('cnt.bump', (by,), {}))


KEYED_JSON = {
    'int': {'1': 'a', '2': 'b'}, 'mixed': {'200': 7, 'total': 8, '404': 1}, 'float': {'1.5': 'x', 'y': 2},
    'consts': {'true': 1, 'null': 2, 'z': 3}, 'nested': {'k': [{'7': {'8': 'deep', 'x': None}}]},
    'neg-and-str': {'-1': 0, '-2': 0, 'a': {'b': 1, '3': 2}},
}


def _t_keyed(kind, how='result'):
    v = KEYED_JSON.get(kind, {}) if isinstance(kind, str) else {}
    if how == 'error':
        return ('error', (TYPED_CODE, TYPED_MESSAGE, v), ('keyed', (kind, how), {}))
    return ('result', ['keyed', v], ('keyed', (kind, how), {}))


def _t_stale(data=ABSENT, peek=True): return ('error', (70003, 'probe long-lived error', data), ('stale', (data, peek), {}))


def _plain_int(v): return isinstance(v, int) and not isinstance(v, bool)


def _t_users_create(item):
    # (only clearly conforming / clearly non-conforming values are sent: what pydantic's lax mode would convert is not probed)
    if not (isinstance(item, dict) and isinstance(item.get('name'), str)):
        return ('invalid', None, None)
    return ('result', ['user', item['name']], ('users.create', ({'name': item['name']},), {}))


def _t_orders_create(item):
    if not (isinstance(item, dict) and _plain_int(item.get('sku')) and _plain_int(item.get('qty', 1))):
        return ('invalid', None, None)
    d = {'sku': item['sku'], 'qty': item.get('qty', 1)}
    return ('result', ['order', d['sku'], d['qty']], ('orders.create', (d,), {}))


def _t_pd_d_int(x=1): return ('result', ['pd_d_int', x], ('pd_d_int', (x,), {}))
def _t_pd_d_bool(x=True): return ('result', ['pd_d_bool', x], ('pd_d_bool', (x,), {}))
def _t_pd_d_float(x=1.0): return ('result', ['pd_d_float', x], ('pd_d_float', (x,), {}))


def _t_fielderr(entries=()):
    e = list(entries) if isinstance(entries, (list, tuple)) else [entries]
    return ('error', (70004, 'probe field errors', {'entries': e}), ('fielderr', (entries,), {}))


def _t_byid(id, extra=0): return ('result', ['byid', id, extra], ('byid', (id, extra), {}))
def _t_wrapped(a, b=0): return ('result', ['wrapped', a, b], ('wrapped', (a, b), {}))
def _t_vm(a, b=0): return ('result', ['vm', a, b], ('view.vm', (a, b), {}))


TWINS = {
    'ok': _t_ok, 'noargs': _t_noargs, 'echo': _t_echo, 'kwonly': _t_kwonly, 'rpcerr': _t_rpcerr,
    'typed': _t_typed, 'js_checked': _t_js_checked, 'js_loose': _t_js_loose, 'slowfail': _t_slowfail, 'byid': _t_byid, 'wrapped': _t_wrapped, 'whoami': _t_whoami, 'ctxp': _t_ctxp, 'slow': _t_slow, 'fac1': _t_fac1, 'fac2': _t_fac2, 'boom': _t_boom, 'ctxm': _t_ctxm, 'view.vm': _t_vm,
    'typedctor': _t_typedctor, 'raiselib': _t_raiselib, 'pd_pos': _t_pd_pos, '_under': _t_under, 'ns._dotted': _t_dotted,
    'cowrapped': _t_cowrapped, 'js_draft4': _t_js_draft4, 'window': _t_window, 'mutate': _t_mutate, 'broken.vm': _t_broken,
    'odd_defaults': _t_odd_defaults, 'tc_only': _t_tc_only, 'pd_strip': _t_pd_strip, 'view.cm': _t_cm, 'view.sm': _t_sm, 'view.note': _t_note, 'cnt.bump': _t_bump,
    'pd_even': _t_pd_even, 'pd_span': _t_pd_span, 'pd_asis': _t_pd_asis, 'js_ref': _t_js_ref, 'rpc.ping': _t_rpc_ping, 'js_list': _t_js_list, 'ctxm_plain': _t_ctxm_plain,
    'keyed': _t_keyed, 'stale': _t_stale, 'users.create': _t_users_create, 'orders.create': _t_orders_create,
    'fielderr': _t_fielderr, 'pd_d_int': _t_pd_d_int, 'pd_d_bool': _t_pd_d_bool, 'pd_d_float': _t_pd_d_float,
}


def valid_id(v: Any) -> bool:
    """ids pjrpc admits: string, integer (bool is not a number), null."""
    return v is None or isinstance(v, str) or (isinstance(v, int) and not isinstance(v, bool))


def request_validity(obj: Any) -> Optional[str]:
    """None if `obj` is a valid JSON-RPC 2.0 request object, else the reason."""
    if not isinstance(obj, dict):
        return 'not-object'
    if 'jsonrpc' not in obj or not isinstance(obj['jsonrpc'], str) or obj['jsonrpc'] != '2.0':
        return 'bad-version'
    if 'method' not in obj or not isinstance(obj['method'], str):
        return 'bad-method'
    if 'id' in obj and not valid_id(obj['id']):
        return 'bad-id'
    if 'params' in obj and not isinstance(obj['params'], (list, dict)):
        return 'bad-params'
    return None


def err(id_: Any, code: int, message: Any = ANY_STR, data: Any = ANY) -> Dict[str, Any]:
    e: Dict[str, Any] = {'code': code, 'message': message}
    if data is not ABSENT_MEMBER:
        e['data'] = data
    return {'jsonrpc': '2.0', 'id': id_, 'error': e}


ABSENT_MEMBER = object()   # the member must not be present
ANY_CODE_32602_OR_32603 = object()


class Expected:
    def __init__(self) -> None:
        self.response: Any = None          # None = nothing sent; dict; list
        self.executions: List[Tuple[str, tuple, dict]] = []
        self.kind = ''                     # coarse classification of the case
        self.elem_kinds: List[str] = []
        self.null_id_calls = 0             # elements with an explicit "id": null (answer optional)
        self.ctx_elements: List[int] = []  # positions whose result embeds the context token


def element(req: Dict[str, Any], exp: Expected, ctx_token: Any) -> Tuple[Any, str]:
    """Expected response for one *valid* request object (None for a notification) + element kind."""
    is_notification = req.get('id') is None
    id_ = req.get('id')
    params = req.get('params', [])
    name = req['method']
    twin = TWINS.get(name)
    if twin is None:
        kind = 'unknown-method'
        resp = err(id_, -32601)
    else:
        try:
            if isinstance(params, list):
                bound = _sig(twin).bind(*params)
            else:
                bound = _sig(twin).bind(**params)
        except TypeError:
            bound = None
        if bound is None:
            kind = 'unbound'
            resp = err(id_, -32602)
        else:
            outcome, value, call = twin(*bound.args, **bound.kwargs)
            if outcome not in ('invalid', 'internal', 'internal-or-invalid'):
                exp.executions.append(call)
            if outcome == 'invalid':
                kind = 'unbound'
                resp = err(id_, -32602)
            elif outcome == 'internal-or-invalid':
                kind = 'internal'
                resp = {'jsonrpc': '2.0', 'id': id_, 'error': {'code': ANY_CODE_32602_OR_32603, 'message': ANY_STR, 'data': ANY}}
            elif outcome == 'internal':
                # handling failed outside the method body (the view could not be built): -32603, nothing executed
                kind = 'internal'
                resp = err(id_, -32603, ANY_STR, ABSENT_MEMBER)
            elif outcome == 'result':
                kind = 'ok'
                resp = {'jsonrpc': '2.0', 'id': id_, 'result': value}
            elif outcome == 'ctx-result':
                kind = 'ok'
                resp = {'jsonrpc': '2.0', 'id': id_, 'result': [ctx_token, value]}
            elif outcome == 'ctx-only':
                kind = 'ok'
                resp = {'jsonrpc': '2.0', 'id': id_, 'result': [ctx_token]}
            elif outcome == 'error':
                code, message, data = value
                kind = 'rpc-error'
                resp = err(id_, code, message, ABSENT_MEMBER if data == ABSENT else data)
            else:
                kind = 'exception'
                resp = err(id_, -32000, ANY_STR, ABSENT_MEMBER)
    if is_notification:
        if 'id' in req:
            exp.null_id_calls += 1
        return None, ('notify-' + kind)
    return resp, ('call-' + kind)


def expected(doc: Any, max_batch: Optional[int] = None, ctx_token: Any = None) -> Expected:
    exp = Expected()
    if doc is NOT_JSON:
        exp.kind = 'not-json'
        exp.response = err(None, -32700)
        return exp
    if isinstance(doc, list):
        if not doc:
            exp.kind = 'batch-empty'
            exp.response = err(None, -32600)
            return exp
        reasons = [request_validity(e) for e in doc]
        if any(reasons):
            exp.kind = 'batch-invalid-element'
            exp.response = err(None, -32600)
            return exp
        ids = [e['id'] for e in doc if e.get('id') is not None]
        seen: List[Any] = []
        for i in ids:
            if any(typed_eq(i, s) for s in seen):
                exp.kind = 'batch-duplicate-ids'
                exp.response = err(None, -32600)
                return exp
            seen.append(i)
        if max_batch is not None and max_batch > 0 and len(doc) > max_batch:
            exp.kind = 'batch-too-large'
            exp.response = err(None, -32600)
            return exp
        out = []
        for e in doc:
            r, k = element(e, exp, ctx_token)
            exp.elem_kinds.append(k)
            if r is not None:
                out.append(r)
        exp.kind = 'batch'
        exp.response = out if out else None
        return exp
    reason = request_validity(doc)
    if reason:
        exp.kind = 'invalid-request:' + reason
        exp.response = err(None, -32600)
        return exp
    r, k = element(doc, exp, ctx_token)
    exp.kind = 'single:' + k
    exp.elem_kinds.append(k)
    exp.response = r
    return exp


# --- comparison with wildcards ------------------------------------------------------------------------

def match(expected_doc: Any, observed: Any) -> Optional[str]:
    """None if `observed` (strict-decoded) satisfies `expected_doc`; else a short reason."""
    if expected_doc is ANY:
        return None
    if expected_doc is ANY_STR:
        return None if isinstance(observed, str) else 'not-a-string'
    if expected_doc is ANY_CODE_32602_OR_32603:
        return None if observed in (-32602, -32603) and not isinstance(observed, bool) else 'value-differs'
    if isinstance(expected_doc, dict):
        if not isinstance(observed, dict):
            return 'not-an-object'
        for k, v in expected_doc.items():
            if v is ANY and k not in observed:
                continue
            if k not in observed:
                return f'member-missing:{k}'
            r = match(v, observed[k])
            if r:
                return f'{k}.{r}' if not r.startswith('member') else f'{k}/{r}'
        for k in observed:
            if k not in expected_doc:
                return f'member-unexpected:{k}'
        return None
    if isinstance(expected_doc, list):
        if not isinstance(observed, list):
            return 'not-an-array'
        if len(expected_doc) != len(observed):
            return f'length:{len(observed)}!={len(expected_doc)}'
        for i, (e, o) in enumerate(zip(expected_doc, observed)):
            r = match(e, o)
            if r:
                return f'[{i}].{r}'
        return None
    return None if typed_eq(normalise(expected_doc), observed) else 'value-differs'


def normalise(v: Any) -> Any:
    """What a JSON round trip makes of a Python value built by the model (tuples -> lists)."""
    if isinstance(v, tuple):
        return [normalise(x) for x in v]
    if isinstance(v, list):
        return [normalise(x) for x in v]
    if isinstance(v, dict):
        return {k: normalise(x) for k, x in v.items()}
    return v


def render(expected_doc: Any) -> Any:
    """JSON-able rendering of an expectation (wildcards shown as strings)."""
    if expected_doc is ANY:
        return '<any>'
    if expected_doc is ANY_STR:
        return '<any string>'
    if expected_doc is ABSENT_MEMBER:
        return '<absent>'
    if expected_doc is ANY_CODE_32602_OR_32603:
        return '<-32602 or -32603>'
    if isinstance(expected_doc, dict):
        return {k: render(v) for k, v in expected_doc.items()}
    if isinstance(expected_doc, list):
        return [render(v) for v in expected_doc]
    return expected_doc
