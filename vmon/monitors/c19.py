"""C19 - tracers see every send attempt begin and complete exactly once."""
from __future__ import annotations

import asyncio
import itertools
import json
import time as _time
from types import SimpleNamespace

import pjrpc
from pjrpc.client import retry as retry_mod
from pjrpc.client.tracer import Tracer
from pjrpc.common import v20
from pjrpc.common.exceptions import DeserializationError, IdentityError

from .. import clientside, world
from ..models import retry as retry_model

PID = 'C19'
LEVEL = 'fault_enumeration'
RULE = ('one case = one request (single, batch or notification) sent by the real sync / async client configured with 0..3 '
        'recording tracers and a retry strategy of 0..3 attempts through a transport scripted with one outcome per attempt '
        'over {response ok, response with (listed / unlisted) error, listed / unlisted transport exception, undecodable '
        'body, invalid response document, identity mismatch, BaseException subclass, CancelledError raised by the '
        'transport, real task cancellation while the transport is suspended (async)}; all outcome sequences the strategy '
        'permits are enumerated for <= 2 attempts, 3 sampled. The tracer event log is checked online by an automaton: '
        'per attempt, begin from every tracer in configuration order, then exactly one completion from every tracer in '
        'configuration order (end with the returned response / None, error with the very exception object), one trace '
        'context per attempt, the caller-supplied context on every attempt, and the exception reaching the caller being '
        'the last attempt\'s. The tracers come in ten flavours - among them tracers that are falsy when the client is constructed '
        '(a Tracer that is also an empty dict / list, __len__ -> 0, __bool__ -> False) - and are handed over in nine re-iterable '
        'containers (list, tuple, deque, dict views, UserList, sequence-protocol-only, Iterable-only, tuple subclass) or as one of four '
        'one-shot iterables (generator expression, iter(list), map object, filter object). '
        'Batch-reuse cases: ONE batch object (client.batch wrapper, or a caller-built BatchRequest) makes 2..3 round trips and '
        'grows in between through add / __call__ / proxy / notify / subscription resp. constructor / append / extend, starting '
        'from notifications only or from calls; each round trip is judged like any attempt, `end` carrying nothing exactly when '
        'the batch as sent holds notifications only. Distinct = distinct (configuration, consumed outcome sequence).')
ASSUMPTIONS = [
    'probe tracers do not raise, except in the raising-tracer cases: there the LAST tracer raises in a completion handler and only '
    '"one begin, exactly one completion per tracer" is judged',
    'with the default (library-created) trace context only "begin and completion of one attempt share the context object" is judged',
    'attempts are delimited by transport invocations: every outcome in the script reaches or passes the transport',
    'tracers are handed over in re-iterable containers and as one-shot iterables (generator, iter(), map, filter objects) alike',
    'a configured tracer is configured whatever bool(tracer) / len(tracer) say',
    'a batch is a notification exactly when, at the moment of the send, none of its elements has an id; elements are added through '
    'the public adding entry points (BatchRequest.extend also with a one-shot iterator)',
]
SHARDS = {'quick': 4, 'thorough': 16}
TIMEOUT = {'quick': 900, 'thorough': 3600}
ANCHORS = [
    ('pjrpc/client/client.py', 'AbstractClient.traced'), ('pjrpc/client/client.py', 'AbstractAsyncClient.traced'),
    ('pjrpc/client/client.py', 'AbstractClient.retried'), ('pjrpc/client/client.py', 'AbstractAsyncClient.retried'),
    ('pjrpc/client/client.py', 'AbstractClient._send'), ('pjrpc/client/client.py', 'AbstractAsyncClient._send'),
]
OUTCOMES = ['ok', 'listed', 'unlisted', 'exc-listed', 'exc-unlisted', 'undecodable', 'invalid-doc', 'identity', 'base-exc',
            'cancelled-raised', 'cancel-task', 'exc-stopiteration', 'exc-group', 'exc-kbdint', 'exc-sysexit']
# exc-group: an ExceptionGroup holding one exception of a listed type (what a task-group based transport raises): the group is
# what the attempt ended in, it is not of a listed type. exc-kbdint / exc-sysexit: Ctrl-C / sys.exit() from a signal
# handler while the transport blocks - BaseExceptions like any other as far as "every begin gets its completion" goes.
RAISING = ('exc-listed', 'exc-unlisted', 'base-exc', 'cancelled-raised', 'exc-stopiteration', 'exc-group', 'exc-kbdint', 'exc-sysexit')


def _raise_for(o, k):
    if o == 'exc-group':
        return ExceptionGroup(f'attempt{k}', [ConnectionError('inner')])
    return {'exc-listed': ConnectionError, 'exc-unlisted': KeyError, 'base-exc': Abort, 'cancelled-raised': asyncio.CancelledError,
            'exc-stopiteration': StopIteration, 'exc-kbdint': KeyboardInterrupt, 'exc-sysexit': SystemExit}[o](f'attempt{k}')


def outcome_of_all(fn, is_async):
    """like clientside.outcome_of, but the scripted KeyboardInterrupt / SystemExit are outcomes too"""
    try:
        v = fn()
        if is_async:
            v = world.run(v)
        return 'ret', v
    except BaseException as e:
        return 'exc', e

FLOORS = {'*': {**{f'last:{o}': 5 for o in OUTCOMES}, 'real-cancellation': 5, 'multi-attempt-3-tracers': 20,
                'client:sync': 200, 'client:async': 200, 'tracers:0': 20, 'tracers:1': 50, 'tracers:2': 50, 'tracers:3': 50,
                'ctx:supplied': 100, 'ctx:default': 100, 'kind:single': 100, 'kind:batch': 50, 'kind:notification': 30,
                'attempts>=2': 100, 'concurrent-requests': 100, 'tracer-style:class': 100, 'tracer-style:instance': 100,
                'tracer-style:mixed': 100, 'tracer-style:equal': 100, 'raising-tracer': 50, 'tracers-given-as:deque': 50, 'tracers-given-as:dict-values': 50, 'notification-answered-with-a-body:strict': 20, 'notification-answered-with-a-body:non-strict': 20, 'called-while-handling-another-exception': 100,
                # round 11: tracers that are falsy when the client is constructed; tracers handed over in every re-iterable container
                **{f'falsy-tracer:{s}': 300 for s in ('falsy-dict', 'falsy-list', 'falsy-len', 'falsy-len-zero', 'falsy-bool')},
                'tracer-style:container-non-empty': 300,
                **{f'tracers-given-as:{c}': 300 for c in ('list', 'tuple', 'user-list', 'sequence-protocol-only', 'iterable-only',
                                                           'tuple-subclass', 'dict-keyed-by-id', 'one-shot-generator',
                                                           'one-shot-iter', 'one-shot-map', 'one-shot-filter')},
                # round 11: one batch object, several round trips, grown in between through every adding entry point
                'batch-reuse': 500, 'batch-reuse:holder:wrapper': 200, 'batch-reuse:holder:request': 200,
                'batch-reuse:add-via:add': 100, 'batch-reuse:add-via:dunder': 100, 'batch-reuse:add-via:proxy': 100,
                'batch-reuse:add-via:notify': 200, 'batch-reuse:add-via:getitem': 50, 'batch-reuse:add-via:constructor': 100,
                'batch-reuse:add-via:append': 200, 'batch-reuse:add-via:extend': 200, 'batch-reuse:add-via:extend-tuple': 100, 'batch-reuse:add-via:extend-iterator': 100,
                'batch-reuse:calls-added-after-a-notifications-only-round-trip': 300, 'batch-reuse:notifications-added-to-calls': 300,
                'batch-reuse:resent-unchanged': 100, 'batch-reuse:retry': 200, 'batch-reuse:state-read-between-rounds': 200,
                'batch-reuse:via:call': 200, 'batch-reuse:via:proxy-call': 100, 'batch-reuse:via:proxy-dunder': 100,
                'batch-reuse:via:send': 500, 'kind:batch-notifications-only': 300}}


class Abort(BaseException):
    """KeyboardInterrupt-like: not an Exception"""


class Rec(Tracer):
    def __init__(self, idx, log):
        self.idx = idx
        self.log = log

    def on_request_begin(self, trace_context, request):
        self.log.append((self.idx, 'begin', trace_context, request, None))

    def on_request_end(self, trace_context, request, response):
        self.log.append((self.idx, 'end', trace_context, request, response))

    def on_error(self, trace_context, request, error):
        self.log.append((self.idx, 'error', trace_context, request, error))


class RecInstance(Tracer):
    """a tracer whose handlers live on the INSTANCE (assigned from callbacks), not in the class body"""

    def __init__(self, idx, log, mixed=False):
        self.idx = idx
        self.log = log
        if not mixed:
            self.on_request_begin = lambda trace_context, request: log.append((idx, 'begin', trace_context, request, None))
        self.on_request_end = lambda trace_context, request, response: log.append((idx, 'end', trace_context, request, response))
        self.on_error = lambda trace_context, request, error: log.append((idx, 'error', trace_context, request, error))


class RecMixed(RecInstance):
    """begin in the class body, the completion handlers on the instance"""

    def __init__(self, idx, log):
        super().__init__(idx, log, mixed=True)

    def on_request_begin(self, trace_context, request):
        self.log.append((self.idx, 'begin', trace_context, request, None))


class RecEqual(Rec):
    """tracers with value semantics (think of a frozen dataclass holding settings): distinct objects that compare equal"""

    def __eq__(self, other):
        return isinstance(other, RecEqual)

    def __hash__(self):
        return 7


class RecFalsyDict(Rec, dict):
    """a gauge-style tracer that IS the dict of the attempts in flight: empty - and therefore falsy - whenever nothing is in
    flight, in particular when the client is constructed"""

    def __init__(self, idx, log):
        dict.__init__(self)
        Rec.__init__(self, idx, log)

    def on_request_begin(self, trace_context, request):
        Rec.on_request_begin(self, trace_context, request)
        self[id(trace_context)] = request

    def on_request_end(self, trace_context, request, response):
        Rec.on_request_end(self, trace_context, request, response)
        self.pop(id(trace_context), None)

    def on_error(self, trace_context, request, error):
        Rec.on_error(self, trace_context, request, error)
        self.pop(id(trace_context), None)


class RecFalsyList(Rec, list):
    """a collector that IS the list of the completed attempts: falsy until the first completion, truthy afterwards"""

    def __init__(self, idx, log, initial=()):
        list.__init__(self, initial)
        Rec.__init__(self, idx, log)

    def on_request_end(self, trace_context, request, response):
        Rec.on_request_end(self, trace_context, request, response)
        self.append(('end', request))

    def on_error(self, trace_context, request, error):
        Rec.on_error(self, trace_context, request, error)
        self.append(('error', request))


class RecFalsyLen(Rec):
    """len(tracer) = number of attempts it has seen begin (0 when the client is constructed)"""

    def __init__(self, idx, log):
        super().__init__(idx, log)
        self.seen = 0

    def __len__(self):
        return self.seen

    def on_request_begin(self, trace_context, request):
        super().on_request_begin(trace_context, request)
        self.seen += 1


class RecFalsyLenZero(Rec):
    """a tracer whose __len__ is 0 for good (a sized facade over a store that lives elsewhere)"""

    def __len__(self):
        return 0


class RecFalsyBool(Rec):
    """a tracer whose __bool__ says 'disabled' - that is the tracer's own business, it is configured all the same"""

    def __bool__(self):
        return False


TRACER_STYLES = {'class': Rec, 'instance': RecInstance, 'mixed': RecMixed, 'equal': RecEqual,
                 'falsy-dict': RecFalsyDict, 'falsy-list': RecFalsyList, 'falsy-len': RecFalsyLen, 'falsy-len-zero': RecFalsyLenZero,
                 'falsy-bool': RecFalsyBool,
                 'container-non-empty': lambda idx, log: RecFalsyList(idx, log, initial=[('configured', idx)])}
STYLE_ROTATION = ('class', 'instance', 'class', 'mixed', 'equal', 'falsy-dict', 'falsy-len', 'class', 'falsy-list', 'falsy-bool',
                  'container-non-empty', 'falsy-len-zero')


def make_tracer(style, idx, log):
    return TRACER_STYLES[style](idx, log)


class SeqOnly:
    """iterable through the old sequence protocol only (__getitem__ + __len__)"""

    def __init__(self, items):
        self._items = list(items)

    def __getitem__(self, i):
        return self._items[i]

    def __len__(self):
        return len(self._items)


class IterOnly:
    """a re-iterable that is nothing but an Iterable: every iter() starts over; no length, no indexing"""

    def __init__(self, items):
        self._items = list(items)

    def __iter__(self):
        return iter(list(self._items))


class TupleSub(tuple):
    pass


def _containers():
    import collections
    return {'list': list, 'tuple': tuple, 'deque': collections.deque,
            'dict-values': lambda ts: {i: t for i, t in enumerate(ts)}.values(),
            'dict-keyed-by-id': lambda ts: {id(t): t for t in ts}.values(),
            'user-list': collections.UserList, 'sequence-protocol-only': SeqOnly, 'iterable-only': IterOnly, 'tuple-subclass': TupleSub,
            # ONE-SHOT iterables: `tracers: Iterable[Tracer]` promises no more than one pass (the predicate of the filter object
            # accepts everything: a tracer's own truthiness is not asked)
            'one-shot-generator': lambda ts: (t for t in ts), 'one-shot-iter': lambda ts: iter(list(ts)),
            'one-shot-map': lambda ts: map(lambda t: t, ts), 'one-shot-filter': lambda ts: filter(lambda t: True, ts)}


CONTAINERS = ('list', 'tuple', 'deque', 'dict-values', 'one-shot-generator', 'user-list', 'sequence-protocol-only', 'one-shot-iter',
              'iterable-only', 'tuple-subclass', 'one-shot-map', 'dict-keyed-by-id', 'one-shot-filter')


def container_tag(container):
    return ':tracers-given-as-a-one-shot-iterable' if (container or '').startswith('one-shot') else ''


def configure(ctx, tracers, container):
    """hands the tracers over the way a caller might: in some re-iterable container, the library's own LoggingTracer riding along"""
    from pjrpc.client.tracer import LoggingTracer
    tracers = list(tracers) + [LoggingTracer()]
    ctx.hit('tracers-given-as:' + container)
    return _containers()[container](tracers)


class _TimeShim:
    def __getattr__(self, name):
        return getattr(_time, name)

    @staticmethod
    def sleep(d):
        pass


class _AsyncioShim:
    def __getattr__(self, name):
        return getattr(asyncio, name)

    @staticmethod
    async def sleep(d, *a, **k):
        pass


def setup(ctx):
    retry_mod.time = _TimeShim()
    retry_mod.asyncio = _AsyncioShim()


RETRY_EXC = (ConnectionError, ValueError, IdentityError)


class Script:
    def __init__(self, outcomes, log):
        self.outcomes = list(outcomes)
        self.idx = 0
        self.raised = {}
        self.log = log
        self.parked = None
        self.gate = None
        self.notif_body = None       # what the transport hands back for a notification (normally nothing)

    def outcome(self):
        o = self.outcomes[self.idx] if self.idx < len(self.outcomes) else 'ok'
        k = self.idx
        self.idx += 1
        return o, k

    def respond(self, o, k, text, is_notification):
        self.log.append(('transport', k))
        if o in RAISING:
            # (StopIteration: what a scripted transport that ran out of canned replies raises; sync clients only - inside a
            # coroutine the interpreter itself replaces it)
            exc = _raise_for(o, k)
            self.raised[k] = exc
            raise exc
        if is_notification:
            return self.notif_body
        if o == 'undecodable':
            return '{"jsonrpc": "2.0", "id": 1, "resu'
        req = json.loads(text)
        many = isinstance(req, list)
        if o == 'invalid-doc':
            return json.dumps([{'jsonrpc': '2.0', 'id': 1}] if many else {'jsonrpc': '2.0', 'id': req['id']})
        if o == 'identity':
            if many:
                return json.dumps([{'jsonrpc': '2.0', 'id': 'nobody-asked', 'result': 1}])
            return json.dumps({'jsonrpc': '2.0', 'id': 'someone-else', 'result': 1})
        if o == 'ok':
            if many:
                return json.dumps([{'jsonrpc': '2.0', 'id': r['id'], 'result': f'ok{k}'} for r in req if 'id' in r])
            return json.dumps({'jsonrpc': '2.0', 'id': req['id'], 'result': f'ok{k}'})
        code = 2001 if o == 'listed' else 999
        err = {'code': code, 'message': 'm', 'data': k}
        return json.dumps({'jsonrpc': '2.0', 'id': None if many else req['id'], 'error': err})


class Unrelated(Exception):
    """an exception the CALLER is handling while it uses the client"""


def run_case(ctx, n_tracers, attempts, script, kind, supplied_ctx, is_async, inside_except=False, tracer_style='class',
             strict=True, notif_body=None, container=None):
    ck = 'async' if is_async else 'sync'
    log = []
    tracers = [make_tracer(tracer_style if (i % 2 == 0 or tracer_style == 'equal') else 'class', i, log) for i in range(n_tracers)]
    ctx.hit('tracer-style:' + tracer_style)
    falsy = tracer_style.startswith('falsy')
    if n_tracers:
        if falsy:
            ctx.hit('falsy-tracer:' + tracer_style)
            if any(bool(t) for i, t in enumerate(tracers) if i % 2 == 0):
                raise AssertionError('harness: a falsy-style tracer is truthy at construction time')
        # the library's own LoggingTracer rides along (it records nothing here, it must not disturb the others), and the
        # tracers are handed over in some container or other: a list, a tuple, a deque, a dict view, a bare Iterable, ...
        container = container or ('list', 'tuple', 'deque', 'dict-values')[(n_tracers + len(script)) % 4]
        tracers = configure(ctx, tracers, container)
    if kind == 'notification' and notif_body is not None:
        ctx.hit('notification-answered-with-a-body:' + ('strict' if strict else 'non-strict'))
    sc = Script(script, log)
    sc.notif_body = notif_body
    strategy = retry_mod.RetryStrategy(backoff=retry_mod.PeriodicBackoff(attempts=attempts, interval=0.0), codes={2001},
                                       exceptions=set(RETRY_EXC)) if attempts is not None else None
    cancel_box = {}

    if is_async:
        async def transport(text, is_notification, kwargs):
            o, k = sc.outcome()
            if o == 'cancel-task':
                log.append(('transport', k))
                cancel_box['parked'].set()
                await cancel_box['never']          # parked here until the driver cancels the client task
            return sc.respond(o, k, text, is_notification)
    else:
        def transport(text, is_notification, kwargs):
            o, k = sc.outcome()
            return sc.respond(o, k, text, is_notification)

    cls_ = clientside.AsyncClient if is_async else clientside.SyncClient
    client = cls_(transport, tracers=tracers, retry_strategy=strategy, strict=strict)
    # a caller-supplied trace context is the caller's object: a namespace, or something that takes no attributes at all
    tctx = (SimpleNamespace(tag='caller') if (n_tracers + len(script)) % 3 else object()) if supplied_ctx else None
    if kind == 'single':
        req = v20.Request('m', [1], id=5)
        op = lambda: client.send(req, _trace_ctx=tctx)
    elif kind == 'batch':
        # (every other batch is built by the caller with strict=False: the flag concerns duplicate ids, nothing else)
        req = v20.BatchRequest(v20.Request('a', [1], id=1), v20.Request('b', [2], id=2), **({'strict': False} if n_tracers % 2 else {}))
        op = lambda: client.batch.send(req, _trace_ctx=tctx)
    else:
        req = v20.Request('n', [1], id=None)
        op = lambda: client.send(req, _trace_ctx=tctx)

    if is_async and 'cancel-task' in script:
        async def driver():
            cancel_box['parked'] = asyncio.Event()
            cancel_box['never'] = asyncio.get_running_loop().create_future()
            task = asyncio.ensure_future(op())
            done, _ = await asyncio.wait({task, asyncio.ensure_future(cancel_box['parked'].wait())},
                                         return_when=asyncio.FIRST_COMPLETED)
            if task.done():
                return task.result()
            task.cancel()
            ctx.hit('real-cancellation')
            return await task
        st, out = clientside.outcome_of(lambda: driver(), True)
    elif inside_except:
        ctx.hit('called-while-handling-another-exception')
        try:
            raise Unrelated('the caller is busy handling this')
        except Unrelated:
            st, out = outcome_of_all(op, is_async)
    else:
        st, out = outcome_of_all(op, is_async)

    # ---- model: which attempts happen, and how each ends
    def kind_of(o):
        if o in ('ok',):
            return {'kind': 'ok'}
        if o in ('listed', 'unlisted'):
            return {'kind': 'error-response', 'code': 2001 if o == 'listed' else 999}
        exc = {'exc-listed': ConnectionError(), 'exc-unlisted': KeyError(), 'undecodable': ValueError(),
               'invalid-doc': DeserializationError(), 'identity': IdentityError(), 'base-exc': Abort(),
               'cancelled-raised': asyncio.CancelledError(), 'cancel-task': asyncio.CancelledError(),
               'unexpected-body': pjrpc.exceptions.BaseError(), 'exc-stopiteration': StopIteration(),
               'exc-group': ExceptionGroup('g', [ConnectionError()]), 'exc-kbdint': KeyboardInterrupt(), 'exc-sysexit': SystemExit()}[o]
        return {'kind': 'exception', 'exc': exc}

    is_notif = kind == 'notification'
    eff_script = list(script)
    if is_notif:
        # bodies are not read for notifications: response-shaped outcomes all mean "transport returned"
        eff_script = [o if o in RAISING + ('cancel-task',) else
                      ('unexpected-body' if (strict and notif_body) else 'ok') for o in script]
    delays = [0.0] * attempts if attempts is not None else None
    outcomes = [kind_of(o) for o in eff_script]
    # for notifications the retry loop still runs around exceptions; model attempts through the generic loop
    want_events, final = retry_model.run(delays, {2001}, RETRY_EXC, outcomes, False)
    n_attempts = sum(1 for e in want_events if e == 'send')
    consumed = tuple(eff_script[:final + 1])
    ctx.hit('client:' + ck)
    ctx.hit(f'tracers:{n_tracers}')
    ctx.hit('ctx:supplied' if supplied_ctx else 'ctx:default')
    ctx.hit('kind:' + kind)
    ctx.hit('last:' + consumed[-1])
    if n_attempts >= 2:
        ctx.hit('attempts>=2')
        if n_tracers == 3:
            ctx.hit('multi-attempt-3-tracers')
    cls = (n_tracers, attempts, consumed, kind, supplied_ctx, ck, inside_except, tracer_style, strict, notif_body, container)
    fam = f'{kind}:{ck}:t{n_tracers}' + (':inside-except' if inside_except else '')
    wit = dict(tracers=n_tracers, retry_attempts=attempts, script=script, kind=kind, caller_supplied_context=supplied_ctx,
               client=ck, outcome=[st, out], tracer_handlers=tracer_style, strict=strict, notification_body=notif_body,
               tracers_given_as=container,
               events=[(e[0], e[1]) if e[0] == 'transport' else (e[0], e[1], type(e[4]).__name__) for e in log])

    # ---- the automaton over the event log
    blocks = []          # per attempt: list of tracer events
    cur = None
    transport_seen = 0
    problem = None
    pending = None
    i = 0
    events = list(log)
    attempt_blocks = []
    # split at 'begin' of tracer 0 (or at transport marks when there are no tracers)
    if n_tracers == 0:
        if any(e[0] != 'transport' for e in events):
            problem = 'events-from-unconfigured-tracer'
        n_obs = sum(1 for e in events if e[0] == 'transport')
        if not problem and n_obs != n_attempts:
            problem = 'attempt-count-differs-from-retry-model'
    else:
        idx = 0
        for a in range(n_attempts):
            block_ctx = None
            # begins in configuration order
            for t in range(n_tracers):
                if idx >= len(events) or events[idx][0] == 'transport' or events[idx][:2] != (t, 'begin'):
                    problem = 'begin-missing-or-out-of-order'
                    break
                if block_ctx is None:
                    block_ctx = events[idx][2]
                elif events[idx][2] is not block_ctx:
                    problem = 'tracers-of-one-attempt-got-different-contexts'
                if events[idx][3] is not req:
                    problem = problem or 'begin-carries-a-different-request'
                idx += 1
            if problem:
                break
            if idx >= len(events) or events[idx][0] != 'transport':
                problem = 'no-transport-call-between-begin-and-completion'
                break
            idx += 1
            o = consumed[a]
            want_kind = 'end' if o in ('ok', 'listed', 'unlisted') else 'error'
            payload0 = None
            for t in range(n_tracers):
                if idx >= len(events) or events[idx][0] == 'transport' or events[idx][0] != t:
                    problem = 'completion-missing-or-out-of-order'
                    break
                e = events[idx]
                if e[1] == 'begin':
                    problem = 'completion-missing-before-next-begin'
                    break
                if e[1] != want_kind:
                    problem = f'completion-kind-wrong:{e[1]}-after-{o}'
                    break
                if e[2] is not block_ctx:
                    problem = 'completion-with-a-different-context-than-begin'
                    break
                if supplied_ctx and e[2] is not tctx:
                    problem = 'caller-supplied-context-not-used'
                    break
                if t == 0:
                    payload0 = e[4]
                elif e[4] is not payload0:
                    problem = 'tracers-of-one-attempt-got-different-payloads'
                    break
                idx += 1
            if problem:
                break
            if supplied_ctx and block_ctx is not tctx:
                problem = 'caller-supplied-context-not-used'
                break
            # payload checks
            if want_kind == 'end':
                if is_notif:
                    if payload0 is not None:
                        problem = 'end-of-notification-carries-a-response'
                elif payload0 is None:
                    problem = 'end-without-the-response'
                elif (o == 'ok') != payload0.is_success:
                    problem = 'end-carries-a-different-response'
            else:
                if not isinstance(payload0, BaseException):
                    problem = 'error-without-the-exception'
                elif a in sc.raised and payload0 is not sc.raised[a]:
                    problem = 'error-carries-a-different-exception-object'
                elif a == n_attempts - 1 and (st != 'exc' or out is not payload0):
                    problem = 'exception-reaching-caller-differs-from-traced-one'
            if problem:
                break
        if not problem and idx != len(events):
            rest = events[idx]
            problem = 'extra-events-after-last-attempt:' + (rest[1] if rest[0] != 'transport' else 'transport')
    if not problem:
        begins = sum(1 for e in events if e[0] != 'transport' and e[1] == 'begin')
        comps = sum(1 for e in events if e[0] != 'transport' and e[1] in ('end', 'error'))
        if begins != comps:
            problem = 'begin-and-completion-counts-differ'
    if not problem:
        # what reaches the caller
        last = consumed[-1]
        if last in ('ok', 'listed', 'unlisted'):
            if st != 'ret':
                problem = f'returned-attempt-raised-{type(out).__name__}'
            elif is_notif and out is not None:
                problem = 'notification-returned-something'
        else:
            if st != 'exc':
                problem = 'failed-attempt-did-not-raise'
            elif (n_attempts - 1) in sc.raised and out is not sc.raised[n_attempts - 1]:
                problem = 'exception-reaching-caller-is-not-the-one-raised'
            elif last == 'cancel-task' and not isinstance(out, asyncio.CancelledError):
                problem = 'cancellation-did-not-propagate'
    if problem:
        ctx.violation(problem + (':multi-attempt' if n_attempts > 1 else '') + (':falsy-tracer-configured' if falsy and n_tracers else '')
                      + (container_tag(container) if n_tracers else ''),
                      fam, cls, model_attempts=n_attempts, **wit)
        return
    ctx.ok(fam + ':' + consumed[-1], cls, sample=wit)


def run_concurrent(ctx, n_tracers, outcomes, release_order, supplied):
    """several requests in flight through ONE async client; the transport parks each of them and the driver releases them
    in `release_order`. Every request must see its own begin and completion with its own trace context."""
    log = []
    tracers = [Rec(i, log) for i in range(n_tracers)]
    n = len(outcomes)
    gates = {}
    raised = {}

    async def transport(text, is_notification, kwargs):
        req = json.loads(text)
        k = req['params'][0]
        gates[k] = asyncio.get_running_loop().create_future()
        await gates[k]
        o = outcomes[k]
        if o == 'exc':
            raised[k] = ConnectionError(f'req{k}')
            raise raised[k]
        if o == 'error':
            return json.dumps({'jsonrpc': '2.0', 'id': req['id'], 'error': {'code': 999, 'message': 'm', 'data': k}})
        return json.dumps({'jsonrpc': '2.0', 'id': req['id'], 'result': f'ok{k}'})

    client = clientside.AsyncClient(transport, tracers=tracers)
    reqs = [v20.Request('m', [k], id=100 + k) for k in range(n)]
    ctxs = [SimpleNamespace(tag=k) if supplied[k] else None for k in range(n)]

    async def driver():
        tasks = [asyncio.ensure_future(client.send(reqs[k], _trace_ctx=ctxs[k])) for k in range(n)]
        for _ in range(50):
            await asyncio.sleep(0)
            if len(gates) == n:
                break
        for k in release_order:
            gates[k].set_result(None)
            for _ in range(6):
                await asyncio.sleep(0)
        return await asyncio.gather(*tasks, return_exceptions=True)

    st, results = clientside.outcome_of(lambda: driver(), True)
    ctx.hit('concurrent-requests')
    cls = ('concurrent', n_tracers, tuple(outcomes), tuple(release_order), tuple(supplied))
    fam = f'concurrent:{n}-in-flight:t{n_tracers}'
    wit = dict(tracers=n_tracers, outcomes=outcomes, release_order=release_order, caller_supplied_context=supplied,
               events=[(e[0], e[1], reqs.index(e[3]) if e[3] in reqs else None, type(e[4]).__name__) for e in log], results=[st, results])
    if st != 'ret':
        ctx.violation(f'concurrent-driver-raised:{type(results).__name__}', fam, cls, **wit)
        return
    problem = None
    for k in range(n):
        evs = [e for e in log if e[3] is reqs[k]]
        begins = [e for e in evs if e[1] == 'begin']
        comps = [e for e in evs if e[1] in ('end', 'error')]
        if [e[0] for e in begins] != list(range(n_tracers)) or [e[0] for e in comps] != list(range(n_tracers)):
            problem = 'begin-or-completion-missing-or-repeated'
            break
        want_kind = 'error' if outcomes[k] == 'exc' else 'end'
        if any(e[1] != want_kind for e in comps):
            problem = 'completion-kind-wrong'
            break
        ctxset = {id(e[2]) for e in begins + comps}
        if len(ctxset) > 1:
            problem = 'completion-with-a-different-context-than-begin'
            break
        if supplied[k] and begins and begins[0][2] is not ctxs[k]:
            problem = 'caller-supplied-context-not-used'
            break
        if want_kind == 'error' and comps and (comps[0][4] is not raised.get(k) or results[k] is not raised.get(k)):
            problem = 'error-carries-a-different-exception-object'
            break
        if want_kind == 'end' and comps and (comps[0][4] is not results[k]):
            problem = 'end-carries-a-different-response'
            break
    if n_tracers and not problem:
        # two requests must not share a library-created context
        firsts = [next(e[2] for e in log if e[3] is reqs[k] and e[1] == 'begin') for k in range(n)]
        if len({id(c) for c in firsts}) != n:
            problem = 'two-requests-share-one-trace-context'
    if problem:
        ctx.violation(problem + ':concurrent-requests', fam, cls, **wit)
        return
    ctx.ok(fam, cls, sample=wit)


class RaisingRec(Rec):
    """records like Rec, then fails in one of its completion handlers (a tracer that reads response.result of an error
    response, a metrics client that is down)"""

    def __init__(self, idx, log, where):
        super().__init__(idx, log)
        self.where = where

    def on_request_end(self, trace_context, request, response):
        super().on_request_end(trace_context, request, response)
        if self.where == 'end':
            raise RuntimeError('tracer failed in on_request_end')

    def on_error(self, trace_context, request, error):
        super().on_error(trace_context, request, error)
        if self.where == 'error':
            raise RuntimeError('tracer failed in on_error')


def run_raising_tracer(ctx, n_tracers, where, outcome, kind, is_async):
    """the LAST configured tracer raises in a completion handler. Whatever then reaches the caller (not judged), no tracer
    may have been given a second completion for its one begin."""
    ck = 'async' if is_async else 'sync'
    log = []
    tracers = [Rec(i, log) for i in range(n_tracers - 1)] + [RaisingRec(n_tracers - 1, log, where)]
    sc = Script([outcome], log)

    def transport(text, is_notification, kwargs):
        o, k = sc.outcome()
        return sc.respond(o, k, text, is_notification)

    cls_ = clientside.AsyncClient if is_async else clientside.SyncClient
    client = cls_(transport, tracers=tracers)
    if kind == 'batch':
        req = v20.BatchRequest(v20.Request('a', [1], id=1), v20.Request('b', [2], id=2))
        st, out = clientside.outcome_of(lambda: client.batch.send(req), is_async)
    else:
        req = v20.Request('m', [1], id=None if kind == 'notification' else 5)
        st, out = clientside.outcome_of(lambda: client.send(req), is_async)
    ctx.hit('raising-tracer')
    cls = ('raising-tracer', n_tracers, where, outcome, kind, ck)
    fam = f'raising-tracer:{where}:{ck}'
    wit = dict(tracers=n_tracers, last_tracer_raises_in=where, transport_outcome=outcome, kind=kind, client=ck, outcome=[st, out],
               events=[(e[0], e[1]) if e[0] == 'transport' else (e[0], e[1], type(e[4]).__name__) for e in log])
    for t in range(n_tracers):
        begins = sum(1 for e in log if e[0] == t and e[1] == 'begin')
        comps = [e[1] for e in log if e[0] == t and e[1] in ('end', 'error')]
        if begins != 1:
            ctx.violation('tracer-did-not-see-exactly-one-begin:with-a-raising-tracer', fam, cls, tracer=t, **wit)
            return
        if len(comps) > 1:
            ctx.violation('tracer-given-two-completions-for-one-begin:' + '+'.join(comps), fam, cls, tracer=t, **wit)
            return
        if len(comps) == 0:
            ctx.violation('tracer-given-no-completion:with-a-raising-tracer', fam, cls, tracer=t, **wit)
            return
    ctx.ok(fam, cls, sample=wit)


def _peer(text):
    """a peer that answers every element that has an id, and says nothing when there is none"""
    data = json.loads(text)
    items = data if isinstance(data, list) else [data]
    replies = [{'jsonrpc': '2.0', 'id': it['id'], 'result': f"r{it['id']}"} for it in items if 'id' in it]
    if not replies:
        return ''
    return json.dumps(replies if isinstance(data, list) else replies[0])


def run_batch_reuse(ctx, holder, rounds, n_tracers, is_async, supplied_ctx, transport_flavour, peek=False, strict=True,
                    tracer_style='class', container='list', retry_round=None):
    """ONE batch object makes several round trips, and grows in between through the adding entry points.
    holder 'wrapper': b = client.batch; elements through b.add / b(...) / b.proxy.<m>(...) / b.notify / b[...]; sent by b.call(),
    b.proxy.call(), b.proxy() or the subscription itself. holder 'request': a BatchRequest built by the caller; elements through
    the constructor / append / extend; sent by client.batch.send(request).
    rounds: [{'adds': [[how, 'call' | 'notification'], ...], 'via': how the round trip is made}, ...]
    Every round trip is an attempt like any other: begin and one completion per tracer, and the completion is `end` with
    nothing exactly when the batch - as it is at THAT send - consists of notifications only, with the response otherwise."""
    ck = 'async' if is_async else 'sync'
    log = []
    tracers = [make_tracer(tracer_style if (i % 2 == 0 or tracer_style == 'equal') else 'class', i, log) for i in range(n_tracers)]
    falsy = tracer_style.startswith('falsy')
    told = []
    raised = {}
    box = {'fail_next': False}

    def transport(text, is_notification, kwargs):
        log.append(('transport', len(told)))
        told.append(bool(is_notification))
        if box['fail_next']:
            box['fail_next'] = False
            raised[len(told) - 1] = ConnectionError(f'send{len(told) - 1}')
            raise raised[len(told) - 1]
        body = _peer(text)
        if transport_flavour == 'drops-the-reply-when-told-notification':     # what the bundled backends do
            return None if is_notification else body
        return body or None                                                   # hands back whatever the peer sent

    strategy = retry_mod.RetryStrategy(backoff=retry_mod.PeriodicBackoff(attempts=1, interval=0.0), codes={2001},
                                       exceptions={ConnectionError}) if retry_round is not None else None
    cls_ = clientside.AsyncClient if is_async else clientside.SyncClient
    client = cls_(transport, tracers=configure(ctx, tracers, container), retry_strategy=strategy, strict=strict)
    ctx.hit('batch-reuse')
    ctx.hit('batch-reuse:holder:' + holder)
    ctx.hit('client:' + ck)
    ctx.hit(f'tracers:{n_tracers}')
    ctx.hit('tracer-style:' + tracer_style)
    if falsy and n_tracers:
        ctx.hit('falsy-tracer:' + tracer_style)
        if any(bool(t) for i, t in enumerate(tracers) if i % 2 == 0):
            raise AssertionError('harness: a falsy-style tracer is truthy at construction time')
    cls = ('batch-reuse', holder, json.dumps(rounds), n_tracers, ck, supplied_ctx, transport_flavour, peek, strict, tracer_style,
           container, retry_round)
    fam = f'batch-reuse:{holder}:{ck}:t{n_tracers}'
    wit = dict(holder=holder, rounds=rounds, tracers=n_tracers, client=ck, caller_supplied_context=supplied_ctx,
               transport=transport_flavour, state_read_between_rounds=peek, strict=strict, tracer_handlers=tracer_style,
               tracers_given_as=container, retry_in_round=retry_round, per_round=[])

    batch = client.batch if holder == 'wrapper' else None
    req = None
    next_id = [100]
    n_calls = n_notifs = 0
    sent_as_notifications_only = False
    one_shot_added = False
    for ridx, rnd in enumerate(rounds):
        # ---- grow
        new = []
        for how, what in rnd['adds']:
            ctx.hit('batch-reuse:add-via:' + how)
            one_shot_added = one_shot_added or how == 'extend-iterator'
            if holder == 'wrapper':
                if what == 'notification':
                    batch.notify('n', ridx)
                elif how == 'add':
                    batch.add('m', ridx)
                elif how == 'dunder':
                    batch('m', ridx)
                else:
                    batch.proxy.m(ridx)
            else:
                next_id[0] += 1
                element = v20.Request('m', [ridx], id=next_id[0]) if what == 'call' else v20.Request('n', [ridx])
                if how == 'constructor':
                    new.append(element)
                elif how == 'append':
                    if req is None:
                        req = v20.BatchRequest(*new)
                    req.append(element)
                elif how == 'extend-tuple':
                    if req is None:
                        req = v20.BatchRequest(*new)
                    req.extend((element,))
                elif how == 'extend-iterator':
                    # extend() takes an Iterable: a generator is one
                    if req is None:
                        req = v20.BatchRequest(*new)
                    req.extend(e for e in [element])
                else:
                    if req is None:
                        req = v20.BatchRequest(*new)
                    req.extend([element])
            n_calls += what == 'call'
            n_notifs += what == 'notification'
        if holder == 'request' and req is None:
            req = v20.BatchRequest(*new)
        via = rnd['via']
        if via == 'getitem':
            n_calls += 2
            ctx.hit('batch-reuse:add-via:getitem')
        if not rnd['adds'] and via != 'getitem' and ridx:
            ctx.hit('batch-reuse:resent-unchanged')
        only_notifications = n_calls == 0
        grown = sent_as_notifications_only and not only_notifications
        if grown:
            ctx.hit('batch-reuse:calls-added-after-a-notifications-only-round-trip')
        if ridx and n_notifs and not only_notifications and any(w == 'notification' for _, w in rnd['adds']):
            ctx.hit('batch-reuse:notifications-added-to-calls')
        if peek and holder == 'request':
            # looking at the public state of the request object between the round trips changes nothing
            ctx.hit('batch-reuse:state-read-between-rounds')
            _ = (req.is_notification, len(req), list(req), repr(req))
        # ---- one round trip
        del log[:]
        first_send = len(told)
        tctx = SimpleNamespace(round=ridx) if supplied_ctx else None
        retried_here = retry_round == ridx
        if retried_here:
            box['fail_next'] = True
            ctx.hit('batch-reuse:retry')
        if holder == 'request':
            op = lambda: client.batch.send(req, _trace_ctx=tctx)
        elif via == 'getitem':
            tctx = None                 # the subscription takes no context
            op = lambda: batch[('g', 1), ('g', 2)]
        elif via == 'proxy-call':
            op = lambda: batch.proxy.call(tctx)
        elif via == 'proxy-dunder':
            op = lambda: batch.proxy(tctx)
        else:
            op = lambda: batch.call(tctx)
        ctx.hit('batch-reuse:via:' + via)
        st, out = clientside.outcome_of(op, is_async)
        events = list(log)
        wit['per_round'].append(dict(round=ridx, calls_in_batch=n_calls, notifications_in_batch=n_notifs,
                                     transport_was_told_is_notification=told[first_send:], outcome=[st, out],
                                     events=[(e[0], e[1]) if e[0] == 'transport' else (e[0], e[1], type(e[4]).__name__) for e in events]))
        ctx.hit('kind:batch-notifications-only' if only_notifications else 'kind:batch')
        # ---- judge the round trip: attempts, in order
        want = (['error'] if retried_here else []) + ['end']
        problem = None
        idx = 0
        last_payload = None
        for a, want_kind in enumerate(want):
            block_ctx = block_req = None
            for t in range(n_tracers):
                if idx >= len(events) or events[idx][0] == 'transport' or events[idx][:2] != (t, 'begin'):
                    problem = 'begin-missing-or-out-of-order'
                    break
                if t == 0:
                    block_ctx, block_req = events[idx][2], events[idx][3]
                elif events[idx][2] is not block_ctx:
                    problem = 'tracers-of-one-attempt-got-different-contexts'
                    break
                if events[idx][3] is not block_req or (holder == 'request' and block_req is not req):
                    problem = 'begin-carries-a-different-request'
                    break
                idx += 1
            if problem:
                break
            if idx >= len(events) or events[idx][0] != 'transport':
                problem = 'no-transport-call-between-begin-and-completion'
                break
            idx += 1
            payload0 = None
            for t in range(n_tracers):
                if idx >= len(events) or events[idx][0] == 'transport' or events[idx][0] != t:
                    problem = 'completion-missing-or-out-of-order'
                    break
                e = events[idx]
                if e[1] == 'begin':
                    problem = 'completion-missing-before-next-begin'
                    break
                if e[1] != want_kind:
                    problem = f"completion-kind-wrong:{e[1]}-after-{'ok' if want_kind == 'end' else 'exc-listed'}"
                    break
                if e[2] is not block_ctx:
                    problem = 'completion-with-a-different-context-than-begin'
                    break
                if tctx is not None and e[2] is not tctx:
                    problem = 'caller-supplied-context-not-used'
                    break
                if t == 0:
                    payload0 = e[4]
                elif e[4] is not payload0:
                    problem = 'tracers-of-one-attempt-got-different-payloads'
                    break
                idx += 1
            if problem:
                break
            if n_tracers:
                if want_kind == 'error':
                    if payload0 is not raised.get(first_send + a):
                        problem = 'error-carries-a-different-exception-object'
                elif only_notifications:
                    if payload0 is not None:
                        problem = 'end-of-notification-carries-a-response'
                elif payload0 is None:
                    problem = 'end-without-the-response'
                elif not getattr(payload0, 'is_success', False):
                    problem = 'end-carries-a-different-response'
                last_payload = payload0
            if problem:
                break
        if not problem and n_tracers and idx != len(events):
            rest = events[idx]
            problem = 'extra-events-after-last-attempt:' + (rest[1] if rest[0] != 'transport' else 'transport')
        if not problem and not n_tracers:
            if any(e[0] != 'transport' for e in events):
                problem = 'events-from-unconfigured-tracer'
            elif len(events) != len(want):
                problem = 'attempt-count-differs-from-retry-model'
        if not problem:
            if st != 'ret':
                problem = f'returned-attempt-raised-{type(out).__name__}'
            elif only_notifications and out is not None:
                problem = 'notification-returned-something'
            elif not only_notifications and holder == 'request' and n_tracers and out is not last_payload:
                problem = 'end-carries-a-different-response'
        if problem:
            ctx.violation(problem + ':batch-object-reused' + (':grown-after-a-notifications-only-round-trip' if grown else '')
                          + (':elements-added-through-a-one-shot-iterator' if one_shot_added else '')
                          + (':falsy-tracer-configured' if falsy and n_tracers else '') + (container_tag(container) if n_tracers else ''),
                          fam, cls, failing_round=ridx, **wit)
            return
        if st != 'ret':
            break
        sent_as_notifications_only = sent_as_notifications_only or only_notifications
    ctx.ok(fam, cls, sample=wit)


W_INIT = [[['notify', 'notification']], [['notify', 'notification'], ['notify', 'notification']], [['add', 'call']],
          [['proxy', 'call'], ['notify', 'notification']], [['dunder', 'call']]]
W_ADDS = [[], [['add', 'call']], [['dunder', 'call']], [['proxy', 'call']], [['notify', 'notification']],
          [['add', 'call'], ['notify', 'notification']], [['notify', 'notification'], ['proxy', 'call']], 'getitem']
R_INIT = [[['constructor', 'notification']], [['constructor', 'notification'], ['append', 'notification']],
          [['extend', 'notification'], ['extend-tuple', 'notification']], [['constructor', 'call']],
          [['append', 'call'], ['extend', 'notification']]]
R_ADDS = [[], [['append', 'call']], [['extend', 'call']], [['extend-tuple', 'call']], [['append', 'notification']],
          [['extend', 'notification']], [['extend', 'call'], ['extend-tuple', 'notification']], [['append', 'notification'], ['append', 'call']],
          [['extend-iterator', 'call']], [['extend-iterator', 'notification'], ['extend-iterator', 'call']]]


def gen_batch_reuse(ctx):
    k = 0
    reps = ctx.pick(2, 12)
    vias = ('call', 'proxy-call', 'call', 'proxy-dunder')
    for holder, inits, adds in (('wrapper', W_INIT, W_ADDS), ('request', R_INIT, R_ADDS)):
        for init in inits:
            for second in adds:
                for third in [None] + adds:
                    for _ in range(reps):
                        k += 1
                        rounds = []
                        for j, a in enumerate([init, second] + ([third] if third is not None else [])):
                            if a == 'getitem':
                                rounds.append({'adds': [], 'via': 'getitem'})
                            else:
                                rounds.append({'adds': a, 'via': 'send' if holder == 'request' else vias[(k + j) % 4]})
                        yield 'batch-reuse', dict(
                            holder=holder, rounds=rounds, n_tracers=(1, 2, 3, 1, 0, 2, 3)[k % 7], is_async=bool(k % 2),
                            supplied_ctx=bool((k // 2) % 2),
                            transport_flavour=('drops-the-reply-when-told-notification', 'hands-back-what-the-peer-sent')[(k // 4) % 2],
                            peek=bool((k // 3) % 2), strict=bool((k // 5) % 3), tracer_style=STYLE_ROTATION[(k // 3) % len(STYLE_ROTATION)],
                            container=CONTAINERS[k % len(CONTAINERS)], retry_round=(None, 1, None, 0, 2)[k % 5])


def gen(ctx):
    yield from gen_batch_reuse(ctx)
    rng = ctx.rng
    deep = ctx.thorough
    full = True
    k = 0
    for n_tr in (1, 2, 3):
        for where, outs in (('end', ('ok', 'unlisted')), ('error', ('exc-unlisted', 'undecodable', 'identity'))):
            for outcome in outs:
                for kind in ('single', 'batch', 'notification'):
                    if kind == 'notification' and outcome in ('undecodable', 'identity', 'unlisted'):
                        continue
                    for is_async in (False, True):
                        yield 'raising-tracer', dict(n_tracers=n_tr, where=where, outcome=outcome, kind=kind, is_async=is_async)
    sync_outs = [o for o in OUTCOMES if o != 'cancel-task']
    async_outs = [o for o in OUTCOMES if o not in ('exc-stopiteration', 'exc-kbdint', 'exc-sysexit')]
    for n_req in (2, 3):
        for outcomes in itertools.product(('ok', 'error', 'exc'), repeat=n_req):
            for order in itertools.permutations(range(n_req)):
                for n_tr in ((1, 2) if n_req == 3 else (1, 2, 3)):
                    k += 1
                    sup = [bool((k >> i) & 1) for i in range(n_req)]
                    yield 'concurrent', dict(n_tracers=n_tr, outcomes=list(outcomes), release_order=list(order), supplied=sup)
    for attempts in (None, 0, 1, 2, 3):
        n = attempts or 0
        length = n + 1
        for is_async in (False, True):
            outs = async_outs if is_async else sync_outs
            if n <= 2 or (deep and n == 3):
                scripts = list(itertools.product(outs, repeat=length))
            else:
                scripts = [tuple(rng.choice(outs) for _ in range(length)) for _ in range(2500 if full else 150)]
                scripts += [tuple(rng.choice(['listed', 'exc-listed', 'undecodable', 'identity']) for _ in range(n)) + (rng.choice(outs),)
                            for _ in range(1500 if full else 150)]
            for script in scripts:
                for _ in range((6 if n <= 2 else 2) if deep else (3 if n <= 1 else 1)):
                    k += 1
                    kind = ('single', 'batch', 'single', 'notification', 'batch')[k % 5]
                    extra = {}
                    if kind == 'notification':
                        extra = dict(strict=bool((k // 5) % 2), notif_body=NOTIF_BODIES[(k // 10) % len(NOTIF_BODIES)])
                    yield 'case', dict(n_tracers=(1, 2, 3, 0, 3, 1, 2)[k % 7], attempts=attempts, script=list(script), kind=kind,
                                       supplied_ctx=bool((k // 2) % 2), is_async=is_async,
                                       inside_except=(k % 4 == 0 and 'cancel-task' not in script),
                                       tracer_style=STYLE_ROTATION[(k // 3) % len(STYLE_ROTATION)],
                                       container=CONTAINERS[(k // 2) % len(CONTAINERS)], **extra)


NOTIF_BODIES = [None, '', '{"jsonrpc": "2.0", "id": null, "result": 1}', 'garbage', '{"jsonrpc": "2.0", "id": 7, "error": {"code": 1, "message": "m"}}']
KINDS = {'case': run_case, 'concurrent': run_concurrent, 'raising-tracer': run_raising_tracer, 'batch-reuse': run_batch_reuse}
