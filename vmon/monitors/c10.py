"""C10 - concurrent batches cannot mix up responses; sequential mode is sequential.

Every interleaving of the element handlers at their real suspension points is produced by the controlled scheduler
(vmon/sched.py) and judged against the schedule-independent expected response array."""
from __future__ import annotations

import asyncio
import contextvars
import functools
import gc
import itertools
import json
import warnings

import pjrpc
import pjrpc.server
from pjrpc.common.exceptions import JsonRpcError
from pjrpc.common import v20

from .. import sched, strictjson, world
from ..strictjson import typed_eq

PID = 'C10'
LEVEL = 'exploration'
EXHAUSTIVE_OVERALL = False
RULE = ('one case = one batch shape (2..4 elements, each with one of 14 profiles: call / notification / plain non-coroutine '
        'method x succeeds / raises protocol error / raises arbitrary exception x 0..2 suspension points in method, middleware '
        '(before / after the inner handler) or error handler) x concurrent_batch on / off; for each shape ALL schedules '
        '(sequences of "which parked coroutine resumes next") are enumerated by stateless DFS re-execution of the real '
        'AsyncDispatcher.dispatch. One evaluation = one schedule. Per schedule: response array in request order with own ids '
        'and own results / errors, each method executed exactly once, every element finished when dispatch returns, no '
        'never-awaited coroutine; with concurrent_batch off additionally no two elements in flight at once and starts in '
        'request order. Distinct = distinct (shape, flag, completion order of the elements). '
        'Further dimensions: (a) the coroutine bodies of a shape handed to the dispatcher as callables that are NO coroutine functions '
        '(object with async __call__, async def behind a plain functools.wraps decorator, plain def / lambda / bound plain method '
        'delegating to a coroutine function, functools.partial of those - rotating over the elements, mixed with ordinary coroutine '
        'functions), both batch modes; a failure is attributed to the kind of callable only if the same shape with ordinary '
        'coroutine functions does not show it. (b) case kind "noparams": 1..3 batches served one after the other by one dispatcher or '
        'alternately by two (all using the default validator), 2..4 elements each, calling WITHOUT params (member absent / [] / {}) '
        'methods that take the server context by keyword under two different names per case, positionally, or not at all, that are '
        'parameterless or have one defaulted parameter, next to methods that are given params and calls that leave a required '
        'parameter out (-32602, never run); coroutine and plain functions, notifications, <= 1 suspension point per method; all '
        'schedules of the whole sequence; every element answered with its own result (incl. the context object of ITS batch) under '
        'every interleaving, each method run exactly once, each dispatch finished before it returns, sequential-mode rules as above.')
ASSUMPTIONS = [
    'suspension points are those of user code (methods, middlewares, error handlers); the library itself only awaits them',
    'in-flight = between the entry of the outermost middleware for an element and its exit (logical time from the trace)',
    'callables with a (*args, **kwargs) signature (a decorator without functools.wraps) are left out: binding positional params to '
    'them is known finding D4 of C04, not a matter of C10',
    'library state shared between dispatchers of one process (the default validator) is not reset between cases: the expected '
    'responses do not depend on what was served before',
]
SHARDS = {'quick': 8, 'thorough': 16}
TIMEOUT = {'quick': 900, 'thorough': 3600}
ANCHORS = [
    ('pjrpc/server/dispatcher.py', 'AsyncDispatcher.dispatch'),
    ('pjrpc/server/dispatcher.py', 'AsyncDispatcher._handle_request'),
    ('pjrpc/server/dispatcher.py', 'AsyncDispatcher._handle_rpc_request'),
    ('pjrpc/server/dispatcher.py', 'AsyncDispatcher._handle_rpc_method'),
]
# how a method whose body is a coroutine is handed to the dispatcher. Except for 'coroutine-function' none of these is a coroutine
# function for asyncio.iscoroutinefunction, yet calling any of them yields a coroutine that has to be awaited.
# (a generic decorator WITHOUT functools.wraps has the signature (*args, **kwargs): positional params of such methods end in
#  -32000 on the unchanged tree - known finding D4 of C04, parameter binding - so the undecorated-signature wrapper is
#  represented by the delegating `def` only)
CO_FLAVOURS = ['coroutine-function', 'object-with-async-__call__', 'async-def-behind-plain-decorator', 'plain-def-delegating',
               'partial-of-object-with-async-__call__', 'lambda-delegating', 'partial-of-delegating-def-with-bound-keyword',
               'bound-plain-method-delegating', 'partial-of-decorated-async-def']
FLOORS = {'*': {'schedules': 12000, 'shapes': 1000, 'shapes-with>=2-completion-orders': 80, 'last-element-finishes-first': 50,
                'max-in-flight>=2:concurrent': 200, 'sequential-mode-shapes': 60, 'points:method': 500, 'points:middleware': 500,
                'points:error-handler': 200, 'profile:notification': 100, 'profile:plain-method': 100, 'profile:rpc-error': 100,
                'profile:exception': 100, 'profile:plain-method-raising-TypeError': 50, 'profile:view-method': 50, 'profile:unregistered-method': 100, 'own-response-class-and-a-middleware-building-plain-responses': 200, 'elements:4': 2, 'plain-callable-middleware': 100, 'elements:1': 20,
                'dispatcher-from-the-aiohttp-integration': 300,
                # methods returning a coroutine without being coroutine functions
                'shapes-with-a-method-returning-a-coroutine-that-is-no-coroutine-function': 300,
                'sequential-mode:method-returning-a-coroutine-that-is-no-coroutine-function': 150,
                **{'coroutine-behind:' + f: 40 for f in CO_FLAVOURS},
                # calls without params, methods with / without context, sequences of batches
                'no-params-shapes': 300, 'no-params-schedules': 400, 'no-params-shapes:sequential-mode': 150,
                'no-params-shapes-with>=2-completion-orders': 25, 'no-params-shapes:3-batches': 30,
                'no-params-shapes:params-absent': 80, 'no-params-shapes:params-empty-array': 25, 'no-params-shapes:params-empty-object': 25,
                'no-params-shapes:two-dispatchers-sharing-the-default-validator': 40,
                'no-params-shapes:two-context-names-and-a-method-without-context': 20,
                'no-params:context-by-keyword:parameterless': 300, 'no-params:no-context:parameterless': 200,
                'no-params:context-positional:parameterless': 50, 'no-params:context-by-keyword:default-used': 80,
                'no-params:no-context:default-used': 40,
                'no-params:keyword-context-method-then-one-not-taking-that-name:same-batch': 100,
                'no-params:keyword-context-method-then-one-not-taking-that-name:later-batch': 40,
                'no-params:keyword-context-method-then-one-not-taking-that-name:later-batch-other-dispatcher': 15}}

# (kind, outcome, points)
PROFILES = [
    ('call', 'ok', []), ('call', 'ok', ['m0']), ('call', 'ok', ['m0', 'm1']), ('call', 'ok', ['mw-pre', 'mw-post']),
    ('call', 'rpc', ['m0', 'eh']), ('call', 'exc', ['eh']), ('notify', 'ok', ['m0']), ('notify', 'exc', ['mw-pre', 'eh']),
    ('plain', 'ok', ['mw-post']), ('call', 'rpc', ['m0']), ('plain', 'ok', []), ('plain', 'texc', ['eh']),
    ('view', 'ok', ['m0']),
    ('unknown', 'nf', ['eh']),         # a call of a method nobody registered: answered in its place like any other element
]

CUR = {'sched': None, 'exec': [], 'points': {}}
# what the outermost middleware stores for "its" element (the tracing-scope pattern): every element runs in a context of its own
ELEMENT = contextvars.ContextVar('vmon_c10_element', default='unset')


def rpc_code(i):
    # application codes, and the two codes the library itself only ever uses for whole documents
    return {1: -32600, 3: -32700}.get(i, 3000 + i)


def disguise(am, flavour):
    """the same coroutine body `am(tok)` behind a callable of the given flavour (signature seen by the library: (tok))"""
    def decorated():
        @functools.wraps(am)
        def wrapper(*args, **kwargs):
            return am(*args, **kwargs)
        return wrapper

    class Obj:
        async def __call__(self, tok):
            return await am(tok)

        def call(self, tok):
            return am(tok)
    if flavour == 'object-with-async-__call__':
        return Obj()
    if flavour == 'async-def-behind-plain-decorator':
        return decorated()
    if flavour == 'plain-def-delegating':
        def delegating(tok):
            return am(tok)
        return delegating
    if flavour == 'partial-of-object-with-async-__call__':
        return functools.partial(Obj())
    if flavour == 'lambda-delegating':
        return lambda tok: am(tok)
    if flavour == 'partial-of-delegating-def-with-bound-keyword':
        def delegating2(tok, tag=None):
            return am(tok)
        return functools.partial(delegating2, tag='t')
    if flavour == 'bound-plain-method-delegating':
        return Obj().call
    if flavour == 'partial-of-decorated-async-def':
        return functools.partial(decorated())
    return am


def make_dispatcher(via, **kwargs):
    """the AsyncDispatcher under test, built directly or handed out by the aiohttp integration (same keyword arguments)"""
    if via == 'aiohttp-app':
        import aiohttp.web
        from pjrpc.server.integration import aiohttp as integ
        return integ.Application('/rpc', app=aiohttp.web.Application(), **kwargs).dispatcher
    if via == 'aiohttp-endpoint':
        import aiohttp.web
        from pjrpc.server.integration import aiohttp as integ
        # (the application's own dispatcher is explicitly configured the other way round: that is ITS configuration)
        return integ.Application('/rpc', app=aiohttp.web.Application(), concurrent_batch=not kwargs.get('concurrent_batch', True),
                                 max_batch_size=1).add_endpoint('/sub', **kwargs)
    return pjrpc.server.AsyncDispatcher(**kwargs)


class OwnResponse(v20.Response):
    """the dispatcher is configured with its own response class; a middleware may still answer with a plain Response"""


def build(shape, concurrent, plain_mw=False, via=None, rewrap=False, co=None):
    disguised = []
    points = {i: set(PROFILES[p][2]) for i, p in enumerate(shape)}

    def envelope(resp):
        # rewrap: the middleware hands back a NEWLY BUILT plain response object carrying the same id and result
        if rewrap and isinstance(resp, v20.Response) and resp.is_success:
            return v20.Response(id=resp.id, result=resp.result)
        return resp

    def mw_plain(request, context, handler):
        # AsyncMiddlewareType only asks for a callable returning an awaitable: the synchronous part runs at call time
        e = request.params[0]
        s = CUR['sched']
        s.mark('start', e)

        async def rest():
            ELEMENT.set(e)      # (inside the awaitable: the synchronous part runs in the caller's context, before any task exists)
            if 'mw-pre' in points[e]:
                await s.point(e, 'mw-pre')
            resp = envelope(await handler(request, context))
            if 'mw-post' in points[e]:
                await s.point(e, 'mw-post')
            s.mark('finish', e)
            return resp
        return rest()

    async def mw(request, context, handler):
        e = request.params[0]
        s = CUR['sched']
        s.mark('start', e)
        ELEMENT.set(e)
        if 'mw-pre' in points[e]:
            await s.point(e, 'mw-pre')
        resp = envelope(await handler(request, context))
        if 'mw-post' in points[e]:
            await s.point(e, 'mw-post')
        s.mark('finish', e)
        return resp

    async def eh(request, context, error):
        e = request.params[0]
        if 'eh' in points[e]:
            await CUR['sched'].point(e, 'eh')
        return error

    def code_handler(code):
        # a per-code handler that signs the error it was given; an element must only ever meet the handlers of ITS code
        async def h(request, context, error):
            return JsonRpcError(code=error.code, message=error.message, data=[error.data, f'h{code}'])
        return h

    handlers = {None: [eh]}
    for i, p in enumerate(shape):
        if PROFILES[p][1] == 'rpc':
            handlers[rpc_code(i)] = [code_handler(rpc_code(i))]
    disp = make_dispatcher(via, middlewares=[mw_plain if plain_mw else mw], error_handlers=handlers, concurrent_batch=concurrent,
                           **({'response_class': OwnResponse} if rewrap else {}))

    def outcome(tok, what):
        if what == 'ok':
            return ['res', tok, ELEMENT.get()]          # read AFTER the method's suspension points
        if what == 'rpc':
            raise JsonRpcError(code=rpc_code(tok), message=f'e{tok}', data=tok)
        # (a TypeError from inside the body is an ordinary failure of the method, not of the call)
        raise (TypeError if (tok % 2 or what == 'texc') else ValueError)(f'Zq7_marker_{tok}')

    class View(pjrpc.server.ViewMixin):
        """a class-based view (registered without a context) that keeps request state on `self` across a suspension point:
        each request is served by its own instance"""

        async def vm(self, tok):
            self.tok = tok
            CUR['exec'].append(tok)
            if 'm0' in points[tok]:
                await CUR['sched'].point(tok, 'm0')
            return ['res', self.tok, ELEMENT.get()]

    if any(PROFILES[p][0] == 'view' for p in shape):
        disp.view(View)
    for i, p in enumerate(shape):
        kind, what, pts = PROFILES[p]
        if kind in ('view', 'unknown'):
            continue

        def make(i=i, kind=kind, what=what, pts=pts):
            if kind == 'plain':
                def m(tok):
                    CUR['exec'].append(tok)
                    return outcome(tok, what)
                return m

            async def am(tok):
                CUR['exec'].append(tok)
                for label in ('m0', 'm1'):
                    if label in pts:
                        await CUR['sched'].point(tok, label)
                return outcome(tok, what)
            if co is not None:
                m = disguise(am, CO_FLAVOURS[(co + i) % len(CO_FLAVOURS)])
                if not asyncio.iscoroutinefunction(m):
                    disguised.append(i)
                return m
            return am
        disp.add(make(), f'm{i}')
    reqs, want = [], []
    for i, p in enumerate(shape):
        kind, what, pts = PROFILES[p]
        r = {'jsonrpc': '2.0', 'method': 'vm' if kind == 'view' else (f'nope{i}' if kind == 'unknown' else f'm{i}'), 'params': [i]}
        if kind != 'notify':
            rid = [0, 'id1', -3, 4, '', 6][i]
            r['id'] = rid
            if what == 'ok':
                want.append({'jsonrpc': '2.0', 'id': rid, 'result': ['res', i, i]})
            elif what == 'nf':
                want.append({'jsonrpc': '2.0', 'id': rid, 'error': {'code': -32601}})
            elif what == 'rpc':
                want.append({'jsonrpc': '2.0', 'id': rid, 'error': {'code': rpc_code(i), 'message': f'e{i}', 'data': [i, f'h{rpc_code(i)}']}})
            else:
                want.append({'jsonrpc': '2.0', 'id': rid, 'error': {'code': -32000}})
        reqs.append(r)
    return disp, json.dumps(reqs), want, len(disguised)


def same_response(want, got):
    if len(want) != len(got):
        return False
    for w, g in zip(want, got):
        if not isinstance(g, dict) or not typed_eq(g.get('id'), w['id']):
            return False
        if 'result' in w:
            if 'result' not in g or not typed_eq(g['result'], w['result']):
                return False
        else:
            e = g.get('error')
            if not isinstance(e, dict) or e.get('code') != w['error']['code']:
                return False
            if 'message' in w['error'] and (e.get('message') != w['error']['message'] or e.get('data') != w['error']['data']):
                return False
    return True


CO_CLASS = '[methods-returning-a-coroutine-that-are-no-coroutine-functions]'


class _Control:
    """records the mechanisms of a control run, nothing else"""

    def __init__(self):
        self.violations, self.notes, self.exhaustive = {}, {}, {}

    def violation(self, mechanism, *a, **kw):
        self.violations.setdefault(mechanism, {'count': 0})['count'] += 1

    def hit(self, *a, **kw):
        pass
    ok = note = hit


def run_shape(ctx, shape, concurrent, plain_mw=False, via=None, rewrap=False, co=None):
    disp, text, want, disguised = build(shape, concurrent, plain_mw, via, rewrap, co)
    if disguised:
        ctx.hit('shapes-with-a-method-returning-a-coroutine-that-is-no-coroutine-function')
        for i, p in enumerate(shape):
            if PROFILES[p][0] in ('call', 'notify'):
                ctx.hit('coroutine-behind:' + CO_FLAVOURS[(co + i) % len(CO_FLAVOURS)])
        if not concurrent:
            ctx.hit('sequential-mode:method-returning-a-coroutine-that-is-no-coroutine-function')
    if rewrap:
        ctx.hit('own-response-class-and-a-middleware-building-plain-responses')
    if via:
        ctx.hit('dispatcher-from-the-aiohttp-integration')
    if len(shape) == 1:
        ctx.hit('elements:1')
    if plain_mw:
        ctx.hit('plain-callable-middleware')
    n = len(shape)
    prefix = []
    orders = set()
    found = []
    n_sched = 0
    flag = (('concurrent' if concurrent else 'sequential') + (':plain-mw' if plain_mw else '') + (':rewrap' if rewrap else '')
            + (':coroutine-returning-callables' if co is not None else ''))
    ctx.hit('shapes')
    if n == 4:
        ctx.hit('elements:4')
    if not concurrent:
        ctx.hit('sequential-mode-shapes')
    for p in shape:
        kind, what, pts = PROFILES[p]
        if kind == 'notify':
            ctx.hit('profile:notification')
        if kind == 'plain':
            ctx.hit('profile:plain-method')
        ctx.hit('profile:' + {'ok': 'ok', 'rpc': 'rpc-error', 'exc': 'exception', 'texc': 'exception', 'nf': 'unregistered-method'}[what])
        if kind == 'plain' and what == 'texc':
            ctx.hit('profile:plain-method-raising-TypeError')
        if kind == 'view':
            ctx.hit('profile:view-method')
    shape_desc = [list(PROFILES[p]) for p in shape]
    limit = 60000
    with warnings.catch_warnings(record=True) as caught:
        warnings.simplefilter('always')
        while prefix is not None and n_sched < limit:
            s = sched.Sched(prefix)
            CUR['sched'] = s
            CUR['exec'] = []
            problem, out = None, None
            try:
                out = world.run(s.drive(lambda: disp.dispatch(text)))
            except sched.Deadlock as e:
                problem = 'dispatch-waits-on-something-else:' + str(e)[:40]
            except Exception as e:
                problem = f'dispatch-raises:{type(e).__name__}'
            n_sched += 1
            trace = s.trace
            finish_order = tuple(e[1] for e in trace if e[0] == 'finish')
            start_order = [e[1] for e in trace if e[0] == 'start']
            for e in trace:
                if e[0] == 'park':
                    ctx.hit('points:method' if e[2] in ('m0', 'm1') else ('points:error-handler' if e[2] == 'eh' else 'points:middleware'))
            # in-flight intervals in logical time
            live, max_live = set(), 0
            for e in trace:
                if e[0] == 'start':
                    live.add(e[1])
                    max_live = max(max_live, len(live))
                elif e[0] == 'finish':
                    live.discard(e[1])
            cls = (tuple(shape), concurrent, plain_mw, via, finish_order) + (() if co is None else (co,))
            wit = dict(shape=shape_desc, concurrent_batch=concurrent, schedule=s.taken, request=text, returned=out,
                       **({} if co is None else {'methods_registered_as': [
                           CO_FLAVOURS[(co + i) % len(CO_FLAVOURS)] if PROFILES[p][0] in ('call', 'notify') else PROFILES[p][0]
                           for i, p in enumerate(shape)]}),
                       trace=[list(e) for e in trace][:80], executions=list(CUR['exec']))
            if problem is None:
                if s.parked or len(finish_order) != n:
                    problem = 'dispatch-returned-while-an-element-was-still-in-flight'
                elif sorted(CUR['exec']) != [i for i in range(n) if PROFILES[shape[i]][0] != 'unknown']:
                    problem = 'method-not-executed-exactly-once'
                else:
                    doc = None if out is None else strictjson.decode(out[0])
                    if not want:
                        if out is not None:
                            problem = 'response-for-all-notification-batch'
                    elif doc is None or not isinstance(doc, list):
                        problem = 'no-response-array'
                    elif not same_response(want, doc):
                        ids_w, ids_g = [w['id'] for w in want], [g.get('id') for g in doc if isinstance(g, dict)]
                        if sorted(map(repr, ids_w)) == sorted(map(repr, ids_g)) and ids_w != ids_g:
                            problem = 'response-array-not-in-request-order'
                        else:
                            problem = 'element-carries-another-elements-id-result-or-error'
                if problem is None and not concurrent:
                    if max_live > 1:
                        problem = 'sequential-mode:two-elements-in-flight'
                    elif start_order != list(range(n)):
                        problem = 'sequential-mode:elements-not-started-in-request-order'
            if s.parked:
                # clean up whatever the code under test left suspended
                for f in s.parked.values():
                    if not f.done():
                        f.cancel()
                world.run(asyncio.sleep(0))
            if problem and disguised:
                found.append((problem, cls, wit))
                if sum(1 for f in found if f[0] == problem) > 50:
                    break
            elif problem:
                ctx.violation(problem, f'{flag}:{n}-elements', cls, **wit)
                if ctx.violations[problem]['count'] > 50:
                    break
            else:
                if concurrent and max_live >= 2:
                    ctx.hit('max-in-flight>=2:concurrent')
                if finish_order and finish_order[0] == n - 1 and n > 1:
                    ctx.hit('last-element-finishes-first')
                orders.add(finish_order)
                ctx.ok(f'{flag}:{n}-elements', cls, sample=wit if (len(s.taken) >= 2 and finish_order != tuple(range(n))) else None)
            ctx.hit('schedules')
            prefix = sched.next_prefix(s.taken, s.branching)
    gc.collect()
    never = [w for w in caught if 'never awaited' in str(w.message)]
    if never:
        found.append(('coroutine-never-awaited', (tuple(shape), concurrent, 'warn'),
                      dict(shape=shape_desc, concurrent_batch=concurrent, warning=str(never[0].message))))
    if found and disguised:
        # attribution: the same shape with ordinary coroutine functions; what fails there as well is not due to the kind of callable
        control = _Control()
        run_shape(control, shape, concurrent, plain_mw, via, rewrap)
        found = [(problem if problem in control.violations else problem + CO_CLASS, c, w) for problem, c, w in found]
    for problem, c, w in found:
        ctx.violation(problem, f'{flag}:{n}-elements', c, **w)
    if len(orders) >= 2:
        ctx.hit('shapes-with>=2-completion-orders')
    if prefix is None:
        ctx.exhaustive[f'all-schedules-of-each-generated-shape'] = ctx.exhaustive.get('all-schedules-of-each-generated-shape', True)
    else:
        ctx.exhaustive['all-schedules-of-each-generated-shape'] = False
    ctx.note('max_schedules_in_one_shape', max(ctx.notes.get('max_schedules_in_one_shape', 0), n_sched))

# ---------------------------------------------------------------------------------------------------------------------
# batches whose elements carry NO params: parameterless methods with / without the server context, several batches in a row

# context names the methods are registered under (two different ones are drawn per case)
CTX_NAMES = ['session', 'ctx', 'request', 'context', 'user', 'app', 'state', 'env']
# (how the context is taken: None / 'kw0' / 'kw1' = by keyword under the first / second drawn name / 'pos' = positionally,
#  signature apart from the context: 'none' / 'default' = one parameter with a default, left out by the call /
#  'given' = one parameter the call supplies / 'missing' = one required parameter the call leaves out (-32602, never runs),
#  coroutine function or plain function, suspension point in the body)
MKINDS = [
    ('kw0', 'none', 'async', True), ('kw1', 'none', 'async', False), ('kw0', 'none', 'plain', False), (None, 'none', 'async', True),
    (None, 'none', 'plain', False), (None, 'given', 'async', True), ('kw0', 'default', 'async', False), (None, 'default', 'async', True),
    ('pos', 'none', 'async', True), ('kw1', 'given', 'async', False), (None, 'missing', 'async', False), ('kw1', 'none', 'async', True),
    (None, 'none', 'async', False), ('kw1', 'default', 'plain', False),
]
NOPARAMS_CLASS = '[batches-of-calls-without-params-to-methods-with-and-without-context]'


class Session:
    """the application context handed to dispatch(): one object per served batch"""

    def __init__(self, b):
        self.b = b
        self.tag = f'T{b}'


def build_noparams(methods, names, concurrent, ndisp, swap):
    """`ndisp` dispatchers (all validating with the library's default validator) holding one method per slot of `methods`;
    every dispatcher has function objects of its own"""
    disps = []
    for d in range(ndisp):
        async def mw(request, context, handler):
            e = CUR['labels'][context.b][request.method]
            s = CUR['sched']
            s.mark('start', e)
            ELEMENT.set(e)
            resp = await handler(request, context)
            s.mark('finish', e)
            return resp
        disp = pjrpc.server.AsyncDispatcher(middlewares=[mw], concurrent_batch=concurrent)
        nm = list(names) if not (swap and d % 2) else list(names)[::-1]
        for slot, k in enumerate(methods):
            cmode, sig, co, pt = MKINDS[k]
            name = f's{slot}'

            def make(name=name, cmode=cmode, sig=sig, co=co, pt=pt):
                def begin():
                    e = CUR['labels'][CUR['batch']][name]
                    CUR['exec'].append(e)
                    return e

                def result(e, c, x):
                    return ['res', e, getattr(c, 'tag', None), x, ELEMENT.get()]
                # the parameter list is spelled out per variant: the library looks at the real signature
                cname = {'kw0': nm[0], 'kw1': nm[1], 'pos': 'c', None: None}[cmode]
                params = ([cname] if cname else []) + {'none': [], 'default': ["x='dflt'"], 'given': ['x'], 'missing': ['x']}[sig]
                src = (f"{'async ' if co == 'async' else ''}def m({', '.join(params)}):\n"
                       f"    e = begin()\n"
                       + (f"    await point(e)\n" if pt and co == 'async' else '')
                       + f"    return result(e, {cname or 'None'}, {'x' if sig != 'none' else 'None'})\n")
                ns = {'begin': begin, 'result': result, 'point': lambda e: CUR['sched'].point(e, 'm0')}
                exec(src, ns)
                return ns['m'], cname
            m, cname = make()
            if cmode == 'pos':
                disp.add(m, name, context=cname, positional=True)
            elif cmode:
                disp.add(m, name, context=cname)
            else:
                disp.add(m, name)
        disps.append(disp)
    return disps


def run_noparams(ctx, methods, batches, concurrent, names, empty='absent', ndisp=1, swap=False):
    """batches = [[(slot, is_notification), ...], ...] served one after the other (batch b by dispatcher b % ndisp)"""
    disps = build_noparams(methods, names, concurrent, ndisp, swap)
    texts, wants, labels, runs = [], [], {}, []
    for b, batch in enumerate(batches):
        reqs, want, labels[b] = [], [], {}
        for i, (slot, notify) in enumerate(batch):
            cmode, sig, co, pt = MKINDS[methods[slot]]
            e = 10 * b + i
            labels[b][f's{slot}'] = e
            r = {'jsonrpc': '2.0', 'method': f's{slot}'}
            if sig == 'given':
                r['params'] = [f'x{e}'] if i % 2 else {'x': f'x{e}'}
            elif empty != 'absent':
                r['params'] = [] if empty == 'empty-array' else {}
            if sig != 'missing':
                runs.append(e)
            if not notify:
                r['id'] = rid = [0, 'id1', -3, 4][i] if b % 2 == 0 else ['', 7, 'z', 1][i]
                if sig == 'missing':
                    want.append({'jsonrpc': '2.0', 'id': rid, 'error': {'code': -32602}})
                else:
                    x = {'none': None, 'default': 'dflt', 'given': f'x{e}'}[sig]
                    want.append({'jsonrpc': '2.0', 'id': rid, 'result': ['res', e, f'T{b}' if cmode else None, x, e]})
            reqs.append(r)
            ctx.hit('no-params:' + ('context-by-keyword' if cmode in ('kw0', 'kw1') else 'context-positional' if cmode else 'no-context')
                    + ':' + {'none': 'parameterless', 'default': 'default-used', 'given': 'params-given', 'missing': 'required-missing'}[sig])
        texts.append(json.dumps(reqs))
        wants.append(want)
    all_labels = [e for b in range(len(batches)) for e in sorted(labels[b].values())]
    flag = ('concurrent' if concurrent else 'sequential') + f':no-params({empty})'
    fam = f'{flag}:{len(batches)}-batches-on-{ndisp}-dispatchers'
    ctx.hit('no-params-shapes')
    ctx.hit(f'no-params-shapes:params-{empty}')
    ctx.hit(f'no-params-shapes:{len(batches)}-batches')
    if ndisp > 1:
        ctx.hit('no-params-shapes:two-dispatchers-sharing-the-default-validator')
    if not concurrent:
        ctx.hit('no-params-shapes:sequential-mode')
    kinds = {MKINDS[methods[slot]][0] for batch in batches for slot, _ in batch
             if MKINDS[methods[slot]][1] in ('none', 'default')}
    if {'kw0', 'kw1'} <= kinds and None in kinds:
        ctx.hit('no-params-shapes:two-context-names-and-a-method-without-context')
    # order of service over the whole sequence: a parameterless keyword-context method, later a parameterless one that does not
    # take that name (same batch / a later batch / a later batch on the other dispatcher)
    seen = []
    for b, batch in enumerate(batches):
        for slot, _ in batch:
            cmode, sig = MKINDS[methods[slot]][:2]
            if sig not in ('none', 'default'):
                continue
            for cm0, b0 in seen:
                if cm0 in ('kw0', 'kw1') and cmode != cm0:
                    ctx.hit('no-params:keyword-context-method-then-one-not-taking-that-name:'
                            + ('same-batch' if b0 == b else 'later-batch-other-dispatcher' if (b - b0) % ndisp else 'later-batch'))
                    break
            seen.append((cmode, b))
    desc = dict(methods=[list(MKINDS[k]) for k in methods], context_names=list(names), batches=batches, concurrent_batch=concurrent,
                dispatchers=ndisp, params_member=empty, second_dispatcher_swaps_the_names=swap)

    async def serve(s):
        outs = []
        for b, text in enumerate(texts):
            CUR['batch'] = b
            outs.append(await disps[b % ndisp].dispatch(text, context=Session(b)))
            s.mark('returned', b)
        return outs

    prefix, n_sched, orders = [], 0, set()
    with warnings.catch_warnings(record=True) as caught:
        warnings.simplefilter('always')
        while prefix is not None and n_sched < 20000:
            s = sched.Sched(prefix)
            CUR['sched'], CUR['exec'], CUR['labels'] = s, [], labels
            problem, outs = None, None
            try:
                outs = world.run(s.drive(lambda: serve(s)))
            except sched.Deadlock as e:
                problem = 'dispatch-waits-on-something-else:' + str(e)[:40]
            except Exception as e:
                problem = f'dispatch-raises:{type(e).__name__}'
            n_sched += 1
            trace = s.trace
            for e in trace:
                if e[0] == 'park':
                    ctx.hit('points:method')
            start_order = [e[1] for e in trace if e[0] == 'start']
            finish_order = tuple(e[1] for e in trace if e[0] == 'finish')
            live, max_live, late = set(), 0, False
            for e in trace:
                if e[0] == 'start':
                    live.add(e[1])
                    max_live = max(max_live, len(live))
                elif e[0] == 'finish':
                    live.discard(e[1])
                elif e[0] == 'returned' and (live or sorted(x for x in finish_order if x // 10 == e[1]) != sorted(labels[e[1]].values())):
                    late = True
            wit = dict(desc, schedule=s.taken, requests=texts, returned=outs, trace=[list(e) for e in trace][:80],
                       executions=list(CUR['exec']))
            if problem is None:
                if s.parked or late:
                    problem = 'dispatch-returned-while-an-element-was-still-in-flight'
                elif sorted(CUR['exec']) != sorted(runs):
                    problem = 'method-not-executed-exactly-once'
                else:
                    for b, (want, out) in enumerate(zip(wants, outs)):
                        doc = None if out is None else strictjson.decode(out[0])
                        if not want:
                            if out is not None:
                                problem = 'response-for-all-notification-batch'
                        elif doc is None or not isinstance(doc, list):
                            problem = 'no-response-array'
                        elif not same_response(want, doc):
                            ids_w, ids_g = [w['id'] for w in want], [g.get('id') for g in doc if isinstance(g, dict)]
                            if sorted(map(repr, ids_w)) == sorted(map(repr, ids_g)) and ids_w != ids_g:
                                problem = 'response-array-not-in-request-order'
                            else:
                                problem = 'element-not-answered-with-its-own-result-or-error'
                        if problem:
                            wit['batch_number'] = b
                            wit['expected'] = want
                            break
                if problem is None and not concurrent:
                    if max_live > 1:
                        problem = 'sequential-mode:two-elements-in-flight'
                    elif start_order != all_labels:
                        problem = 'sequential-mode:elements-not-started-in-request-order'
            if s.parked:
                for f in s.parked.values():
                    if not f.done():
                        f.cancel()
                world.run(asyncio.sleep(0))
            cls = (tuple(methods), str(batches), concurrent, empty, ndisp, swap, finish_order)
            if problem:
                ctx.violation(problem + NOPARAMS_CLASS, fam, cls, **wit)
                if ctx.violations[problem + NOPARAMS_CLASS]['count'] > 50:
                    break
            else:
                if concurrent and max_live >= 2:
                    ctx.hit('max-in-flight>=2:concurrent')
                orders.add(finish_order)
                ctx.ok(fam, cls, sample=wit if len(s.taken) >= 2 and list(finish_order) != all_labels else None)
            ctx.hit('schedules')
            ctx.hit('no-params-schedules')
            prefix = sched.next_prefix(s.taken, s.branching)
    gc.collect()
    never = [w for w in caught if 'never awaited' in str(w.message)]
    if never:
        ctx.violation('coroutine-never-awaited' + NOPARAMS_CLASS, fam, (tuple(methods), str(batches), concurrent, 'warn'), **desc,
                      warning=str(never[0].message))
    if len(orders) >= 2:
        ctx.hit('no-params-shapes-with>=2-completion-orders')
    ctx.exhaustive['all-schedules-of-each-generated-shape'] = (ctx.exhaustive.get('all-schedules-of-each-generated-shape', True)
                                                               and prefix is None)
    ctx.note('max_schedules_in_one_shape', max(ctx.notes.get('max_schedules_in_one_shape', 0), n_sched))


def gen(ctx):
    rng = ctx.rng
    full = ctx.thorough
    P = range(len(PROFILES))
    shapes = [[p] for p in P] + [list(s) for s in itertools.product(P, repeat=2)]
    three = [list(s) for s in itertools.product(P, repeat=3)]
    four = [list(s) for s in itertools.product(P, repeat=4)]
    if full:
        shapes += three + rng.sample(four, 2500)
        light = [0, 1, 5, 6, 8, 9, 10, 11, 12, 13]      # profiles with <= 1 suspension point
        shapes += [[rng.choice(light) for _ in range(5)] for _ in range(150)]
    else:
        shapes += three
        shapes += [[1, 1, 1, 1], [2, 1, 0, 6], [4, 8, 1, 7]] + rng.sample(four, 40)
    # a few fixed heavy shapes: 4 elements x 2 points
    if full:
        shapes += [[2, 2, 2, 2], [3, 3, 2, 4], [7, 4, 3, 2]]
    for shape in shapes:
        yield 'shape', {'shape': shape, 'concurrent': True}
        if full or len(shape) <= 3 or rng.random() < 0.5:
            yield 'shape', {'shape': shape, 'concurrent': False}
        if len(shape) <= 2 or rng.random() < (0.5 if full else 0.15):
            yield 'shape', {'shape': shape, 'concurrent': False, 'plain_mw': True}
            yield 'shape', {'shape': shape, 'concurrent': True, 'plain_mw': True}
        if len(shape) <= 2 or rng.random() < (0.3 if full else 0.1):
            yield 'shape', {'shape': shape, 'concurrent': True, 'rewrap': True}
            yield 'shape', {'shape': shape, 'concurrent': False, 'rewrap': True}
        if len(shape) == 2 or rng.random() < (0.3 if full else 0.08):
            for via in ('aiohttp-app', 'aiohttp-endpoint'):
                yield 'shape', {'shape': shape, 'concurrent': False, 'via': via}
                yield 'shape', {'shape': shape, 'concurrent': True, 'via': via}
    # the coroutine bodies of the shape handed over as callables that are no coroutine functions (rotating flavours, mixed with
    # ordinary coroutine functions), both batch modes
    coro = [s for s in shapes if any(PROFILES[p][0] in ('call', 'notify') for p in s)]
    small = [s for s in coro if len(s) <= 2]
    for shape in small + rng.sample([s for s in coro if len(s) == 3], 1200 if full else 140) + \
            rng.sample([s for s in coro if len(s) >= 4], 300 if full else 6):
        k = rng.randrange(len(CO_FLAVOURS))
        for concurrent in (True, False):
            yield 'shape', {'shape': shape, 'concurrent': concurrent, 'co': k}
        if rng.random() < 0.1:
            yield 'shape', {'shape': shape, 'concurrent': rng.random() < 0.5, 'co': (k + 3) % len(CO_FLAVOURS), 'plain_mw': True}
    # calls without params to parameterless methods with / without context, several batches in a row
    fact = [1, 1, 2, 6, 24]
    made = 0
    while made < (1500 if full else 240):
        methods = rng.sample(range(len(MKINDS)), rng.randint(3, 5))
        nb = rng.choice([1, 2, 2, 3])
        batches, cost = [], 1
        for _ in range(nb):
            slots = rng.sample(range(len(methods)), rng.randint(2, min(4, len(methods))))
            batches.append([[slot, int(rng.random() < 0.15)] for slot in slots])
            cost *= fact[sum(1 for slot in slots if MKINDS[methods[slot]][3])]
        if cost > (1500 if full else 100):
            continue
        made += 1
        args = {'methods': methods, 'batches': batches, 'names': rng.sample(CTX_NAMES, 2),
                'empty': rng.choice(['absent', 'absent', 'empty-array', 'empty-object']), 'ndisp': rng.choice([1, 1, 2]),
                'swap': rng.random() < 0.5}
        yield 'noparams', dict(args, concurrent=True)
        yield 'noparams', dict(args, concurrent=False)


KINDS = {'shape': run_shape, 'noparams': run_noparams}
