"""C10 - concurrent batches cannot mix up responses; sequential mode is sequential.

Every interleaving of the element handlers at their real suspension points is produced by the controlled scheduler
(vmon/sched.py) and judged against the schedule-independent expected response array."""
from __future__ import annotations

import asyncio
import contextvars
import gc
import itertools
import json
import warnings

import pjrpc
import pjrpc.server
from pjrpc.common.exceptions import JsonRpcError
from pjrpc.common import v20

from .. import sched, strictjson, world
from ..strictjson import typed_eq

PID = 'C10'
LEVEL = 'exploration'
EXHAUSTIVE_OVERALL = False
RULE = ('one case = one batch shape (2..4 elements, each with one of 13 profiles: call / notification / plain non-coroutine '
        'method x succeeds / raises protocol error / raises arbitrary exception x 0..2 suspension points in method, middleware '
        '(before / after the inner handler) or error handler) x concurrent_batch on / off; for each shape ALL schedules '
        '(sequences of "which parked coroutine resumes next") are enumerated by stateless DFS re-execution of the real '
        'AsyncDispatcher.dispatch. One evaluation = one schedule. Per schedule: response array in request order with own ids '
        'and own results / errors, each method executed exactly once, every element finished when dispatch returns, no '
        'never-awaited coroutine; with concurrent_batch off additionally no two elements in flight at once and starts in '
        'request order. Distinct = distinct (shape, flag, completion order of the elements).')
ASSUMPTIONS = [
    'suspension points are those of user code (methods, middlewares, error handlers); the library itself only awaits them',
    'in-flight = between the entry of the outermost middleware for an element and its exit (logical time from the trace)',
]
SHARDS = {'quick': 8, 'thorough': 16}
TIMEOUT = {'quick': 600, 'thorough': 3000}
ANCHORS = [
    ('pjrpc/server/dispatcher.py', 'AsyncDispatcher.dispatch'),
    ('pjrpc/server/dispatcher.py', 'AsyncDispatcher._handle_request'),
    ('pjrpc/server/dispatcher.py', 'AsyncDispatcher._handle_rpc_request'),
    ('pjrpc/server/dispatcher.py', 'AsyncDispatcher._handle_rpc_method'),
]
FLOORS = {'*': {'schedules': 12000, 'shapes': 1000, 'shapes-with>=2-completion-orders': 80, 'last-element-finishes-first': 50,
                'max-in-flight>=2:concurrent': 200, 'sequential-mode-shapes': 60, 'points:method': 500, 'points:middleware': 500,
                'points:error-handler': 200, 'profile:notification': 100, 'profile:plain-method': 100, 'profile:rpc-error': 100,
                'profile:exception': 100, 'profile:plain-method-raising-TypeError': 50, 'profile:view-method': 50, 'profile:unregistered-method': 100, 'own-response-class-and-a-middleware-building-plain-responses': 200, 'elements:4': 2, 'plain-callable-middleware': 100, 'elements:1': 20,
                'dispatcher-from-the-aiohttp-integration': 300}}

# (kind, outcome, points)
PROFILES = [
    ('call', 'ok', []), ('call', 'ok', ['m0']), ('call', 'ok', ['m0', 'm1']), ('call', 'ok', ['mw-pre', 'mw-post']),
    ('call', 'rpc', ['m0', 'eh']), ('call', 'exc', ['eh']), ('notify', 'ok', ['m0']), ('notify', 'exc', ['mw-pre', 'eh']),
    ('plain', 'ok', ['mw-post']), ('call', 'rpc', ['m0']), ('plain', 'ok', []), ('plain', 'texc', ['eh']),
    ('view', 'ok', ['m0']),
    ('unknown', 'nf', ['eh']),         # a call of a method nobody registered: answered in its place like any other element
]

CUR = {'sched': None, 'exec': [], 'points': {}}
# what the outermost middleware stores for "its" element (the tracing-scope pattern): every element runs in a context of its own
ELEMENT = contextvars.ContextVar('vmon_c10_element', default='unset')


def rpc_code(i):
    # application codes, and the two codes the library itself only ever uses for whole documents
    return {1: -32600, 3: -32700}.get(i, 3000 + i)


def make_dispatcher(via, **kwargs):
    """the AsyncDispatcher under test, built directly or handed out by the aiohttp integration (same keyword arguments)"""
    if via == 'aiohttp-app':
        import aiohttp.web
        from pjrpc.server.integration import aiohttp as integ
        return integ.Application('/rpc', app=aiohttp.web.Application(), **kwargs).dispatcher
    if via == 'aiohttp-endpoint':
        import aiohttp.web
        from pjrpc.server.integration import aiohttp as integ
        # (the application's own dispatcher is explicitly configured the other way round: that is ITS configuration)
        return integ.Application('/rpc', app=aiohttp.web.Application(), concurrent_batch=not kwargs.get('concurrent_batch', True),
                                 max_batch_size=1).add_endpoint('/sub', **kwargs)
    return pjrpc.server.AsyncDispatcher(**kwargs)


class OwnResponse(v20.Response):
    """the dispatcher is configured with its own response class; a middleware may still answer with a plain Response"""


def build(shape, concurrent, plain_mw=False, via=None, rewrap=False):
    points = {i: set(PROFILES[p][2]) for i, p in enumerate(shape)}

    def envelope(resp):
        # rewrap: the middleware hands back a NEWLY BUILT plain response object carrying the same id and result
        if rewrap and isinstance(resp, v20.Response) and resp.is_success:
            return v20.Response(id=resp.id, result=resp.result)
        return resp

    def mw_plain(request, context, handler):
        # AsyncMiddlewareType only asks for a callable returning an awaitable: the synchronous part runs at call time
        e = request.params[0]
        s = CUR['sched']
        s.mark('start', e)

        async def rest():
            ELEMENT.set(e)      # (inside the awaitable: the synchronous part runs in the caller's context, before any task exists)
            if 'mw-pre' in points[e]:
                await s.point(e, 'mw-pre')
            resp = envelope(await handler(request, context))
            if 'mw-post' in points[e]:
                await s.point(e, 'mw-post')
            s.mark('finish', e)
            return resp
        return rest()

    async def mw(request, context, handler):
        e = request.params[0]
        s = CUR['sched']
        s.mark('start', e)
        ELEMENT.set(e)
        if 'mw-pre' in points[e]:
            await s.point(e, 'mw-pre')
        resp = envelope(await handler(request, context))
        if 'mw-post' in points[e]:
            await s.point(e, 'mw-post')
        s.mark('finish', e)
        return resp

    async def eh(request, context, error):
        e = request.params[0]
        if 'eh' in points[e]:
            await CUR['sched'].point(e, 'eh')
        return error

    def code_handler(code):
        # a per-code handler that signs the error it was given; an element must only ever meet the handlers of ITS code
        async def h(request, context, error):
            return JsonRpcError(code=error.code, message=error.message, data=[error.data, f'h{code}'])
        return h

    handlers = {None: [eh]}
    for i, p in enumerate(shape):
        if PROFILES[p][1] == 'rpc':
            handlers[rpc_code(i)] = [code_handler(rpc_code(i))]
    disp = make_dispatcher(via, middlewares=[mw_plain if plain_mw else mw], error_handlers=handlers, concurrent_batch=concurrent,
                           **({'response_class': OwnResponse} if rewrap else {}))

    def outcome(tok, what):
        if what == 'ok':
            return ['res', tok, ELEMENT.get()]          # read AFTER the method's suspension points
        if what == 'rpc':
            raise JsonRpcError(code=rpc_code(tok), message=f'e{tok}', data=tok)
        # (a TypeError from inside the body is an ordinary failure of the method, not of the call)
        raise (TypeError if (tok % 2 or what == 'texc') else ValueError)(f'Zq7_marker_{tok}')

    class View(pjrpc.server.ViewMixin):
        """a class-based view (registered without a context) that keeps request state on `self` across a suspension point:
        each request is served by its own instance"""

        async def vm(self, tok):
            self.tok = tok
            CUR['exec'].append(tok)
            if 'm0' in points[tok]:
                await CUR['sched'].point(tok, 'm0')
            return ['res', self.tok, ELEMENT.get()]

    if any(PROFILES[p][0] == 'view' for p in shape):
        disp.view(View)
    for i, p in enumerate(shape):
        kind, what, pts = PROFILES[p]
        if kind in ('view', 'unknown'):
            continue

        def make(i=i, kind=kind, what=what, pts=pts):
            if kind == 'plain':
                def m(tok):
                    CUR['exec'].append(tok)
                    return outcome(tok, what)
                return m

            async def am(tok):
                CUR['exec'].append(tok)
                for label in ('m0', 'm1'):
                    if label in pts:
                        await CUR['sched'].point(tok, label)
                return outcome(tok, what)
            return am
        disp.add(make(), f'm{i}')
    reqs, want = [], []
    for i, p in enumerate(shape):
        kind, what, pts = PROFILES[p]
        r = {'jsonrpc': '2.0', 'method': 'vm' if kind == 'view' else (f'nope{i}' if kind == 'unknown' else f'm{i}'), 'params': [i]}
        if kind != 'notify':
            rid = [0, 'id1', -3, 4, '', 6][i]
            r['id'] = rid
            if what == 'ok':
                want.append({'jsonrpc': '2.0', 'id': rid, 'result': ['res', i, i]})
            elif what == 'nf':
                want.append({'jsonrpc': '2.0', 'id': rid, 'error': {'code': -32601}})
            elif what == 'rpc':
                want.append({'jsonrpc': '2.0', 'id': rid, 'error': {'code': rpc_code(i), 'message': f'e{i}', 'data': [i, f'h{rpc_code(i)}']}})
            else:
                want.append({'jsonrpc': '2.0', 'id': rid, 'error': {'code': -32000}})
        reqs.append(r)
    return disp, json.dumps(reqs), want


def same_response(want, got):
    if len(want) != len(got):
        return False
    for w, g in zip(want, got):
        if not isinstance(g, dict) or not typed_eq(g.get('id'), w['id']):
            return False
        if 'result' in w:
            if 'result' not in g or not typed_eq(g['result'], w['result']):
                return False
        else:
            e = g.get('error')
            if not isinstance(e, dict) or e.get('code') != w['error']['code']:
                return False
            if 'message' in w['error'] and (e.get('message') != w['error']['message'] or e.get('data') != w['error']['data']):
                return False
    return True


def run_shape(ctx, shape, concurrent, plain_mw=False, via=None, rewrap=False):
    disp, text, want = build(shape, concurrent, plain_mw, via, rewrap)
    if rewrap:
        ctx.hit('own-response-class-and-a-middleware-building-plain-responses')
    if via:
        ctx.hit('dispatcher-from-the-aiohttp-integration')
    if len(shape) == 1:
        ctx.hit('elements:1')
    if plain_mw:
        ctx.hit('plain-callable-middleware')
    n = len(shape)
    prefix = []
    orders = set()
    n_sched = 0
    flag = ('concurrent' if concurrent else 'sequential') + (':plain-mw' if plain_mw else '') + (':rewrap' if rewrap else '')
    ctx.hit('shapes')
    if n == 4:
        ctx.hit('elements:4')
    if not concurrent:
        ctx.hit('sequential-mode-shapes')
    for p in shape:
        kind, what, pts = PROFILES[p]
        if kind == 'notify':
            ctx.hit('profile:notification')
        if kind == 'plain':
            ctx.hit('profile:plain-method')
        ctx.hit('profile:' + {'ok': 'ok', 'rpc': 'rpc-error', 'exc': 'exception', 'texc': 'exception', 'nf': 'unregistered-method'}[what])
        if kind == 'plain' and what == 'texc':
            ctx.hit('profile:plain-method-raising-TypeError')
        if kind == 'view':
            ctx.hit('profile:view-method')
    shape_desc = [list(PROFILES[p]) for p in shape]
    limit = 60000
    with warnings.catch_warnings(record=True) as caught:
        warnings.simplefilter('always')
        while prefix is not None and n_sched < limit:
            s = sched.Sched(prefix)
            CUR['sched'] = s
            CUR['exec'] = []
            problem, out = None, None
            try:
                out = world.run(s.drive(lambda: disp.dispatch(text)))
            except sched.Deadlock as e:
                problem = 'dispatch-waits-on-something-else:' + str(e)[:40]
            except Exception as e:
                problem = f'dispatch-raises:{type(e).__name__}'
            n_sched += 1
            trace = s.trace
            finish_order = tuple(e[1] for e in trace if e[0] == 'finish')
            start_order = [e[1] for e in trace if e[0] == 'start']
            for e in trace:
                if e[0] == 'park':
                    ctx.hit('points:method' if e[2] in ('m0', 'm1') else ('points:error-handler' if e[2] == 'eh' else 'points:middleware'))
            # in-flight intervals in logical time
            live, max_live = set(), 0
            for e in trace:
                if e[0] == 'start':
                    live.add(e[1])
                    max_live = max(max_live, len(live))
                elif e[0] == 'finish':
                    live.discard(e[1])
            cls = (tuple(shape), concurrent, plain_mw, via, finish_order)
            wit = dict(shape=shape_desc, concurrent_batch=concurrent, schedule=s.taken, request=text, returned=out,
                       trace=[list(e) for e in trace][:80], executions=list(CUR['exec']))
            if problem is None:
                if s.parked or len(finish_order) != n:
                    problem = 'dispatch-returned-while-an-element-was-still-in-flight'
                elif sorted(CUR['exec']) != [i for i in range(n) if PROFILES[shape[i]][0] != 'unknown']:
                    problem = 'method-not-executed-exactly-once'
                else:
                    doc = None if out is None else strictjson.decode(out[0])
                    if not want:
                        if out is not None:
                            problem = 'response-for-all-notification-batch'
                    elif doc is None or not isinstance(doc, list):
                        problem = 'no-response-array'
                    elif not same_response(want, doc):
                        ids_w, ids_g = [w['id'] for w in want], [g.get('id') for g in doc if isinstance(g, dict)]
                        if sorted(map(repr, ids_w)) == sorted(map(repr, ids_g)) and ids_w != ids_g:
                            problem = 'response-array-not-in-request-order'
                        else:
                            problem = 'element-carries-another-elements-id-result-or-error'
                if problem is None and not concurrent:
                    if max_live > 1:
                        problem = 'sequential-mode:two-elements-in-flight'
                    elif start_order != list(range(n)):
                        problem = 'sequential-mode:elements-not-started-in-request-order'
            if s.parked:
                # clean up whatever the code under test left suspended
                for f in s.parked.values():
                    if not f.done():
                        f.cancel()
                world.run(asyncio.sleep(0))
            if problem:
                ctx.violation(problem, f'{flag}:{n}-elements', cls, **wit)
                if ctx.violations[problem]['count'] > 50:
                    break
            else:
                if concurrent and max_live >= 2:
                    ctx.hit('max-in-flight>=2:concurrent')
                if finish_order and finish_order[0] == n - 1 and n > 1:
                    ctx.hit('last-element-finishes-first')
                orders.add(finish_order)
                ctx.ok(f'{flag}:{n}-elements', cls, sample=wit if (len(s.taken) >= 2 and finish_order != tuple(range(n))) else None)
            ctx.hit('schedules')
            prefix = sched.next_prefix(s.taken, s.branching)
    gc.collect()
    never = [w for w in caught if 'never awaited' in str(w.message)]
    if never:
        ctx.violation('coroutine-never-awaited', f'{flag}:{n}-elements', (tuple(shape), concurrent, 'warn'),
                      shape=shape_desc, concurrent_batch=concurrent, warning=str(never[0].message))
    if len(orders) >= 2:
        ctx.hit('shapes-with>=2-completion-orders')
    if prefix is None:
        ctx.exhaustive[f'all-schedules-of-each-generated-shape'] = ctx.exhaustive.get('all-schedules-of-each-generated-shape', True)
    else:
        ctx.exhaustive['all-schedules-of-each-generated-shape'] = False
    ctx.note('max_schedules_in_one_shape', max(ctx.notes.get('max_schedules_in_one_shape', 0), n_sched))


def gen(ctx):
    rng = ctx.rng
    full = ctx.thorough
    P = range(len(PROFILES))
    shapes = [[p] for p in P] + [list(s) for s in itertools.product(P, repeat=2)]
    three = [list(s) for s in itertools.product(P, repeat=3)]
    four = [list(s) for s in itertools.product(P, repeat=4)]
    if full:
        shapes += three + rng.sample(four, 2500)
        light = [0, 1, 5, 6, 8, 9, 10, 11, 12, 13]      # profiles with <= 1 suspension point
        shapes += [[rng.choice(light) for _ in range(5)] for _ in range(150)]
    else:
        shapes += three
        shapes += [[1, 1, 1, 1], [2, 1, 0, 6], [4, 8, 1, 7]] + rng.sample(four, 40)
    # a few fixed heavy shapes: 4 elements x 2 points
    if full:
        shapes += [[2, 2, 2, 2], [3, 3, 2, 4], [7, 4, 3, 2]]
    for shape in shapes:
        yield 'shape', {'shape': shape, 'concurrent': True}
        if full or len(shape) <= 3 or rng.random() < 0.5:
            yield 'shape', {'shape': shape, 'concurrent': False}
        if len(shape) <= 2 or rng.random() < (0.5 if full else 0.15):
            yield 'shape', {'shape': shape, 'concurrent': False, 'plain_mw': True}
            yield 'shape', {'shape': shape, 'concurrent': True, 'plain_mw': True}
        if len(shape) <= 2 or rng.random() < (0.3 if full else 0.1):
            yield 'shape', {'shape': shape, 'concurrent': True, 'rewrap': True}
            yield 'shape', {'shape': shape, 'concurrent': False, 'rewrap': True}
        if len(shape) == 2 or rng.random() < (0.3 if full else 0.08):
            for via in ('aiohttp-app', 'aiohttp-endpoint'):
                yield 'shape', {'shape': shape, 'concurrent': False, 'via': via}
                yield 'shape', {'shape': shape, 'concurrent': True, 'via': via}


KINDS = {'shape': run_shape}
