"""C06 - deserialisation is strict and total: only DeserializationError (IdentityError for duplicate ids) escapes,
structurally invalid messages are never accepted, a failed append/extend leaves the batch unchanged."""
from __future__ import annotations

import itertools

import pjrpc
from pjrpc.common import v20
from pjrpc.common.exceptions import DeserializationError, IdentityError, JsonRpcError

from ..strictjson import typed_eq

PID = 'C06'
LEVEL = 'exploration'
EXHAUSTIVE_OVERALL = False
RULE = ('cases: (1) Request.from_json over the full product of a 16-value alphabet for each of jsonrpc/id/method/params '
        '(65 536 objects, walked completely in both tiers); (2) JsonRpcError.from_json over 16^3 error objects, alone and '
        'embedded in an otherwise valid response; (3) Response.from_json over jsonrpc x id x result x error with 18 error '
        'shapes; (4) non-object inputs; (5) BatchRequest / BatchResponse.from_json over all arrays of <= 3 (quick 2..3) '
        'elements from 12 element shapes and batch-level error objects, incl. null-id / id-less objects carrying an error (9 shapes) '
        'AND a result (19 values of every JSON type) through the default and 6 error_cls routes; (6) all append/extend histories of <= 4 operations '
        'over ids {1,"1",2,0,"",None} on strict and non-strict batches - extend given its messages as a list (every history) and '
        'as tuple / dict view / generator expression / iter() / map() / itertools.chain (every history of <= 2 operations, a '
        'eighth of those of 3 in quick and all in thorough, the sampled longer ones in rotation) - compared with a list model through the public API '
        'after every operation; (7) additional members (29 names: what servers add, member names of the other message kinds, '
        'names Python gives a meaning, near misses; 6 values; pairs) added to 35 otherwise valid / otherwise invalid error '
        'objects, request and response envelopes and batch-level error envelopes, through every from_json entry point incl. '
        'error_cls / subclass routes and as batch elements. Oracle: vmon/models/wire.py validity predicates + exception type. A case is distinct by '
        '(message kind, input value / history); non-trivial = not accepted-and-valid.')
ASSUMPTIONS = [
    'rejecting a structurally valid message is not judged here (C05 / C02 judge acceptance)',
    'fractional-number ids: the statement says pjrpc admits integers only; accepting or rejecting a float id is not judged',
    'an empty array is judged for batch *requests* only (the statement names only those)',
    'additional members (any name other than the message kind\'s own) are not in the statement\'s list of what is never accepted: '
    'accepting or refusing an otherwise valid object that carries them is not judged; no foreign exception type and "otherwise '
    'invalid stays refused" are',
]
SHARDS = {'quick': 8, 'thorough': 16}
TIMEOUT = {'quick': 900, 'thorough': 3600}
ANCHORS = [
    ('pjrpc/common/v20.py', 'Request.from_json'),
    ('pjrpc/common/v20.py', 'Response.from_json'),
    ('pjrpc/common/v20.py', 'BatchRequest.from_json'),
    ('pjrpc/common/v20.py', 'BatchResponse.from_json'),
    ('pjrpc/common/v20.py', 'BatchRequest._add_ids'),
    ('pjrpc/common/v20.py', 'BatchResponse._add_ids'),
    ('pjrpc/common/v20.py', 'BatchRequest.append'),
    ('pjrpc/common/v20.py', 'BatchRequest.extend'),
    ('pjrpc/common/v20.py', 'BatchResponse.append'),
    ('pjrpc/common/v20.py', 'BatchResponse.extend'),
    ('pjrpc/common/exceptions.py', 'JsonRpcError.from_json'),
]
FLOORS = {'*': {'error:deserialised-through-a-library-error-class': 300,
                
    'request:accepted': 100, 'request:rejected': 1000, 'response:accepted': 100, 'response:rejected': 1000,
    'error:accepted': 50, 'error:rejected': 500, 'batch-request:accepted': 20, 'batch-request:rejected': 50,
    'batch-response:accepted': 20, 'batch-response:rejected': 50, 'batch:identity-error': 10,
    'history:failed-op': 200, 'error:registered-code': 7, 'deep-payloads': 50, 'history:ops': 2000, 'nonobject': 20, 'ambient:batch-invariant': 1000,
    'extend-given-as:one-shot': 50000, 'extend-given-as:re-iterable': 200000,
    'batch-level:both-result-and-error': 2000, 'batch-level:both-result-and-error:null-or-falsy-result': 500,
    'additional-members:error': 1500, 'additional-members:request': 1000, 'additional-members:response': 1000, 'additional-members:batch-level': 400,
}}

A = '__absent__'
ALPHA = [A, None, False, True, 0, 1, -1, 1.0, 1.5, '', 'x', '2.0', [], [1], {}, {'a': 1}]
GOOD_ERR = {'code': 5, 'message': 'm'}
ERR_SHAPES = [A, None, 0, 'x', [], {}, GOOD_ERR, {'code': 5, 'message': 'm', 'data': None}, {'code': 0, 'message': 'm'},
              {'code': 5, 'message': ''}, {'code': True, 'message': 'm'}, {'code': 1.0, 'message': 'm'}, {'code': '5', 'message': 'm'},
              {'message': 'm'}, {'code': 5}, {'code': 5, 'message': None}, {'code': -32601, 'message': 'Method not found', 'data': []},
              {'code': 0, 'message': ''}, {'code': -32601}, {'code': -32000, 'data': 1}, {'code': -32700, 'message': None},
              {'code': 76001}]


def setup(ctx):
    # the icontract invariants cost ~5x on this workload: one shard runs under them
    if ctx.shard == 0:
        from .. import ambient
        ambient.install()


def finish(ctx):
    from .. import ambient
    rep = ambient.REPORT
    ctx.hit('ambient:batch-invariant', rep['evaluations'].get('batch-invariant', 0))
    ctx.note('ambient', {'evaluations': rep['evaluations'], 'icontract': rep['icontract']})
    ctx.current = ('ambient', {})
    for v in rep['violations']:
        ctx.violation(f"ambient:{v['contract']}:{v.get('what', '')[:60]}", 'ambient', (v['contract'], v.get('what')), **v)


def build(**members):
    return {k: v for k, v in members.items() if not (isinstance(v, str) and v == A)}


# ---- validity model (what must never be accepted) -----------------------------------------------------

def id_verdict(obj):
    """'ok', 'bad' or 'open' (float ids: not judged)."""
    if 'id' not in obj:
        return 'ok'
    i = obj['id']
    if i is None or isinstance(i, str):
        return 'ok'
    if isinstance(i, bool):
        return 'bad'
    if isinstance(i, int):
        return 'ok'
    if isinstance(i, float):
        return 'open'
    return 'bad'


def request_invalid(obj):
    if not isinstance(obj, dict):
        return 'not-object'
    if not (isinstance(obj.get('jsonrpc', 0), str) and obj.get('jsonrpc') == '2.0'):
        return 'version'
    if not isinstance(obj.get('method', 0), str):
        return 'method'
    if 'params' in obj and not isinstance(obj['params'], (list, dict)):
        return 'params'
    v = id_verdict(obj)
    return 'id' if v == 'bad' else ('open' if v == 'open' else None)


def error_invalid(e):
    if not isinstance(e, dict):
        return 'error-not-object'
    c = e.get('code', A)
    if isinstance(c, bool) or not isinstance(c, int):
        return 'error-code'
    if not isinstance(e.get('message', 0), str):
        return 'error-message'
    return None


def response_invalid(obj):
    if not isinstance(obj, dict):
        return 'not-object'
    if not (isinstance(obj.get('jsonrpc', 0), str) and obj.get('jsonrpc') == '2.0'):
        return 'version'
    v = id_verdict(obj)
    if v == 'bad':
        return 'id'
    has_r, has_e = 'result' in obj, 'error' in obj
    if has_r and has_e:
        return 'both-result-and-error'
    if not has_r and not has_e:
        return 'neither-result-nor-error'
    if has_e:
        r = error_invalid(obj['error'])
        if r:
            return r
    return 'open' if v == 'open' else None


def call(fn, *args, **kw):
    try:
        return 'ret', fn(*args, **kw)
    except DeserializationError as e:
        return 'deser', e
    except IdentityError as e:
        return 'identity', e
    except BaseException as e:
        if isinstance(e, (KeyboardInterrupt, SystemExit)):
            raise
        return 'other', e


def judge(ctx, kind, value, invalid, status, out, allow_identity=False, suffix=''):
    """Common verdict for one from_json evaluation. `suffix` names the input class in the mechanism key."""
    cls = (kind, repr(value))
    if status == 'other':
        ctx.violation(f'{kind}.from_json-raises:{type(out).__name__}{suffix}', kind, cls, input=value, exception=out,
                      model_verdict=invalid or 'valid')
        return
    if status == 'identity' and not allow_identity:
        ctx.violation(f'{kind}.from_json-raises:IdentityError-outside-batch{suffix}', kind, cls, input=value, exception=out)
        return
    if status == 'ret':
        ctx.hit(f'{kind}:accepted')
        if invalid and invalid != 'open':
            ctx.violation(f'{kind}-accepted-invalid:{invalid}{suffix}', kind, cls, input=value, accepted_as=repr(out))
            return
        ctx.ok(kind + ':accepted', cls, sample={'kind': kind, 'input': value, 'outcome': 'accepted ' + repr(out)})
    else:
        ctx.hit(f'{kind}:rejected')
        if not invalid:
            ctx.unjudge(f'{kind}:valid-but-rejected')
        ctx.ok(kind + ':rejected:' + str(invalid), cls, sample={'kind': kind, 'input': value, 'outcome': repr(out)})


# ---- case kinds -----------------------------------------------------------------------------------

def run_request_block(ctx, jsonrpc_i):
    j = ALPHA[jsonrpc_i]
    for i, m, p in itertools.product(ALPHA, ALPHA, ALPHA):
        obj = build(jsonrpc=j, id=i, method=m, params=p)
        status, out = call(v20.Request.from_json, obj)
        judge(ctx, 'request', obj, request_invalid(obj), status, out)
    ctx.exhaustive['request-product-16^4'] = True


# codes for which the library knows a class with a class-level message (and one the harness registers): whatever the
# class provides, the wire object needs its own message member
class C6Typed(JsonRpcError):
    code = 76001
    message = 'c6 typed'


REGISTERED_CODES = [-32700, -32600, -32601, -32602, -32603, -32000, 76001]
ERROR_BASES = [pjrpc.exceptions.ServerError, pjrpc.exceptions.MethodNotFoundError, pjrpc.exceptions.InvalidParamsError,
               pjrpc.exceptions.InternalError, pjrpc.exceptions.ParseError]


def run_error_block(ctx, code_i):
    c = ALPHA[code_i] if code_i < len(ALPHA) else REGISTERED_CODES[code_i - len(ALPHA)]
    if code_i >= len(ALPHA):
        ctx.hit('error:registered-code')
    for m, d in itertools.product(ALPHA, ALPHA):
        obj = build(code=c, message=m, data=d)
        status, out = call(JsonRpcError.from_json, obj)
        judge(ctx, 'error', obj, error_invalid(obj), status, out)
        resp = {'jsonrpc': '2.0', 'id': 1, 'error': obj}
        status, out = call(v20.Response.from_json, resp)
        judge(ctx, 'response', resp, response_invalid(resp), status, out)
        if m in ('m', '', A) and d in (A, None):
            # the same through the existing `error_cls=` option / classmethod of the library's own error classes: the base class
            # the caller names decides what unregistered codes become, never whether the object is acceptable
            for ecls in ERROR_BASES:
                ctx.hit('error:deserialised-through-a-library-error-class')
                status, out = call(ecls.from_json, obj)
                judge(ctx, 'error', obj, error_invalid(obj), status, out)
                status, out = call(v20.Response.from_json, resp, error_cls=ecls)
                judge(ctx, 'response', resp, response_invalid(resp), status, out)
                status, out = call(v20.BatchResponse.from_json, [resp], error_cls=ecls)
                judge(ctx, 'batch-response', [resp], response_invalid(resp), status, out, allow_identity=True)
    ctx.exhaustive['error-product-16^3'] = True


def run_response_block(ctx, jsonrpc_i):
    j = ALPHA[jsonrpc_i]
    for i, r, e in itertools.product(ALPHA, ALPHA, ERR_SHAPES):
        obj = build(jsonrpc=j, id=i, result=r, error=e)
        status, out = call(v20.Response.from_json, obj)
        judge(ctx, 'response', obj, response_invalid(obj), status, out)
    ctx.exhaustive['response-product-16^3x22'] = True


def _deep(depth, leaf=1, as_object=False):
    v = leaf
    for _ in range(depth):
        v = {'k': v} if as_object else [v]
    return v


def run_deep(ctx, depth, as_object):
    """payload members (params, result, error data) nested as deeply as a JSON decoder lets through: they are opaque to
    deserialisation, which stays total"""
    payload = _deep(depth, as_object=as_object)
    cases = [
        ('request', v20.Request.from_json, {'jsonrpc': '2.0', 'id': 1, 'method': 'm', 'params': [payload]}),
        ('response', v20.Response.from_json, {'jsonrpc': '2.0', 'id': 1, 'result': payload}),
        ('response', v20.Response.from_json, {'jsonrpc': '2.0', 'id': 1, 'error': {'code': 5, 'message': 'm', 'data': payload}}),
        ('error', JsonRpcError.from_json, {'code': -32000, 'message': 'Server error', 'data': payload}),
        ('batch-response', v20.BatchResponse.from_json, [{'jsonrpc': '2.0', 'id': 1, 'error': {'code': 5, 'message': 'm', 'data': payload}}]),
        ('batch-response', v20.BatchResponse.from_json, {'jsonrpc': '2.0', 'id': None, 'error': {'code': 5, 'message': 'm', 'data': payload}}),
        ('batch-request', v20.BatchRequest.from_json, [{'jsonrpc': '2.0', 'id': 1, 'method': 'm', 'params': {'p': payload}}]),
        # invalid messages with a deep payload are rejected like shallow ones
        ('error', JsonRpcError.from_json, {'code': 'x', 'message': 'm', 'data': payload}),
        ('response', v20.Response.from_json, {'jsonrpc': '2.0', 'id': 1, 'result': payload, 'error': {'code': 5, 'message': 'm', 'data': payload}}),
    ]
    for n, (kind, fn, obj) in enumerate(cases):
        status, out = call(fn, obj)
        invalid = n >= 7
        cls = ('deep', kind, n, depth, as_object)
        ctx.hit('deep-payloads')
        wit = dict(message_kind=kind, case=n, payload_depth=depth, payload='nested ' + ('objects' if as_object else 'arrays'))
        if status == 'other':
            ctx.violation(f'{kind}.from_json-raises:{type(out).__name__}:deeply-nested-payload', kind, cls, exception=repr(out)[:200], **wit)
        elif status == 'ret' and invalid:
            ctx.violation(f'{kind}-accepted-invalid:deeply-nested-payload', kind, cls, **wit)
        elif status != 'ret' and not invalid:
            ctx.violation(f'{kind}-valid-message-with-deep-payload-rejected:{type(out).__name__}', kind, cls, **wit)
        else:
            ctx.ok(f'{kind}:deep', cls, sample=wit)


# ---- additional (unknown) members ---------------------------------------------------------------------------
# Members the statement does not mention, added to otherwise valid and otherwise invalid objects of every kind, at every
# nesting level (error object, request / response envelope, batch element, batch-level error envelope). The statement's list
# of what is never accepted says nothing about them, so accepting or refusing an otherwise valid object is open (counted
# under `unjudged`); what is judged: nothing but the deserialisation error escapes, and an otherwise INVALID object stays
# refused whatever else it carries. Names: what real servers add (name, stack, ...), names of members of the OTHER message
# kinds, names that mean something to Python (self, cls, args, kwargs, dunder names), near misses of the real member names.
EXTRA_NAMES = ['name', 'stack', 'details', 'self', 'cls', 'args', 'kwargs', 'error_cls', 'json_data', '__class__', '__init__',
               '__dict__', 'id', 'jsonrpc', 'method', 'params', 'result', 'error', 'code', 'message', 'data', 'related', 'strict',
               '', 'Code', 'code ', 'd\u00e1ta', 'x' * 100, '0']
EXTRA_PAIRS = [('name', 'stack'), ('self', 'cls'), ('args', 'kwargs'), ('id', 'method'), ('result', 'params')]
EXTRA_VALUES = [None, 0, 'x', [], {'a': 1}, True]
OWN_MEMBERS = {'error': {'code', 'message', 'data'}, 'request': {'jsonrpc', 'id', 'method', 'params'},
               'response': {'jsonrpc', 'id', 'result', 'error'},
               # `result` next to `error` is not an additional member but the both-result-and-error class: run_batch_level_both
               'batch-level': {'jsonrpc', 'id', 'error', 'result'}}
EXTRA_BASES = {
    'error': [GOOD_ERR, {'code': -32601, 'message': 'Method not found', 'data': {'k': 1}}, {'code': 0, 'message': ''},
              {'code': 76001, 'message': 'c6 typed', 'data': None}, {'code': -32000, 'message': 'Server error', 'data': []},
              {'code': '5', 'message': 'm'}, {'code': 5}, {'message': 'm'}, {'code': True, 'message': 'm'}, {'code': 5, 'message': None},
              {'code': 1.5, 'message': 'm', 'data': 1}, {}],
    'request': [{'jsonrpc': '2.0', 'id': 1, 'method': 'm'}, {'jsonrpc': '2.0', 'id': 'a', 'method': 'm', 'params': [1]},
                {'jsonrpc': '2.0', 'method': 'n', 'params': {'k': 1}}, {'jsonrpc': '2.0', 'id': 1}, {'jsonrpc': '1.0', 'id': 1, 'method': 'm'},
                {'id': 1, 'method': 'm'}, {'jsonrpc': '2.0', 'id': [], 'method': 'm'}, {'jsonrpc': '2.0', 'id': 1, 'method': 'm', 'params': 'x'},
                {'jsonrpc': '2.0', 'id': 1, 'method': 5}],
    'response': [{'jsonrpc': '2.0', 'id': 1, 'result': 1}, {'jsonrpc': '2.0', 'id': 'a', 'result': None}, {'jsonrpc': '2.0', 'id': 1, 'error': GOOD_ERR},
                 {'jsonrpc': '2.0', 'id': None, 'error': {'code': -32700, 'message': 'Parse error'}},
                 {'jsonrpc': '2.0', 'id': 1, 'result': 1, 'error': GOOD_ERR}, {'jsonrpc': '2.0', 'id': 1}, {'id': 1, 'result': 1},
                 {'jsonrpc': 2.0, 'id': 1, 'result': 1}, {'jsonrpc': '2.0', 'id': True, 'result': 1}, {'jsonrpc': '2.0', 'id': 1, 'error': {'code': 5}}],
    'batch-level': [{'jsonrpc': '2.0', 'id': None, 'error': GOOD_ERR}, {'jsonrpc': '2.0', 'error': {'code': -32600, 'message': 'Invalid Request', 'data': 'd'}},
                    {'jsonrpc': '2.0', 'id': None, 'error': {'code': '5', 'message': 'm'}}, {'id': None, 'error': GOOD_ERR}],
}


def _extras(kind):
    own = OWN_MEMBERS[kind]
    for name in EXTRA_NAMES:
        if name not in own:
            for v in EXTRA_VALUES:
                yield {name: v}
    for k, (a, b) in enumerate(EXTRA_PAIRS):
        if a not in own and b not in own:
            yield {a: EXTRA_VALUES[k % len(EXTRA_VALUES)], b: EXTRA_VALUES[(k + 2) % len(EXTRA_VALUES)]}


def run_extra_members(ctx, kind, base_i):
    base = EXTRA_BASES[kind][base_i]
    sfx = ':additional-members'
    good_req, good_resp = {'jsonrpc': '2.0', 'id': 9, 'method': 'g'}, {'jsonrpc': '2.0', 'id': 9, 'result': 'g'}

    def one(k, fn, value, invalid, batch=False, **kw):
        status, out = call(fn, value, **kw)
        if status == 'ret' and not invalid:
            ctx.unjudge(f'additional-members:{kind}:otherwise-valid-object-accepted')
        judge(ctx, k, value, invalid, status, out, allow_identity=batch, suffix=sfx)

    for extra in _extras(kind):
        obj = {**base, **extra}
        ctx.hit('additional-members:' + kind)
        if kind == 'error':
            inv = error_invalid(obj)
            one('error', JsonRpcError.from_json, obj, inv)
            for ecls in (pjrpc.exceptions.MethodNotFoundError, pjrpc.exceptions.ServerError, C6Typed):
                one('error', ecls.from_json, obj, inv)
            resp = {'jsonrpc': '2.0', 'id': 1, 'error': obj}
            one('response', v20.Response.from_json, resp, response_invalid(resp))
            one('response', v20.Response.from_json, resp, response_invalid(resp), error_cls=pjrpc.exceptions.ServerError)
            one('batch-response', v20.BatchResponse.from_json, [good_resp, resp], batch_invalid([good_resp, resp], response_invalid, False)[0], batch=True)
            one('batch-response', v20.BatchResponse.from_json, {'jsonrpc': '2.0', 'id': None, 'error': obj},
                None if inv is None else 'not-a-batch-level-error', batch=True)
        elif kind == 'request':
            one('request', v20.Request.from_json, obj, request_invalid(obj))
            for arr in ([obj], [good_req, obj]):
                one('batch-request', v20.BatchRequest.from_json, arr, batch_invalid(arr, request_invalid, True)[0], batch=True)
        elif kind == 'response':
            one('response', v20.Response.from_json, obj, response_invalid(obj))
            one('response', v20.Response.from_json, obj, response_invalid(obj), error_cls=C6Typed)
            for arr in ([obj], [obj, good_resp]):
                one('batch-response', v20.BatchResponse.from_json, arr, batch_invalid(arr, response_invalid, False)[0], batch=True)
        else:
            valid = obj.get('jsonrpc') == '2.0' and obj.get('id') is None and error_invalid(obj.get('error')) is None
            one('batch-response', v20.BatchResponse.from_json, obj, None if valid else 'not-a-batch-level-error', batch=True)


NONOBJECTS = [None, True, False, 0, 1, 1.5, '', 'x', [], [1], [{}], [[]], 'null', 10 ** 30]


def run_nonobjects(ctx):
    for v in NONOBJECTS:
        for kind, fn, inv in (('request', v20.Request.from_json, 'not-object'), ('response', v20.Response.from_json, 'not-object'),
                              ('error', JsonRpcError.from_json, 'error-not-object')):
            status, out = call(fn, v)
            judge(ctx, kind, v, inv, status, out)
            ctx.hit('nonobject')
        if not isinstance(v, list):
            status, out = call(v20.BatchRequest.from_json, v)
            judge(ctx, 'batch-request', v, 'not-array', status, out, allow_identity=True)
            status, out = call(v20.BatchResponse.from_json, v)
            judge(ctx, 'batch-response', v, 'not-array', status, out, allow_identity=True)


REQ_ELEMS = [
    {'jsonrpc': '2.0', 'id': 1, 'method': 'm'}, {'jsonrpc': '2.0', 'id': 2, 'method': 'm', 'params': [1]},
    {'jsonrpc': '2.0', 'id': '1', 'method': 'm'}, {'jsonrpc': '2.0', 'method': 'n'}, {'jsonrpc': '2.0', 'id': None, 'method': 'n'},
    {'jsonrpc': '2.0', 'id': 0, 'method': 'm'}, {'jsonrpc': '2.0', 'id': '', 'method': 'm'},
    {'jsonrpc': '1.0', 'id': 3, 'method': 'm'}, {'jsonrpc': '2.0', 'id': 3}, {'jsonrpc': '2.0', 'id': [], 'method': 'm'}, 1, [],
]
RESP_ELEMS = [
    {'jsonrpc': '2.0', 'id': 1, 'result': 1}, {'jsonrpc': '2.0', 'id': 2, 'error': GOOD_ERR}, {'jsonrpc': '2.0', 'id': '1', 'result': None},
    {'jsonrpc': '2.0', 'id': None, 'error': GOOD_ERR}, {'jsonrpc': '2.0', 'id': None, 'result': 0},
    {'jsonrpc': '2.0', 'id': 0, 'result': 1}, {'jsonrpc': '2.0', 'id': '', 'result': 1},
    {'jsonrpc': '2.0', 'id': 3}, {'jsonrpc': '2.0', 'id': 3, 'result': 1, 'error': GOOD_ERR}, {'jsonrpc': '2.0', 'id': 3, 'error': {'code': 'x'}}, 1, [],
]


def batch_invalid(arr, elem_invalid, is_request):
    """(verdict, duplicate?)"""
    if not isinstance(arr, list):
        return 'not-array', False
    if is_request and not arr:
        return 'empty', False
    reasons = [elem_invalid(e) for e in arr]
    bad = [r for r in reasons if r and r != 'open']
    if bad:
        return 'element:' + bad[0], False
    ids = [e.get('id') for e in arr if e.get('id') is not None]
    for a, b in itertools.combinations(range(len(ids)), 2):
        if typed_eq(ids[a], ids[b]):
            return None, True
    return None, False


def run_batch(ctx, which, idx):
    elems = REQ_ELEMS if which == 'request' else RESP_ELEMS
    fn = v20.BatchRequest.from_json if which == 'request' else v20.BatchResponse.from_json
    inv_fn = request_invalid if which == 'request' else response_invalid
    kind = 'batch-' + which
    arr = [elems[i] for i in idx]
    invalid, dup = batch_invalid(arr, inv_fn, which == 'request')
    status, out = call(fn, arr)
    if dup and not invalid:
        cls = (kind, repr(arr))
        if status in ('identity', 'deser'):
            ctx.hit('batch:identity-error')
            ctx.hit(f'{kind}:rejected')
            ctx.ok(kind + ':duplicate-ids-rejected', cls, sample={'kind': kind, 'input': arr, 'outcome': repr(out)})
        elif status == 'ret':
            ctx.violation(f'{kind}-accepted-duplicate-ids', kind, cls, input=arr, accepted_as=repr(out))
        else:
            ctx.violation(f'{kind}.from_json-raises:{type(out).__name__}', kind, cls, input=arr, exception=out)
        return
    judge(ctx, kind, arr, invalid, status, out, allow_identity=True)


def run_batch_level(ctx):
    """dict inputs of BatchResponse.from_json: a batch-level error object, or garbage."""
    for j, i, e in itertools.product(ALPHA, ALPHA, ERR_SHAPES):
        obj = build(jsonrpc=j, id=i, error=e)
        status, out = call(v20.BatchResponse.from_json, obj)
        id_absent_or_null = i is None or (isinstance(i, str) and i == A)
        valid = (isinstance(j, str) and j == '2.0' and id_absent_or_null and isinstance(e, dict)
                 and error_invalid(e) is None)
        judge(ctx, 'batch-response', obj, None if valid else 'not-a-batch-level-error', status, out, allow_identity=True)


BOTH_ERRORS = [GOOD_ERR, {'code': -32600, 'message': 'Invalid Request', 'data': None}, {'code': 0, 'message': ''},
               {'code': 76001, 'message': 'c6 typed', 'data': [1]}, {'code': -32000, 'message': 'Server error'},
               {'code': '5', 'message': 'm'}, {'code': 5}, None, 'boom']
BOTH_RESULTS = [v for v in ALPHA if not (isinstance(v, str) and v == A)] + [{'k': [None]}, [[]], 10 ** 30, 'r' * 50]


def run_batch_level_both(ctx):
    """an object without id / with a null id that carries an error AND a result (of every JSON type, null and the falsy values
    first of all), handed to BatchResponse.from_json - by default and with every error_cls: a response with both result and
    error is never accepted, whatever the error object looks like"""
    routes = [None] + ERROR_BASES + [C6Typed]
    for i, r, e in itertools.product((None, A), BOTH_RESULTS, BOTH_ERRORS):
        obj = build(jsonrpc='2.0', id=i, result=r, error=e)
        for ecls in routes:
            status, out = call(v20.BatchResponse.from_json, obj, **({} if ecls is None else {'error_cls': ecls}))
            ctx.hit('batch-level:both-result-and-error')
            if r is None or (not r and not isinstance(r, bool)) or r is False:
                ctx.hit('batch-level:both-result-and-error:null-or-falsy-result')
            judge(ctx, 'batch-response', obj, 'both-result-and-error', status, out, allow_identity=True, suffix=':batch-level-error-object')
        # the same object as the only element of an array
        status, out = call(v20.BatchResponse.from_json, [obj])
        judge(ctx, 'batch-response', [obj], 'element:both-result-and-error', status, out, allow_identity=True)


# ---- append / extend histories ----------------------------------------------------------------------

IDS = [1, '1', 2, 0, '', None]


def _mk(which, id_, tag):
    if which == 'request':
        return v20.Request(f'm{tag}', [tag], id_)
    return v20.Response(id_, result=tag)


def _snapshot(batch, which):
    items = list(batch)
    return (len(batch), [(type(x.id).__name__, x.id) for x in items], batch.to_json())


# how `extend` is handed its messages: anything iterable is legal for the declared Iterable - containers that can be walked any
# number of times, and ONE-SHOT iterables that are exhausted after the first walk
GIVEN_AS = {
    'list': list, 'tuple': tuple, 'dict-values': lambda ms: {k: m for k, m in enumerate(ms)}.values(),
    'genexp': lambda ms: (m for m in ms), 'iter': iter, 'map': lambda ms: map(lambda m: m, ms), 'chain': lambda ms: itertools.chain(ms[:1], ms[1:]),
}
ONE_SHOT = ('genexp', 'iter', 'map', 'chain')


def run_history(ctx, which, strict, ops, given_as='list'):
    cls_ = v20.BatchRequest if which == 'request' else v20.BatchResponse
    batch = cls_(strict=strict)
    model = []      # list of (id, tag)
    tag = 0
    for step, op in enumerate(ops):
        ids = [IDS[i] for i in op[1]]
        msgs = []
        for i in ids:
            tag += 1
            msgs.append((_mk(which, i, tag), i, tag))
        present = [m[0] for m in model if m[0] is not None]
        newids = [i for i in ids if i is not None]
        dup = strict and (any(any(typed_eq(i, p) for p in present) for i in newids)
                          or any(typed_eq(a, b) for a, b in itertools.combinations(newids, 2)))
        before = _snapshot(batch, which)
        if op[0] == 'append':
            status, out = call(batch.append, msgs[0][0])
        else:
            status, out = call(batch.extend, GIVEN_AS[given_as]([m[0] for m in msgs]))
            ctx.hit('extend-given-as:' + ('one-shot' if given_as in ONE_SHOT else 're-iterable'))
        ctx.hit('history:ops')
        after = _snapshot(batch, which)
        key = (which, strict, repr(ops), step, given_as)
        sfx = f':extend-given-as-one-shot-iterable' if (given_as in ONE_SHOT and any(o[0] == 'extend' for o in ops[:step + 1])) else ''
        desc = {'batch': which, 'strict': strict, 'ops': [[o[0], [IDS[i] for i in o[1]]] for o in ops], 'step': step,
                'extend_is_given_its_messages_as': given_as}
        if dup:
            ctx.hit('history:failed-op')
            if status != 'identity':
                ctx.violation(f'duplicate-id-{op[0]}-not-refused:{status}{sfx}', 'history', key, history=desc,
                              outcome=repr(out), contents_after=after[1])
                return
            if before != after:
                ctx.violation(f'failed-{op[0]}-changed-batch{sfx}', 'history', key, history=desc, before=before[1], after=after[1])
                return
        else:
            if status != 'ret':
                ctx.violation(f'valid-{op[0]}-refused:{type(out).__name__}{sfx}', 'history', key, history=desc, outcome=repr(out),
                              contents_before=before[1])
                return
            model.extend((i, t) for _, i, t in msgs)
            want_ids = [(type(i).__name__, i) for i, _ in model]
            if after[0] != len(model) or after[1] != want_ids:
                ctx.violation(f'{op[0]}-contents-wrong{sfx}', 'history', key, history=desc, expected=want_ids, after=after[1])
                return
    ctx.ok(f'history:{which}:{"strict" if strict else "lenient"}' + ('' if given_as == 'list' else ':extend-given-' + given_as),
           (which, strict, repr(ops), given_as), sample={
        'batch': which, 'strict': strict, 'ops': [[o[0], [IDS[i] for i in o[1]]] for o in ops], 'extend_given_as': given_as,
        'final_ids': [m[0] for m in model]})


def histories(ctx):
    """all histories of <= 4 operations; an operation = append(id) or extend([id, id])."""
    full = True
    deep = ctx.thorough
    ids = range(len(IDS))
    ops = [('append', (i,)) for i in ids] + [('extend', (i, j)) for i in ids for j in ids] + [('extend', ())]
    maxlen = 3
    for n in range(1, maxlen + 1):
        for seq in itertools.product(ops, repeat=n):
            if n == 3 and not full and (hash_seq(seq) % 5):
                continue
            yield seq
    # length-4 histories: append-only exhaustively, the rest sampled
    app = [('append', (i,)) for i in ids]
    for seq in itertools.product(app, repeat=4):
        yield seq
    # one extend hitting two different duplicated ids (same and different JSON types)
    for a, b in ((0, 1), (0, 2), (1, 4), (3, 4), (0, 3)):
        for order in ((a, b, a, b), (a, a, b, b), (a, b, b, a)):
            yield (('extend', order),)
            yield (('append', (a,)), ('append', (b,)), ('extend', (a, b)))
            yield (('extend', (a, b)), ('extend', (a, b, 5)))
    rng = ctx.rng
    for _ in range(400000 if deep else 20000):
        yield tuple(rng.choice(ops) for _ in range(rng.choice((4, 4, 5))))


def hash_seq(seq):
    h = 7
    for op, args in seq:
        h = h * 131 + (1 if op == 'append' else 2)
        for a in args:
            h = h * 31 + a + 1
    return h


def gen(ctx):
    for k in range(len(ALPHA)):
        yield 'request_block', {'jsonrpc_i': k}
        yield 'error_block', {'code_i': k}
        yield 'response_block', {'jsonrpc_i': k}
    for k in range(len(REGISTERED_CODES)):
        yield 'error_block', {'code_i': len(ALPHA) + k}
    yield 'nonobjects', {}
    for kind, bases in EXTRA_BASES.items():
        for base_i in range(len(bases)):
            yield 'extra_members', {'kind': kind, 'base_i': base_i}
    for depth in (100, 400, 700, 900):
        for as_object in (False, True):
            yield 'deep', {'depth': depth, 'as_object': as_object}
    yield 'batch_level', {}
    yield 'batch_level_both', {}
    n_req, n_resp = len(REQ_ELEMS), len(RESP_ELEMS)
    for which, n in (('request', n_req), ('response', n_resp)):
        yield 'batch', {'which': which, 'idx': []}
        for length in (1, 2, 3):
            for idx in itertools.product(range(n), repeat=length):
                yield 'batch', {'which': which, 'idx': list(idx)}
        # four and five elements: two different valid ids each repeated (elements 0: id 1, 2: id '1', 5: id 0, 6: id '')
        for a, b in ((0, 2), (0, 5), (5, 6), (2, 6)):
            for idx in ((a, b, a, b), (a, a, b, b), (a, b, b, a), (a, b, 1, a, b)):
                yield 'batch', {'which': which, 'idx': list(idx)}
    others = [g for g in GIVEN_AS if g != 'list']
    hk = 0
    for seq in histories(ctx):
        # lists for every history; histories that extend are repeated with the other ways of handing the messages over: all
        # of them for <= 2 operations, one (rotating) for an eighth (thorough: all) of the longer enumerated ones; the sampled
        # long histories rotate through every way instead of repeating
        kinds = ['list']
        if any(o == 'extend' for o, _ in seq):
            hk += 1
            if len(seq) <= 2:
                kinds = list(GIVEN_AS)
            elif len(seq) == 3:
                if ctx.thorough or hash_seq(seq) % 8 == 0:
                    kinds = ['list', others[hk % len(others)]]
            else:
                kinds = [list(GIVEN_AS)[hk % len(GIVEN_AS)]]
        for given_as in kinds:
            for which in ('request', 'response'):
                for strict in (True, False):
                    yield 'history', {'which': which, 'strict': strict, 'ops': [[o, list(a)] for o, a in seq], 'given_as': given_as}


KINDS = {
    'deep': run_deep, 'request_block': run_request_block, 'error_block': run_error_block, 'response_block': run_response_block,
    'nonobjects': run_nonobjects, 'extra_members': run_extra_members, 'batch_level': run_batch_level, 'batch_level_both': run_batch_level_both, 'batch': run_batch, 'history': run_history,
}
