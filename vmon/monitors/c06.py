"""C06 - deserialisation is strict and total: only DeserializationError (IdentityError for duplicate ids) escapes,
structurally invalid messages are never accepted, a failed append/extend leaves the batch unchanged."""
from __future__ import annotations

import itertools

import pjrpc
from pjrpc.common import v20
from pjrpc.common.exceptions import DeserializationError, IdentityError, JsonRpcError

from ..strictjson import typed_eq

PID = 'C06'
LEVEL = 'exploration'
EXHAUSTIVE_OVERALL = False
RULE = ('cases: (1) Request.from_json over the full product of a 16-value alphabet for each of jsonrpc/id/method/params '
        '(65 536 objects, walked completely in both tiers); (2) JsonRpcError.from_json over 16^3 error objects, alone and '
        'embedded in an otherwise valid response; (3) Response.from_json over jsonrpc x id x result x error with 18 error '
        'shapes; (4) non-object inputs; (5) BatchRequest / BatchResponse.from_json over all arrays of <= 3 (quick 2..3) '
        'elements from 12 element shapes and batch-level error objects; (6) all append/extend histories of <= 4 operations '
        'over ids {1,"1",2,0,"",None} on strict and non-strict batches, compared with a list model through the public API '
        'after every operation. Oracle: vmon/models/wire.py validity predicates + exception type. A case is distinct by '
        '(message kind, input value / history); non-trivial = not accepted-and-valid.')
ASSUMPTIONS = [
    'rejecting a structurally valid message is not judged here (C05 / C02 judge acceptance)',
    'fractional-number ids: the statement says pjrpc admits integers only; accepting or rejecting a float id is not judged',
    'an empty array is judged for batch *requests* only (the statement names only those)',
]
SHARDS = {'quick': 8, 'thorough': 16}
TIMEOUT = {'quick': 300, 'thorough': 1800}
ANCHORS = [
    ('pjrpc/common/v20.py', 'Request.from_json'),
    ('pjrpc/common/v20.py', 'Response.from_json'),
    ('pjrpc/common/v20.py', 'BatchRequest.from_json'),
    ('pjrpc/common/v20.py', 'BatchResponse.from_json'),
    ('pjrpc/common/v20.py', 'BatchRequest._add_ids'),
    ('pjrpc/common/v20.py', 'BatchResponse._add_ids'),
    ('pjrpc/common/v20.py', 'BatchRequest.append'),
    ('pjrpc/common/v20.py', 'BatchRequest.extend'),
    ('pjrpc/common/v20.py', 'BatchResponse.append'),
    ('pjrpc/common/v20.py', 'BatchResponse.extend'),
    ('pjrpc/common/exceptions.py', 'JsonRpcError.from_json'),
]
FLOORS = {'*': {'error:deserialised-through-a-library-error-class': 300,
                
    'request:accepted': 100, 'request:rejected': 1000, 'response:accepted': 100, 'response:rejected': 1000,
    'error:accepted': 50, 'error:rejected': 500, 'batch-request:accepted': 20, 'batch-request:rejected': 50,
    'batch-response:accepted': 20, 'batch-response:rejected': 50, 'batch:identity-error': 10,
    'history:failed-op': 200, 'error:registered-code': 7, 'deep-payloads': 50, 'history:ops': 2000, 'nonobject': 20, 'ambient:batch-invariant': 1000,
}}

A = '__absent__'
ALPHA = [A, None, False, True, 0, 1, -1, 1.0, 1.5, '', 'x', '2.0', [], [1], {}, {'a': 1}]
GOOD_ERR = {'code': 5, 'message': 'm'}
ERR_SHAPES = [A, None, 0, 'x', [], {}, GOOD_ERR, {'code': 5, 'message': 'm', 'data': None}, {'code': 0, 'message': 'm'},
              {'code': 5, 'message': ''}, {'code': True, 'message': 'm'}, {'code': 1.0, 'message': 'm'}, {'code': '5', 'message': 'm'},
              {'message': 'm'}, {'code': 5}, {'code': 5, 'message': None}, {'code': -32601, 'message': 'Method not found', 'data': []},
              {'code': 0, 'message': ''}, {'code': -32601}, {'code': -32000, 'data': 1}, {'code': -32700, 'message': None},
              {'code': 76001}]


def setup(ctx):
    # the icontract invariants cost ~5x on this workload: one shard runs under them
    if ctx.shard == 0:
        from .. import ambient
        ambient.install()


def finish(ctx):
    from .. import ambient
    rep = ambient.REPORT
    ctx.hit('ambient:batch-invariant', rep['evaluations'].get('batch-invariant', 0))
    ctx.note('ambient', {'evaluations': rep['evaluations'], 'icontract': rep['icontract']})
    ctx.current = ('ambient', {})
    for v in rep['violations']:
        ctx.violation(f"ambient:{v['contract']}:{v.get('what', '')[:60]}", 'ambient', (v['contract'], v.get('what')), **v)


def build(**members):
    return {k: v for k, v in members.items() if not (isinstance(v, str) and v == A)}


# ---- validity model (what must never be accepted) -----------------------------------------------------

def id_verdict(obj):
    """'ok', 'bad' or 'open' (float ids: not judged)."""
    if 'id' not in obj:
        return 'ok'
    i = obj['id']
    if i is None or isinstance(i, str):
        return 'ok'
    if isinstance(i, bool):
        return 'bad'
    if isinstance(i, int):
        return 'ok'
    if isinstance(i, float):
        return 'open'
    return 'bad'


def request_invalid(obj):
    if not isinstance(obj, dict):
        return 'not-object'
    if not (isinstance(obj.get('jsonrpc', 0), str) and obj.get('jsonrpc') == '2.0'):
        return 'version'
    if not isinstance(obj.get('method', 0), str):
        return 'method'
    if 'params' in obj and not isinstance(obj['params'], (list, dict)):
        return 'params'
    v = id_verdict(obj)
    return 'id' if v == 'bad' else ('open' if v == 'open' else None)


def error_invalid(e):
    if not isinstance(e, dict):
        return 'error-not-object'
    c = e.get('code', A)
    if isinstance(c, bool) or not isinstance(c, int):
        return 'error-code'
    if not isinstance(e.get('message', 0), str):
        return 'error-message'
    return None


def response_invalid(obj):
    if not isinstance(obj, dict):
        return 'not-object'
    if not (isinstance(obj.get('jsonrpc', 0), str) and obj.get('jsonrpc') == '2.0'):
        return 'version'
    v = id_verdict(obj)
    if v == 'bad':
        return 'id'
    has_r, has_e = 'result' in obj, 'error' in obj
    if has_r and has_e:
        return 'both-result-and-error'
    if not has_r and not has_e:
        return 'neither-result-nor-error'
    if has_e:
        r = error_invalid(obj['error'])
        if r:
            return r
    return 'open' if v == 'open' else None


def call(fn, *args, **kw):
    try:
        return 'ret', fn(*args, **kw)
    except DeserializationError as e:
        return 'deser', e
    except IdentityError as e:
        return 'identity', e
    except BaseException as e:
        if isinstance(e, (KeyboardInterrupt, SystemExit)):
            raise
        return 'other', e


def judge(ctx, kind, value, invalid, status, out, allow_identity=False):
    """Common verdict for one from_json evaluation."""
    cls = (kind, repr(value))
    if status == 'other':
        ctx.violation(f'{kind}.from_json-raises:{type(out).__name__}', kind, cls, input=value, exception=out,
                      model_verdict=invalid or 'valid')
        return
    if status == 'identity' and not allow_identity:
        ctx.violation(f'{kind}.from_json-raises:IdentityError-outside-batch', kind, cls, input=value, exception=out)
        return
    if status == 'ret':
        ctx.hit(f'{kind}:accepted')
        if invalid and invalid != 'open':
            ctx.violation(f'{kind}-accepted-invalid:{invalid}', kind, cls, input=value, accepted_as=repr(out))
            return
        ctx.ok(kind + ':accepted', cls, sample={'kind': kind, 'input': value, 'outcome': 'accepted ' + repr(out)})
    else:
        ctx.hit(f'{kind}:rejected')
        if not invalid:
            ctx.unjudge(f'{kind}:valid-but-rejected')
        ctx.ok(kind + ':rejected:' + str(invalid), cls, sample={'kind': kind, 'input': value, 'outcome': repr(out)})


# ---- case kinds -----------------------------------------------------------------------------------

def run_request_block(ctx, jsonrpc_i):
    j = ALPHA[jsonrpc_i]
    for i, m, p in itertools.product(ALPHA, ALPHA, ALPHA):
        obj = build(jsonrpc=j, id=i, method=m, params=p)
        status, out = call(v20.Request.from_json, obj)
        judge(ctx, 'request', obj, request_invalid(obj), status, out)
    ctx.exhaustive['request-product-16^4'] = True


# codes for which the library knows a class with a class-level message (and one the harness registers): whatever the
# class provides, the wire object needs its own message member
class C6Typed(JsonRpcError):
    code = 76001
    message = 'c6 typed'


REGISTERED_CODES = [-32700, -32600, -32601, -32602, -32603, -32000, 76001]
ERROR_BASES = [pjrpc.exceptions.ServerError, pjrpc.exceptions.MethodNotFoundError, pjrpc.exceptions.InvalidParamsError,
               pjrpc.exceptions.InternalError, pjrpc.exceptions.ParseError]


def run_error_block(ctx, code_i):
    c = ALPHA[code_i] if code_i < len(ALPHA) else REGISTERED_CODES[code_i - len(ALPHA)]
    if code_i >= len(ALPHA):
        ctx.hit('error:registered-code')
    for m, d in itertools.product(ALPHA, ALPHA):
        obj = build(code=c, message=m, data=d)
        status, out = call(JsonRpcError.from_json, obj)
        judge(ctx, 'error', obj, error_invalid(obj), status, out)
        resp = {'jsonrpc': '2.0', 'id': 1, 'error': obj}
        status, out = call(v20.Response.from_json, resp)
        judge(ctx, 'response', resp, response_invalid(resp), status, out)
        if m in ('m', '', A) and d in (A, None):
            # the same through the existing `error_cls=` option / classmethod of the library's own error classes: the base class
            # the caller names decides what unregistered codes become, never whether the object is acceptable
            for ecls in ERROR_BASES:
                ctx.hit('error:deserialised-through-a-library-error-class')
                status, out = call(ecls.from_json, obj)
                judge(ctx, 'error', obj, error_invalid(obj), status, out)
                status, out = call(v20.Response.from_json, resp, error_cls=ecls)
                judge(ctx, 'response', resp, response_invalid(resp), status, out)
                status, out = call(v20.BatchResponse.from_json, [resp], error_cls=ecls)
                judge(ctx, 'batch-response', [resp], response_invalid(resp), status, out, allow_identity=True)
    ctx.exhaustive['error-product-16^3'] = True


def run_response_block(ctx, jsonrpc_i):
    j = ALPHA[jsonrpc_i]
    for i, r, e in itertools.product(ALPHA, ALPHA, ERR_SHAPES):
        obj = build(jsonrpc=j, id=i, result=r, error=e)
        status, out = call(v20.Response.from_json, obj)
        judge(ctx, 'response', obj, response_invalid(obj), status, out)
    ctx.exhaustive['response-product-16^3x22'] = True


def _deep(depth, leaf=1, as_object=False):
    v = leaf
    for _ in range(depth):
        v = {'k': v} if as_object else [v]
    return v


def run_deep(ctx, depth, as_object):
    """payload members (params, result, error data) nested as deeply as a JSON decoder lets through: they are opaque to
    deserialisation, which stays total"""
    payload = _deep(depth, as_object=as_object)
    cases = [
        ('request', v20.Request.from_json, {'jsonrpc': '2.0', 'id': 1, 'method': 'm', 'params': [payload]}),
        ('response', v20.Response.from_json, {'jsonrpc': '2.0', 'id': 1, 'result': payload}),
        ('response', v20.Response.from_json, {'jsonrpc': '2.0', 'id': 1, 'error': {'code': 5, 'message': 'm', 'data': payload}}),
        ('error', JsonRpcError.from_json, {'code': -32000, 'message': 'Server error', 'data': payload}),
        ('batch-response', v20.BatchResponse.from_json, [{'jsonrpc': '2.0', 'id': 1, 'error': {'code': 5, 'message': 'm', 'data': payload}}]),
        ('batch-response', v20.BatchResponse.from_json, {'jsonrpc': '2.0', 'id': None, 'error': {'code': 5, 'message': 'm', 'data': payload}}),
        ('batch-request', v20.BatchRequest.from_json, [{'jsonrpc': '2.0', 'id': 1, 'method': 'm', 'params': {'p': payload}}]),
        # invalid messages with a deep payload are rejected like shallow ones
        ('error', JsonRpcError.from_json, {'code': 'x', 'message': 'm', 'data': payload}),
        ('response', v20.Response.from_json, {'jsonrpc': '2.0', 'id': 1, 'result': payload, 'error': {'code': 5, 'message': 'm', 'data': payload}}),
    ]
    for n, (kind, fn, obj) in enumerate(cases):
        status, out = call(fn, obj)
        invalid = n >= 7
        cls = ('deep', kind, n, depth, as_object)
        ctx.hit('deep-payloads')
        wit = dict(message_kind=kind, case=n, payload_depth=depth, payload='nested ' + ('objects' if as_object else 'arrays'))
        if status == 'other':
            ctx.violation(f'{kind}.from_json-raises:{type(out).__name__}:deeply-nested-payload', kind, cls, exception=repr(out)[:200], **wit)
        elif status == 'ret' and invalid:
            ctx.violation(f'{kind}-accepted-invalid:deeply-nested-payload', kind, cls, **wit)
        elif status != 'ret' and not invalid:
            ctx.violation(f'{kind}-valid-message-with-deep-payload-rejected:{type(out).__name__}', kind, cls, **wit)
        else:
            ctx.ok(f'{kind}:deep', cls, sample=wit)


NONOBJECTS = [None, True, False, 0, 1, 1.5, '', 'x', [], [1], [{}], [[]], 'null', 10 ** 30]


def run_nonobjects(ctx):
    for v in NONOBJECTS:
        for kind, fn, inv in (('request', v20.Request.from_json, 'not-object'), ('response', v20.Response.from_json, 'not-object'),
                              ('error', JsonRpcError.from_json, 'error-not-object')):
            status, out = call(fn, v)
            judge(ctx, kind, v, inv, status, out)
            ctx.hit('nonobject')
        if not isinstance(v, list):
            status, out = call(v20.BatchRequest.from_json, v)
            judge(ctx, 'batch-request', v, 'not-array', status, out, allow_identity=True)
            status, out = call(v20.BatchResponse.from_json, v)
            judge(ctx, 'batch-response', v, 'not-array', status, out, allow_identity=True)


REQ_ELEMS = [
    {'jsonrpc': '2.0', 'id': 1, 'method': 'm'}, {'jsonrpc': '2.0', 'id': 2, 'method': 'm', 'params': [1]},
    {'jsonrpc': '2.0', 'id': '1', 'method': 'm'}, {'jsonrpc': '2.0', 'method': 'n'}, {'jsonrpc': '2.0', 'id': None, 'method': 'n'},
    {'jsonrpc': '2.0', 'id': 0, 'method': 'm'}, {'jsonrpc': '2.0', 'id': '', 'method': 'm'},
    {'jsonrpc': '1.0', 'id': 3, 'method': 'm'}, {'jsonrpc': '2.0', 'id': 3}, {'jsonrpc': '2.0', 'id': [], 'method': 'm'}, 1, [],
]
RESP_ELEMS = [
    {'jsonrpc': '2.0', 'id': 1, 'result': 1}, {'jsonrpc': '2.0', 'id': 2, 'error': GOOD_ERR}, {'jsonrpc': '2.0', 'id': '1', 'result': None},
    {'jsonrpc': '2.0', 'id': None, 'error': GOOD_ERR}, {'jsonrpc': '2.0', 'id': None, 'result': 0},
    {'jsonrpc': '2.0', 'id': 0, 'result': 1}, {'jsonrpc': '2.0', 'id': '', 'result': 1},
    {'jsonrpc': '2.0', 'id': 3}, {'jsonrpc': '2.0', 'id': 3, 'result': 1, 'error': GOOD_ERR}, {'jsonrpc': '2.0', 'id': 3, 'error': {'code': 'x'}}, 1, [],
]


def batch_invalid(arr, elem_invalid, is_request):
    """(verdict, duplicate?)"""
    if not isinstance(arr, list):
        return 'not-array', False
    if is_request and not arr:
        return 'empty', False
    reasons = [elem_invalid(e) for e in arr]
    bad = [r for r in reasons if r and r != 'open']
    if bad:
        return 'element:' + bad[0], False
    ids = [e.get('id') for e in arr if e.get('id') is not None]
    for a, b in itertools.combinations(range(len(ids)), 2):
        if typed_eq(ids[a], ids[b]):
            return None, True
    return None, False


def run_batch(ctx, which, idx):
    elems = REQ_ELEMS if which == 'request' else RESP_ELEMS
    fn = v20.BatchRequest.from_json if which == 'request' else v20.BatchResponse.from_json
    inv_fn = request_invalid if which == 'request' else response_invalid
    kind = 'batch-' + which
    arr = [elems[i] for i in idx]
    invalid, dup = batch_invalid(arr, inv_fn, which == 'request')
    status, out = call(fn, arr)
    if dup and not invalid:
        cls = (kind, repr(arr))
        if status in ('identity', 'deser'):
            ctx.hit('batch:identity-error')
            ctx.hit(f'{kind}:rejected')
            ctx.ok(kind + ':duplicate-ids-rejected', cls, sample={'kind': kind, 'input': arr, 'outcome': repr(out)})
        elif status == 'ret':
            ctx.violation(f'{kind}-accepted-duplicate-ids', kind, cls, input=arr, accepted_as=repr(out))
        else:
            ctx.violation(f'{kind}.from_json-raises:{type(out).__name__}', kind, cls, input=arr, exception=out)
        return
    judge(ctx, kind, arr, invalid, status, out, allow_identity=True)


def run_batch_level(ctx):
    """dict inputs of BatchResponse.from_json: a batch-level error object, or garbage."""
    for j, i, e in itertools.product(ALPHA, ALPHA, ERR_SHAPES):
        obj = build(jsonrpc=j, id=i, error=e)
        status, out = call(v20.BatchResponse.from_json, obj)
        id_absent_or_null = i is None or (isinstance(i, str) and i == A)
        valid = (isinstance(j, str) and j == '2.0' and id_absent_or_null and isinstance(e, dict)
                 and error_invalid(e) is None)
        judge(ctx, 'batch-response', obj, None if valid else 'not-a-batch-level-error', status, out, allow_identity=True)


# ---- append / extend histories ----------------------------------------------------------------------

IDS = [1, '1', 2, 0, '', None]


def _mk(which, id_, tag):
    if which == 'request':
        return v20.Request(f'm{tag}', [tag], id_)
    return v20.Response(id_, result=tag)


def _snapshot(batch, which):
    items = list(batch)
    return (len(batch), [(type(x.id).__name__, x.id) for x in items], batch.to_json())


def run_history(ctx, which, strict, ops):
    cls_ = v20.BatchRequest if which == 'request' else v20.BatchResponse
    batch = cls_(strict=strict)
    model = []      # list of (id, tag)
    tag = 0
    for step, op in enumerate(ops):
        ids = [IDS[i] for i in op[1]]
        msgs = []
        for i in ids:
            tag += 1
            msgs.append((_mk(which, i, tag), i, tag))
        present = [m[0] for m in model if m[0] is not None]
        newids = [i for i in ids if i is not None]
        dup = strict and (any(any(typed_eq(i, p) for p in present) for i in newids)
                          or any(typed_eq(a, b) for a, b in itertools.combinations(newids, 2)))
        before = _snapshot(batch, which)
        if op[0] == 'append':
            status, out = call(batch.append, msgs[0][0])
        else:
            status, out = call(batch.extend, [m[0] for m in msgs])
        ctx.hit('history:ops')
        after = _snapshot(batch, which)
        key = (which, strict, repr(ops), step)
        desc = {'batch': which, 'strict': strict, 'ops': [[o[0], [IDS[i] for i in o[1]]] for o in ops], 'step': step}
        if dup:
            ctx.hit('history:failed-op')
            if status != 'identity':
                ctx.violation(f'duplicate-id-{op[0]}-not-refused:{status}', 'history', key, history=desc,
                              outcome=repr(out), contents_after=after[1])
                return
            if before != after:
                ctx.violation(f'failed-{op[0]}-changed-batch', 'history', key, history=desc, before=before[1], after=after[1])
                return
        else:
            if status != 'ret':
                ctx.violation(f'valid-{op[0]}-refused:{type(out).__name__}', 'history', key, history=desc, outcome=repr(out),
                              contents_before=before[1])
                return
            model.extend((i, t) for _, i, t in msgs)
            want_ids = [(type(i).__name__, i) for i, _ in model]
            if after[0] != len(model) or after[1] != want_ids:
                ctx.violation(f'{op[0]}-contents-wrong', 'history', key, history=desc, expected=want_ids, after=after[1])
                return
    ctx.ok(f'history:{which}:{"strict" if strict else "lenient"}', (which, strict, repr(ops)), sample={
        'batch': which, 'strict': strict, 'ops': [[o[0], [IDS[i] for i in o[1]]] for o in ops], 'final_ids': [m[0] for m in model]})


def histories(ctx):
    """all histories of <= 4 operations; an operation = append(id) or extend([id, id])."""
    full = True
    deep = ctx.thorough
    ids = range(len(IDS))
    ops = [('append', (i,)) for i in ids] + [('extend', (i, j)) for i in ids for j in ids] + [('extend', ())]
    maxlen = 3
    for n in range(1, maxlen + 1):
        for seq in itertools.product(ops, repeat=n):
            if n == 3 and not full and (hash_seq(seq) % 5):
                continue
            yield seq
    # length-4 histories: append-only exhaustively, the rest sampled
    app = [('append', (i,)) for i in ids]
    for seq in itertools.product(app, repeat=4):
        yield seq
    # one extend hitting two different duplicated ids (same and different JSON types)
    for a, b in ((0, 1), (0, 2), (1, 4), (3, 4), (0, 3)):
        for order in ((a, b, a, b), (a, a, b, b), (a, b, b, a)):
            yield (('extend', order),)
            yield (('append', (a,)), ('append', (b,)), ('extend', (a, b)))
            yield (('extend', (a, b)), ('extend', (a, b, 5)))
    rng = ctx.rng
    for _ in range(400000 if deep else 20000):
        yield tuple(rng.choice(ops) for _ in range(rng.choice((4, 4, 5))))


def hash_seq(seq):
    h = 7
    for op, args in seq:
        h = h * 131 + (1 if op == 'append' else 2)
        for a in args:
            h = h * 31 + a + 1
    return h


def gen(ctx):
    for k in range(len(ALPHA)):
        yield 'request_block', {'jsonrpc_i': k}
        yield 'error_block', {'code_i': k}
        yield 'response_block', {'jsonrpc_i': k}
    for k in range(len(REGISTERED_CODES)):
        yield 'error_block', {'code_i': len(ALPHA) + k}
    yield 'nonobjects', {}
    for depth in (100, 400, 700, 900):
        for as_object in (False, True):
            yield 'deep', {'depth': depth, 'as_object': as_object}
    yield 'batch_level', {}
    n_req, n_resp = len(REQ_ELEMS), len(RESP_ELEMS)
    for which, n in (('request', n_req), ('response', n_resp)):
        yield 'batch', {'which': which, 'idx': []}
        for length in (1, 2, 3):
            for idx in itertools.product(range(n), repeat=length):
                yield 'batch', {'which': which, 'idx': list(idx)}
        # four and five elements: two different valid ids each repeated (elements 0: id 1, 2: id '1', 5: id 0, 6: id '')
        for a, b in ((0, 2), (0, 5), (5, 6), (2, 6)):
            for idx in ((a, b, a, b), (a, a, b, b), (a, b, b, a), (a, b, 1, a, b)):
                yield 'batch', {'which': which, 'idx': list(idx)}
    for seq in histories(ctx):
        for which in ('request', 'response'):
            for strict in (True, False):
                yield 'history', {'which': which, 'strict': strict, 'ops': [[o, list(a)] for o, a in seq]}


KINDS = {
    'deep': run_deep, 'request_block': run_request_block, 'error_block': run_error_block, 'response_block': run_response_block,
    'nonobjects': run_nonobjects, 'batch_level': run_batch_level, 'batch': run_batch, 'history': run_history,
}
