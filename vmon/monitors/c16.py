"""C16 - generated OpenAPI / OpenRPC documents are valid, closed, complete and pure."""
from __future__ import annotations

import collections
import dataclasses as dc
import itertools
import json
import os
import subprocess
import tempfile

import pjrpc
from pjrpc.server import specs, utils

from .. import specworld
from ..core import VERIF, safe
from ..strictjson import typed_eq

PID = 'C16'
LEVEL = 'exploration'
RULE = ('one case = one generated method set (1..3, thorough 4 methods; annotated scalar / container / model / optional / enum '
        'parameters, return annotations incl. None and missing, docstrings with / without params / returns / raises / '
        'deprecation, annotation combinations incl. one errors list shared by two methods, tags, examples, servers, security, '
        'explicit schemas, component prefixes on some methods only, view methods; errors incl. refinements of one generic '
        'error - DIFFERENT JsonRpcError classes that inherit one code - documented for different methods) x extractor stack x '
        'endpoint prefixes x document kind (OpenAPI 3.1.0, OpenAPI 3.0.3, OpenRPC 1.3.2), generated 1..3 times; the values of '
        'methods_map are lists or (every second sampled case) one-shot iterables (generator, filter, map, iter, chain, reversed, '
        'islice; a fresh one per generation) or other non-list iterables (tuple, dict values view, deque, a plain __iter__ '
        'object). After 2..3 generations the same specification object (3: another specification object handed the SAME '
        'extractor objects) documents a second registry with other signatures and the sibling error classes (same code) and '
        'must produce what a fresh one produces. Judged in-process: no '
        'exception, encodable by specs.JSONEncoder, every (endpoint, method) described exactly once, repeated generation '
        'identical, structural fingerprints (values, container identities and lengths) of __pjrpc_meta__, annotation lists '
        'and user objects unchanged, no entry shows the class name or message of an error class that only other methods '
        'document, and the isolation relation "entry of m generated alone (all $ref inlined) == entry of m '
        'generated together with the others, in any order". Judged out of process (python3-vt, jsonschema 4.x): validity '
        'against the vendored official meta-schemas and resolution of every local $ref. Distinct = distinct (method set, '
        'stack, kind, prefixes).')
ASSUMPTIONS = [
    'validity is relative to the meta-schema copies in /verif/vendor (taken from tests/server/resources, hash-pinned) and jsonschema 4.26',
    'OpenRPC has no endpoint notion: only methods of the root endpoint are expected in an OpenRPC document',
    'OpenAPI 3.0.x documents are validated twice (as is, and with every Schema Object blanked) to separate structural errors '
    'from the JSON-Schema-dialect mismatch',
]
SHARDS = {'quick': 4, 'thorough': 16}
TIMEOUT = {'quick': 900, 'thorough': 3600}
ANCHORS = [
    ('pjrpc/server/specs/openapi.py', 'OpenAPI.schema'), ('pjrpc/server/specs/openapi.py', 'OpenAPI._extract_errors'),
    ('pjrpc/server/specs/openapi.py', 'OpenAPI._extract_request_schema'), ('pjrpc/server/specs/openapi.py', 'OpenAPI._extract_response_schema'),
    ('pjrpc/server/specs/openapi.py', 'OpenAPI._extract_errors_schema'),
    ('pjrpc/server/specs/openrpc.py', 'OpenRPC.schema'), ('pjrpc/server/specs/openrpc.py', 'OpenRPC._extract_params_schema'),
    ('pjrpc/server/specs/openrpc.py', 'OpenRPC._extract_errors'),
    ('pjrpc/server/specs/extractors/pydantic.py', 'PydanticSchemaExtractor._build_params_model'),
    ('pjrpc/server/specs/extractors/docstring.py', 'DocstringSchemaExtractor.extract_params_schema'),
    ('pjrpc/common/common.py', 'UnsetType.__deepcopy__'),
]
STACKS = ['default', 'pydantic', 'docstring', 'pydantic+docstring', 'docstring+pydantic']
KINDS_ = ['oas31', 'oas30', 'openrpc']
FLOORS = {'*': {'served:flask': 40, 'served:aiohttp': 40, 'served:several-endpoints': 20, 'served:openrpc': 15, 'served:oas31': 15, 'served:oas30': 15, **{f'{k}:{s}': 5 for k in ('oas31', 'oas30') for s in STACKS},
                **{f'openrpc:{s}': 5 for s in ('default', 'pydantic', 'docstring')},
                'shared-errors-list': 10, 'prefix-on-first-only': 5, 'prefix-on-later-only': 5, 'worker:oas31': 20, 'worker:oas30': 20,
                'worker:openrpc': 20, 'isolation-comparisons': 100, 'repeat-generations': 100, 'view-method': 10,
                'status-map-errors': 10, 'fingerprints-compared': 100, 'reused-spec-comparisons': 50, 'bystander-specs': 50, 'same-name-on-two-endpoints': 10, 'names-differing-only-in-separators': 5, 'pydantic-extractor-with-model-config': 20, 'root-path-with-a-trailing-slash': 50, 'one-annotate-decorator-object-on-several-methods': 10, 'methods-are-partial-objects': 10,
                'methods-map-values:one-shot-iterable': 100, 'methods-map-values:other-non-list-iterable': 30,
                'error-classes-sharing-a-code-on-different-methods': 40, 'second-registry-documents-sibling-error-classes': 100,
                'second-specification-object-over-the-same-extractor-objects': 200, 'entries-searched-for-foreign-errors': 1000}}

PENDING = []          # documents for the meta-schema worker: (key, kind, doc, case)


def fingerprint(o, depth=0, seen=None):
    """values + container identities and lengths (so in-place growth or replacement of a user object shows)"""
    if seen is None:
        seen = set()
    if depth > 8:
        return '<deep>'
    if isinstance(o, (str, int, float, bool, type(None))):
        return repr(o)
    if id(o) in seen:
        return f'<cycle {type(o).__name__}>'
    seen = seen | {id(o)}
    if isinstance(o, dict):
        return ('dict', id(o), len(o), tuple((repr(k), fingerprint(v, depth + 1, seen)) for k, v in o.items()))
    if isinstance(o, (list, tuple, set)):
        return (type(o).__name__, id(o), len(o), tuple(fingerprint(v, depth + 1, seen) for v in o))
    if dc.is_dataclass(o) and not isinstance(o, type):
        return (type(o).__name__, id(o), tuple((f.name, fingerprint(getattr(o, f.name), depth + 1, seen)) for f in dc.fields(o)))
    if isinstance(o, type):
        return ('class', o.__name__)
    return (type(o).__name__, id(o))


def inline(doc, node, stack=()):
    if isinstance(node, dict):
        ref = node.get('$ref')
        if isinstance(ref, str) and ref.startswith('#/'):
            if ref in stack:
                return {'$ref-cycle': ref.rsplit('/', 1)[-1]}
            cur = doc
            for part in ref[2:].split('/'):
                if isinstance(cur, dict) and part in cur:
                    cur = cur[part]
                else:
                    return {'$dangling': ref}
            rest = {k: inline(doc, v, stack) for k, v in node.items() if k != '$ref'}
            return {'$inlined': inline(doc, cur, stack + (ref,)), '$ref-name': ref, **rest}
        return {k: inline(doc, v, stack) for k, v in node.items()}
    if isinstance(node, list):
        return [inline(doc, v, stack) for v in node]
    return node


def entries(kind, doc):
    """exposed key -> inlined entry"""
    if kind == 'openrpc':
        out = {}
        for m in doc.get('methods', []):
            out.setdefault(m.get('name'), []).append(inline(doc, m))
        return out
    return {k: [inline(doc, v)] for k, v in doc.get('paths', {}).items()}


# what the values of `methods_map` (declared Mapping[str, Iterable[Method]]) are handed over as
ONE_SHOT = ['generator', 'filter', 'map', 'iter', 'chain', 'reversed', 'islice']
RE_ITERABLE = ['tuple', 'dict-values', 'deque', 'iterable-object']
CONTAINERS = ['list'] + ONE_SHOT + RE_ITERABLE


class _JustIterable:
    """re-iterable, but neither sized nor indexable"""

    def __init__(self, items):
        self._items = list(items)

    def __iter__(self):
        return iter(list(self._items))


def as_container(flavour, lst):
    lst = list(lst)
    if flavour == 'list':
        return lst
    if flavour == 'generator':
        return (m for m in lst)
    if flavour == 'filter':
        return filter(lambda m: m is not None, lst)
    if flavour == 'map':
        return map(lambda m: m, lst)
    if flavour == 'iter':
        return iter(lst)
    if flavour == 'chain':
        return itertools.chain(lst[:1], lst[1:])
    if flavour == 'reversed':
        return reversed(lst[::-1])
    if flavour == 'islice':
        return itertools.islice(lst, len(lst))
    if flavour == 'tuple':
        return tuple(lst)
    if flavour == 'dict-values':
        return {i: m for i, m in enumerate(lst)}.values()
    if flavour == 'deque':
        return collections.deque(lst)
    if flavour == 'iterable-object':
        return _JustIterable(lst)
    raise ValueError(flavour)


def container_tag(flavour):
    return '' if flavour == 'list' else ':methods-map-values-are-' + ('one-shot-iterables' if flavour in ONE_SHOT else 'non-list-iterables')


def documented_error_keys(m):
    """keys of specworld.ERRORS that the method's own annotations / docstring name"""
    ann = m.get('annotate') or {}
    own = set(['A', 'B'] if ann.get('errors') == 'shared' else ann.get('errors') or [])
    return own | {e for e in (m.get('doc') or {}).get('raises', []) if e in specworld.ERRORS}


def foreign_error_tokens(entry, m):
    """class names / messages of error classes in the (inlined) entry of a method that documents none of them"""
    own = documented_error_keys(m)
    tokens = lambda keys: {t for k in keys for t in (specworld.ERRORS[k].__name__, specworld.ERRORS[k].message)}
    text = json.dumps(entry)
    return sorted(t for t in tokens(specworld.ERRORS) - tokens(own) if t in text)


def same_code_classes_on_different_methods(methods):
    """two methods document DIFFERENT error classes that share one code"""
    for fam in specworld.SAME_CODE_FAMILIES:
        per_method = [documented_error_keys(m) & set(fam) for m in methods]
        if any(a and b and a != b for a, b in itertools.combinations(per_method, 2)):
            return True
    return False


def generate(kind, stack, method_specs, prefixes, shared, status_map, order=None):
    if order is not None:
        # only the selected methods exist (are defined, annotated, registered), in that order
        method_specs = [method_specs[i] for i in order]
        prefixes = [prefixes[i] for i in order]
    methods, funcs = specworld.build_methods(method_specs, shared)
    spec = specworld.make_spec(kind, stack, shared, status_map)
    mm = {}
    for m, p in zip(methods, prefixes):
        mm.setdefault(p, []).append(m)
    return spec, methods, funcs, mm


def endpoint_path(root, prefix):
    """where an endpoint lives: the root path as given, or root and prefix joined by exactly one slash"""
    return root if not prefix else root.rstrip('/') + '/' + prefix.lstrip('/')


def run_case(ctx, kind, stack, methods, prefixes, status_map, repeats, root='/api', container='list'):
    cls = (kind, stack, json.dumps(methods, sort_keys=True), tuple(prefixes), status_map, root, container)
    if container != 'list':
        ctx.hit('methods-map-values:' + ('one-shot-iterable' if container in ONE_SHOT else 'other-non-list-iterable'))
    ctag = container_tag(container)
    if root != '/api':
        ctx.hit('root-path-with-a-trailing-slash')
    fam = f'{kind}:{stack}'
    ctx.hit(fam)
    wit = dict(kind=kind, extractors=stack, methods=methods, endpoint_prefixes=prefixes, status_map=status_map,
               methods_map_values=container)
    shared = {'errors_list': [specworld.SpecErrA, specworld.SpecErrB], 'singular_extractor_kw': repeats % 2 == 0}
    try:
        spec, mobjs, funcs, mm = generate(kind, stack, methods, prefixes, shared, status_map)
    except Exception as e:
        ctx.violation(f'building-spec-raises:{type(e).__name__}', fam, cls, exception=e, **wit)
        return
    anns = [m.get('annotate') or {} for m in methods]
    if shared.get('pydantic_config') and 'pydantic' in stack:
        ctx.hit('pydantic-extractor-with-model-config')
    if any(m.get('partial') for m in methods):
        ctx.hit('methods-are-partial-objects')
    if sum(1 for a in anns if a.get('shared_deco')) >= 2:
        ctx.hit('one-annotate-decorator-object-on-several-methods')
    if sum(1 for a in anns if a.get('errors') == 'shared') >= 2:
        ctx.hit('shared-errors-list')
    if len(methods) > 1 and anns[0].get('prefix') and not any(a.get('prefix') for a in anns[1:]):
        ctx.hit('prefix-on-first-only')
    if len(methods) > 1 and not anns[0].get('prefix') and any(a.get('prefix') for a in anns[1:]):
        ctx.hit('prefix-on-later-only')
    if any(m.get('view') for m in methods):
        ctx.hit('view-method')
    if status_map and any(a.get('errors') for a in anns):
        ctx.hit('status-map-errors')
    if len({m['name'] for m in methods}) < len(methods):
        ctx.hit('same-name-on-two-endpoints')
    same_code = same_code_classes_on_different_methods(methods)
    if same_code:
        ctx.hit('error-classes-sharing-a-code-on-different-methods')
    sctag = ':error-classes-sharing-a-code' if same_code else ''
    watched = {'meta': [utils.get_meta(f) for f in funcs.values()], 'shared': shared}
    before = fingerprint(watched)
    docs = []
    for r in range(repeats):
        if r == 1:
            # a bystander: another specification object with another extractor is built and used in between; it must not
            # influence the one under test (nor be influenced by it)
            try:
                other_stack = 'docstring' if 'pydantic' in stack else 'pydantic'
                by_shared = {'errors_list': [specworld.SpecErrC], 'singular_extractor_kw': True}
                bystander = specworld.make_spec(kind, other_stack, by_shared, False)
                bm, _ = specworld.build_methods([{'name': 'bystander', 'params': [['q', 'PK', 'Other', False]], 'ret': 'Inner', 'ctx': None}], by_shared)
                bdoc = json.loads(json.dumps(bystander.schema(path='/other', methods_map={'': bm}), cls=specs.JSONEncoder))
                fresh_b = specworld.make_spec(kind, other_stack, {'errors_list': [specworld.SpecErrC], 'singular_extractor_kw': False}, False)
                fdoc = json.loads(json.dumps(fresh_b.schema(path='/other', methods_map={'': bm}), cls=specs.JSONEncoder))
                ctx.hit('bystander-specs')
                if not typed_eq(bdoc, fdoc):
                    ctx.violation('specification-object-influenced-by-another-one', fam, cls, difference=_first_diff(bdoc, fdoc), **wit)
                    return
            except Exception as e:
                ctx.violation(f'schema-raises:{type(e).__name__}:{kind}:bystander', fam, cls, exception=e, **wit)
                return
        try:
            # (every generation is handed a map of its own: a one-shot iterable can be walked once)
            d = spec.schema(path=root, methods_map={p_: as_container(container, ms_) for p_, ms_ in mm.items()})
        except Exception as e:
            ctx.violation(f'schema-raises:{type(e).__name__}:{kind}:{"default-or-docstring" if stack in ("default", "docstring") else stack}'
                          + (f':generation{r + 1}' if r else '') + ctag, fam, cls, exception=e, generation=r + 1, **wit)
            return
        try:
            text = json.dumps(d, cls=specs.JSONEncoder)
            docs.append(json.loads(text))
        except Exception as e:
            ctx.violation(f'document-not-encodable:{type(e).__name__}:{"openrpc" if kind == "openrpc" else "openapi"}', fam, cls, exception=e, **wit)
            return
    doc = docs[0]
    if 'Xq9base' in json.dumps(doc):
        ctx.violation('entry-carries-the-documentation-of-an-overridden-base-method', fam, cls, **wit)
        return
    bad_ref = _malformed_ref(doc)
    if bad_ref:
        ctx.violation('malformed-$ref-member', fam, cls, where=bad_ref, **wit)
        return
    # ---- purity: repeated generation identical, nothing the user handed in was touched
    for r, d in enumerate(docs[1:], 2):
        ctx.hit('repeat-generations')
        if not typed_eq(doc, d):
            ctx.violation('repeated-generation-differs', fam, cls, generation=r, **wit)
            return
    ctx.hit('fingerprints-compared')
    after = fingerprint(watched)
    if before != after:
        what = 'method-metadata' if before[3][0] != after[3][0] else 'user-object'
        grew = _grown(before, after)
        ctx.violation(f'generation-modified-{what}' + (f':{grew}' if grew else ''), fam, cls, **wit)
        return
    # ---- completeness: every (endpoint, method) exactly once
    ent = entries(kind, doc)
    if kind == 'openrpc':
        want = [m['name'] for m, p in zip(methods, prefixes) if p == '']
        got = [m.get('name') for m in doc.get('methods', [])]
        if sorted(want) != sorted(got):
            ctx.violation('openrpc-methods-not-exactly-the-registered-ones' + ctag, fam, cls, expected=want, got=got, **wit)
            return
    else:
        want = [f"{endpoint_path(root, p)}#{m['name']}" for m, p in zip(methods, prefixes)]
        got = list(doc.get('paths', {}))
        if sorted(want) != sorted(got):
            ctx.violation('openapi-paths-not-exactly-the-registered-methods' + ctag, fam, cls, expected=want, got=got, **wit)
            return
    # ---- an entry names no error class that only OTHER methods document (class names and messages are unique tokens)
    by_key = {}
    for m, p in zip(methods, prefixes):
        key = m['name'] if kind == 'openrpc' else f"{endpoint_path(root, p)}#{m['name']}"
        by_key.setdefault(key, []).append(m)
    for key, ms in by_key.items():
        if len(ms) == 1 and key in ent:
            ctx.hit('entries-searched-for-foreign-errors')
            foreign = foreign_error_tokens(ent[key], ms[0])
            if foreign:
                ctx.violation('method-entry-shows-an-error-class-documented-for-another-method-only' + sctag, fam, cls, entry=key, foreign=foreign,
                              own_errors=sorted(documented_error_keys(ms[0])), **wit)
                return
    # ---- isolation: each method alone, and the whole set in reverse order
    if len(methods) > 1:
        variants = [('reversed', list(range(len(methods)))[::-1])] + [(f'alone:{i}', [i]) for i in range(len(methods))]
        for label, order in variants:
            sh2 = {'errors_list': [specworld.SpecErrA, specworld.SpecErrB]}
            try:
                spec2, _, _, mm2 = generate(kind, stack, methods, prefixes, sh2, status_map, order)
                d2 = json.loads(json.dumps(spec2.schema(path=root, methods_map=mm2), cls=specs.JSONEncoder))
            except Exception as e:
                ctx.violation(f'schema-raises:{type(e).__name__}:{kind}:{label.split(":")[0]}', fam, cls, exception=e, variant=label, **wit)
                return
            e2 = entries(kind, d2)
            ctx.hit('isolation-comparisons')
            for key, val in e2.items():
                if key in ent and not typed_eq(ent[key], val):
                    diff = _first_diff(ent[key], val)
                    dup = False
                    for nm in {m['name'] for m in methods}:
                        group = [(m.get('annotate') or {}).get('prefix') for m in methods if m['name'] == nm]
                        if len(group) > 1 and (len(set(group)) < len(group) or None in group):
                            dup = True      # same exposed name on two endpoints without pairwise distinct component prefixes
                    ctx.violation('method-entry-depends-on-the-other-methods:' + _diff_class(diff)
                                  + (':same-exposed-name-on-two-endpoints-without-prefixes' if dup else sctag), fam, cls, variant=label,
                                  entry=key, difference=diff, **wit)
                    return
    # ---- the same specification object serves another registry afterwards: pure function of the registry it is given
    if repeats >= 2:
        variant = []
        for m in methods:
            v = dict(m)
            v['params'] = [[p[0], p[1], specworld.TYPES[(specworld.TYPES.index(p[2]) + 3) % len(specworld.TYPES)], p[3]] for p in m['params']]
            v['params'] = v['params'] + ([['z', 'KO', 'str', True]] if len(v['params']) < 3 else [])
            v['ret'] = specworld.RETURNS[(specworld.RETURNS.index(m.get('ret')) + 2) % len(specworld.RETURNS)]
            if isinstance((m.get('annotate') or {}).get('errors'), list):
                # ... and documents the next refinement of the same generic error (another class, the same code)
                v['annotate'] = dict(m['annotate'], errors=[specworld.SIBLING.get(e, e) for e in m['annotate']['errors']])
                if v['annotate']['errors'] != m['annotate']['errors']:
                    ctx.hit('second-registry-documents-sibling-error-classes')
                    sctag = ':error-classes-sharing-a-code'
            variant.append(v)
        try:
            sh3 = {'errors_list': [specworld.SpecErrA, specworld.SpecErrB]}
            vm, _ = specworld.build_methods(variant, sh3)
            mm3 = {}
            for mo, p_ in zip(vm, prefixes):
                mm3.setdefault(p_, []).append(mo)
            spec_again = spec
            if repeats == 3:
                # another specification object that is handed the SAME extractor objects
                spec_again = specworld.make_spec(kind, stack, {'singular_extractor_kw': False}, status_map,
                                                 extractor_objects=shared['extractor_objects'])
                ctx.hit('second-specification-object-over-the-same-extractor-objects')
            reused = json.loads(json.dumps(spec_again.schema(path=root, methods_map=mm3), cls=specs.JSONEncoder))
            sh4 = {'errors_list': [specworld.SpecErrA, specworld.SpecErrB]}
            spec4, _, _, mm4 = generate(kind, stack, variant, prefixes, sh4, status_map)
            fresh = json.loads(json.dumps(spec4.schema(path=root, methods_map=mm4), cls=specs.JSONEncoder))
        except Exception as e:
            ctx.violation(f'schema-raises:{type(e).__name__}:{kind}:second-registry', fam, cls, exception=e, **wit)
            return
        ctx.hit('reused-spec-comparisons')
        if not typed_eq(entries(kind, reused), entries(kind, fresh)):
            ctx.violation('document-depends-on-what-the-' + ('extractor-objects' if repeats == 3 else 'specification-object') + '-generated-before'
                          + sctag, fam, cls, difference=_first_diff(entries(kind, reused), entries(kind, fresh)), second_registry=variant, **wit)
            return
        if not typed_eq(reused, fresh):
            # the entries agree but the rest does not: components / tags / servers left over from the earlier registry
            ctx.violation('document-depends-on-what-the-' + ('extractor-objects' if repeats == 3 else 'specification-object')
                          + '-generated-before:outside-the-method-entries', fam, cls,
                          difference=_first_diff(reused, fresh), second_registry=variant, **wit)
            return
    PENDING.append((len(PENDING), kind, doc, ('case', dict(kind=kind, stack=stack, methods=methods, prefixes=prefixes,
                                                          status_map=status_map, repeats=repeats)), fam, cls, wit))
    ctx.ok(fam, cls, sample={'kind': kind, 'extractors': stack, 'methods': [m['name'] for m in methods], 'prefixes': prefixes,
                             'document_keys': list(doc.get('paths', {})) or [m.get('name') for m in doc.get('methods', [])]})


def _malformed_ref(node, path=''):
    """a `$ref` member is a reference string wherever it occurs (no Python parameter, field or key of the generated
    methods is spelled `$ref`)"""
    if isinstance(node, dict):
        if '$ref' in node and not isinstance(node['$ref'], str):
            return path + '/$ref'
        for k, v in node.items():
            r = _malformed_ref(v, f'{path}/{k}')
            if r:
                return r
    elif isinstance(node, list):
        for i, v in enumerate(node):
            r = _malformed_ref(v, f'{path}/{i}')
            if r:
                return r
    return None


def _grown(before, after):
    try:
        sb, sa = json.dumps(safe(before)), json.dumps(safe(after))
        return 'container-grew' if len(sa) > len(sb) else 'changed'
    except Exception:
        return ''


def _first_diff(a, b, path=''):
    if type(a) is not type(b):
        return f'{path}: {type(a).__name__} vs {type(b).__name__}'
    if isinstance(a, dict):
        for k in sorted(set(a) | set(b)):
            if k not in a or k not in b:
                return f'{path}/{k}: only on one side'
            d = _first_diff(a[k], b[k], f'{path}/{k}')
            if d:
                return d
        return ''
    if isinstance(a, list):
        if len(a) != len(b):
            return f'{path}: length {len(a)} vs {len(b)}'
        for i, (x, y) in enumerate(zip(a, b)):
            d = _first_diff(x, y, f'{path}/{i}')
            if d:
                return d
        return ''
    return '' if a == b else f'{path}: {a!r} vs {b!r}'


def _diff_class(diff):
    if '$ref-name' in diff:
        return 'component-name'
    if '$dangling' in diff or '$inlined' in diff and 'only on one side' in diff:
        return 'component-reference'
    if '/errors' in diff or 'error' in diff.lower():
        return 'errors'
    if 'tags' in diff:
        return 'tags'
    if 'examples' in diff:
        return 'examples'
    return 'other'


def finish(ctx):
    """out-of-process meta-schema validation of every recorded document"""
    if not PENDING:
        return
    work = tempfile.mkdtemp(prefix='c16-', dir=os.path.join(VERIF, '.work') if os.path.isdir(os.path.join(VERIF, '.work')) else None)
    inp, outp = os.path.join(work, 'in.jsonl'), os.path.join(work, 'out.jsonl')
    with open(inp, 'w') as f:
        for key, kind, doc, case, fam, cls, wit in PENDING:
            f.write(json.dumps({'key': key, 'kind': kind, 'doc': doc}) + '\n')
    env = {k: v for k, v in os.environ.items() if not k.startswith('PYTHON')}
    r = subprocess.run(['python3-vt', os.path.join(VERIF, 'vmon', 'metaschema_worker.py'), os.path.join(VERIF, 'vendor'), inp, outp],
                       capture_output=True, text=True, env=env, timeout=1500)
    if r.returncode != 0:
        ctx.note('worker_failure', r.stderr[-500:])
        return            # floors on worker:* make the run inconclusive
    by_key = {p[0]: p for p in PENDING}
    with open(outp) as f:
        for line in f:
            res = json.loads(line)
            key, kind, doc, case, fam, cls, wit = by_key[res['key']]
            ctx.current = case
            ctx.hit('worker:' + kind)
            vcls = cls + ('meta',)
            if res['refs']['dangling']:
                ctx.violation('dangling-$ref', fam, vcls, dangling=res['refs']['dangling'], **wit)
                continue
            errs = res['errors']
            if kind == 'oas30':
                if res['stripped_errors']:
                    ctx.violation('openapi-3.0-document-structurally-invalid', fam, vcls, errors=res['stripped_errors'], **wit)
                    continue
                if errs:
                    ctx.violation('openapi-3.0-document-uses-json-schema-2020-12-vocabulary', fam, vcls, errors=errs[:3], **wit)
                    continue
            elif errs:
                stack_name = case[1]['stack']
                # one mechanism per (failing keyword, part of the document): a defect in the errors list is another finding than
                # one in the parameter schemas
                seen_mech = set()
                for er in errs:
                    parts = er.get('deep_path', er['path']).split('/')
                    where = ('errors' if 'errors' in parts else 'params-or-result' if ('params' in parts or 'result' in parts) else
                             'components' if 'components' in parts else 'method-entry' if parts[:1] in (['methods'], ['paths']) else 'top-level')
                    mech = f'{kind}-document-fails-the-official-meta-schema:{stack_name}-extractor:{er.get("deep_validator", er["validator"])}:{where}'
                    if mech not in seen_mech:
                        seen_mech.add(mech)
                        ctx.violation(mech, fam, vcls, errors=[e for e in errs if e['path'] == er['path']][:2], **wit)
                continue
            ctx.ok(fam + ':meta-schema', vcls)
    try:
        import shutil
        shutil.rmtree(work, ignore_errors=True)
    except Exception:
        pass


# ---- generation ------------------------------------------------------------------------------------------

def random_method(rng, idx, allow_view=True):
    n = rng.choice([0, 1, 1, 2, 2, 3])
    params = []
    for i in range(n):
        typ = rng.choice(specworld.TYPES)
        kind = 'KO' if (i == n - 1 and rng.random() < 0.3) else 'PK'
        # (`ref` is an ordinary parameter name; nothing in a document may confuse it with a `$ref`)
        params.append([['a', 'b', 'c'][i] if (i < n - 1 or rng.random() < 0.7) else 'ref', kind, typ, False])
    # defaults suffix-closed among PK
    if params and rng.random() < 0.4:
        params[-1][3] = True
    m = {'name': rng.choice([f'm{idx}', f'm{idx}', f'm{idx}', f'ns.meth{idx}', f'rpc.meth{idx}', f'rpc.discover{idx or ""}']),
         'params': params, 'ret': rng.choice(specworld.RETURNS),
         'ctx': 'ctx' if rng.random() < 0.25 else None}
    if rng.random() < 0.55:
        m['doc'] = {'params': rng.choice([True, True, 'bare', False]), 'returns': rng.choice([True, 'rtype', False]), 'raises': rng.sample(['A', 'B', 'C', 'abstract', 'client', 'unknown', 'NFp', 'Dw'], rng.choice([0, 0, 1, 2, 3])),
                    'deprecated': rng.random() < 0.2}
    if rng.random() < 0.6:
        a = {}
        r = rng.random()
        if r < 0.35:
            a['errors'] = 'shared'
        elif r < 0.6:
            a['errors'] = rng.sample(['A', 'B', 'C'], rng.choice([1, 2]))
        elif r < 0.8:
            # one refinement of a generic application error (the refinements share its code), alone or next to an unrelated error
            a['errors'] = [rng.choice(rng.choice(specworld.SAME_CODE_FAMILIES))] + rng.sample(['A', 'C'], rng.choice([0, 0, 1]))
        if rng.random() < 0.3:
            a['tags'] = rng.sample(['t1', 't2', 't3'], rng.choice([1, 2]))
        if rng.random() < 0.3:
            a['examples'] = rng.choice([1, 2])
        if rng.random() < 0.3:
            a['summary'] = f'summary {idx}'
        if rng.random() < 0.2:
            a['description'] = f'description {idx}'
        if rng.random() < 0.15:
            a['deprecated'] = True
        if rng.random() < 0.2:
            a['servers'] = True
        if rng.random() < 0.2:
            a['security'] = True
        if rng.random() < 0.12 and params:
            a['params_schema'] = True
        if rng.random() < 0.12:
            a['result_schema'] = True
        if rng.random() < 0.3:
            a['prefix'] = rng.choice(['Px', 'Users_'])
        if rng.random() < 0.2:
            a['shared_deco'] = True
        m['annotate'] = a
    if allow_view and rng.random() < 0.15:
        m['view'] = True
    if rng.random() < 0.12:
        m['pep702'] = True
    return m


def gen(ctx):
    rng = ctx.rng
    full = ctx.thorough
    k = 0
    n_sets = 6000 if full else 330
    served_sets = []
    for _ in range(n_sets):
        n = rng.randint(1, 4 if full else 3)
        methods = [random_method(rng, i) for i in range(n)]
        prefixes = [rng.choice(['', '', '/sub']) for _ in methods]
        if '' not in prefixes:
            prefixes[0] = ''
        if n >= 2 and rng.random() < 0.15:
            # two names that differ only in a separator
            stem = methods[0]['name'].replace('.', '_')
            methods[0]['name'], methods[1]['name'] = f'grp.{stem}', f'grp_{stem}'
            methods[0]['fname'], methods[1]['fname'] = f'grp_dot_{stem}', f'grp_us_{stem}'
            ctx.hit('names-differing-only-in-separators')
        elif n >= 2 and rng.random() < 0.25:
            # a versioned API: the same exposed name on two endpoints, different signatures
            methods[1]['name'] = methods[0]['name']
            methods[1]['fname'] = methods[0]['name'].replace('.', '_') + '_v2'
            prefixes[0], prefixes[1] = '', '/sub'
            if rng.random() < 0.7:
                # the documented way to keep their components apart: a distinct component prefix per method
                methods[0].setdefault('annotate', {})['prefix'] = 'V1_'
                methods[1].setdefault('annotate', {})['prefix'] = 'V2_'
        if n >= 2 and rng.random() < 0.12:
            # two services refine one generic application error: the first and the last method document different refinements
            fam = rng.choice(specworld.SAME_CODE_FAMILIES)
            first, last = rng.sample(fam, 2)
            methods[0].setdefault('annotate', {})['errors'] = [first] + rng.sample(['B', 'C'], rng.choice([0, 1]))
            methods[-1].setdefault('annotate', {})['errors'] = [last]
        if k % 5 == 0:
            for m in methods:
                m['pd_config'] = True        # (on every method: the option belongs to the extractor, i.e. to the whole case)
        if _ % (3 if full else 6) == 0:
            served_sets.append((methods, prefixes))
        for kind in KINDS_:
            k += 1
            stacks = STACKS if kind != 'openrpc' else ['default', 'pydantic', 'docstring']
            stack = stacks[k % len(stacks)] if not full else rng.choice(stacks)
            # every second case hands the methods over in something else than a list (one-shot iterables twice as often)
            flavour = rng.choice(ONE_SHOT + RE_ITERABLE + ONE_SHOT)
            yield 'case', dict(kind=kind, stack=stack, methods=methods, prefixes=prefixes, status_map=bool(k % 3 == 0),
                               repeats=1 + k % 3, **({'root': ('/', '/api/v1/')[(k // 4) % 2]} if k % 4 == 0 else {}),
                               **({'container': flavour} if k % 2 else {}))
    # crafted: shared errors list, prefix on first / later only, docstring raises next to annotated errors
    base = lambda name, **kw: dict({'name': name, 'params': [['a', 'PK', 'int', False]], 'ret': 'Thing', 'ctx': None}, **kw)
    crafted = [
        [base('m0', annotate={'errors': 'shared'}, doc={'raises': ['C'], 'params': True}), base('m1', annotate={'errors': 'shared'})],
        [base('m0', annotate={'prefix': 'Users_', 'errors': ['A']}), base('m1'), base('m2', annotate={'errors': ['C']})],
        [base('m0'), base('m1', annotate={'prefix': 'Px'}), base('m2')],
        [base('m0', annotate={'errors': ['A', 'C'], 'prefix': 'Px'}), base('m1', annotate={'errors': ['A'], 'prefix': 'Users_'})],
        [base('m0', doc={'raises': ['A', 'B'], 'params': True, 'returns': True, 'deprecated': True}), base('m1', doc={'params': True})],
        [base('m0', view=True), base('m1', view=True, ctx='ctx')],
        [base('m0', doc={'raises': ['abstract', 'A'], 'params': True}), base('m1', doc={'raises': ['client', 'unknown'], 'returns': True})],
        [base('m0', doc={'params': 'bare', 'returns': 'rtype'}), base('m1', doc={'params': True, 'returns': 'rtype'})],
        [base('m0', doc={'params': 'bare'})],
        [base('rpc.discover'), base('rpc.x', pep702=True), base('m2', pep702=True, annotate={'deprecated': False})],
        # names that differ only in their separators are different methods with their own components
        [dict(base('user.get'), params=[['user_id', 'PK', 'int', False]], ret='Thing'),
         dict(base('user_get'), params=[['name', 'PK', 'str', False], ['strict', 'KO', 'bool', True]], ret='List[Other]'),
         dict(base('user-get'), params=[['q', 'PK', 'Inner', False]], ret='int')],
        [dict(base('a.b_c'), params=[['x', 'PK', 'Thing', False]]), dict(base('a_b.c'), params=[['y', 'PK', 'Other', False]], ret='str')],
        [dict(base('m0', annotate={'examples': 2, 'params_schema': True}), params=[['ref', 'PK', 'int', False], ['a', 'PK', 'Thing', True]]),
         dict(base('m1', annotate={'params_schema': True, 'result_schema': True}), params=[['a', 'PK', 'int', False], ['ref', 'KO', 'str', True]])],
        [base('m0', annotate={'tags': ['t1', 't2'], 'examples': 2, 'servers': True, 'security': True}), base('m1', annotate={'tags': ['t1', 't2']})],
        # partial objects over one function, annotated one by one (or not at all)
        [base('m0', partial=True, annotate={'summary': 's-m0', 'tags': ['t0'], 'errors': ['A'], 'examples': 1}),
         base('m1', partial=True, annotate={'summary': 's-m1', 'tags': ['t1'], 'errors': ['B']}), base('m2', partial=True)],
        [base('m0', partial=True), base('m1', partial=True, annotate={'description': 'only m1', 'deprecated': True, 'errors': ['C']})],
        [base('m0', annotate={'shared_deco': True, 'summary': 'own-m0', 'deprecated': True, 'examples': 1}), base('m1', annotate={'shared_deco': True}),
         base('m2', annotate={'shared_deco': True})],
        [base('m0', annotate={'shared_deco': True}), base('m1', annotate={'shared_deco': True, 'description': 'own-m1', 'errors': ['B']})],
        [base('m0', pd_config=True, annotate={'errors': ['A']}), base('m1', pd_config=True)],
        # refinements of one generic error (same code, own class name / message), each documented for another method
        [base('m0', annotate={'errors': ['NFu']}), base('m1', annotate={'errors': ['NFp']})],
        [base('m0', annotate={'errors': ['NFp', 'A']}), base('m1', annotate={'errors': ['NF']}), base('m2', annotate={'errors': ['NFu', 'Dr']})],
        [base('m0', annotate={'errors': ['Dw']}), base('m1', annotate={'errors': ['D'], 'prefix': 'Px'}), base('m2', view=True, annotate={'errors': ['Dr']})],
        [base('m0', annotate={'errors': ['Dr']}, doc={'raises': ['NFp'], 'params': True}), base('m1', annotate={'errors': ['NFu']}, doc={'raises': ['Dw']})],
        [base('m0', pd_config=True, doc={'raises': ['B'], 'params': True}), base('m1', pd_config=True, annotate={'errors': ['C']}), base('m2', pd_config=True)],
    ]
    for methods in crafted:
        for kind in KINDS_:
            for stack in (STACKS if kind != 'openrpc' else ['default', 'pydantic', 'docstring']):
                for sm in (False, True):
                    yield 'case', dict(kind=kind, stack=stack, methods=methods, prefixes=[''] * len(methods), status_map=sm, repeats=3)
        served_sets.append((methods, [''] * len(methods)))
        if len(methods) > 1:
            served_sets.append((methods, [''] + ['/sub'] * (len(methods) - 1)))
    yield from gen_served(ctx, served_sets)


def gen_served(ctx, method_sets):
    """the document as an application publishes it: through the route a web integration adds for a specification object"""
    from . import _c16_served
    k = 0
    for methods, prefixes in method_sets:
        for integration in _c16_served.INTEGRATIONS:
            k += 1
            kind = KINDS_[k % 3]
            stacks = STACKS if kind != 'openrpc' else ['default', 'pydantic', 'docstring']
            yield 'served', dict(kind=kind, stack=stacks[(k // 3) % len(stacks)], methods=methods, prefixes=prefixes, integration=integration,
                                 base=('/api', '/api/v1/', '/rpc', '/a/b/c')[(k // 2) % 4], status_map=bool(k % 5 == 0))


def run_served(ctx, **kw):
    from . import _c16_served
    _c16_served.run_served(ctx, **kw)


KINDS = {'case': run_case, 'served': run_served}
