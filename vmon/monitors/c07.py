"""C07 - calling through client and server equals calling the function, in every notation."""
from __future__ import annotations

import functools
import json

import pjrpc
from pjrpc.common import UNSET, generators, v20
from pjrpc.common.exceptions import JsonRpcError

from .. import clientside, serverside, strictjson, world
from ..gen import docs
from ..models import server as model
from ..models import wire
from ..strictjson import typed_eq

PID = 'C07'
LEVEL = 'exploration'
RULE = ('one case = one call program (1..4 logical calls / notifications on probe methods that return, raise registered '
        'typed errors, raise unregistered codes or raise arbitrary exceptions) executed in one notation (call, client(), '
        'proxy attribute, hand-built Request via send, notify; batch add/notify, batch() chaining, batch[...], batch.proxy, '
        'hand-built BatchRequest) by the real sync or async client whose transport hands the text to the real sync or '
        'async dispatcher. Judged: exactly one well-formed request document per operation (ids present and pairwise '
        'distinct for calls, absent for notifications, params as given), value / exception equal to the direct invocation '
        'of the reference twin, server-side executions, and equality of all notations of one program. Distinct = distinct '
        '(program, notation, client kind, dispatcher kind, id generator, strict).')
ASSUMPTIONS = [
    'the reference for "direct invocation" is the twin table in vmon/models/server.py (same bodies as the probe methods)',
    'for a batch containing failing calls, call() must raise the error of the first failing call in call order',
    'message/data of library-generated errors (-32601, -32602) are compared with what the server put on the wire, not with a fixed text',
]
SHARDS = {'quick': 4, 'thorough': 16}
TIMEOUT = {'quick': 900, 'thorough': 3600}
ANCHORS = [
    ('pjrpc/client/client.py', 'AbstractClient.call'), ('pjrpc/client/client.py', 'AbstractAsyncClient.call'),
    ('pjrpc/client/client.py', 'AbstractClient.notify'), ('pjrpc/client/client.py', 'AbstractAsyncClient.notify'),
    ('pjrpc/client/client.py', 'AbstractClient._send'), ('pjrpc/client/client.py', 'AbstractAsyncClient._send'),
    ('pjrpc/client/client.py', 'BaseBatch.add'), ('pjrpc/client/client.py', 'BaseBatch.notify'),
    ('pjrpc/client/client.py', 'BaseBatch.__getitem__'), ('pjrpc/client/client.py', 'BaseBatch.__call__'),
    ('pjrpc/client/client.py', 'BaseBatch._relate'), ('pjrpc/client/client.py', 'BaseAbstractClient._relate'),
    ('pjrpc/common/v20.py', 'BatchResponse.result'), ('pjrpc/common/v20.py', 'Response.result'),
    ('pjrpc/common/generators.py', 'sequential'), ('pjrpc/common/generators.py', 'randint'),
    ('pjrpc/common/generators.py', 'random'),
]
NOTATIONS_SINGLE = ['call', 'dunder-call', 'proxy', 'send', 'notify']
NOTATIONS_BATCH = ['add', 'chain', 'getitem', 'batch-proxy', 'batch-proxy-dunder-call', 'hand-built', 'hand-built-lenient', 'hand-built-extended']
FLOORS = {'*': {'server:application-json-encoder': 50, 'client:logging-tracer-attached': 300,
                **{f'notation:{n}:{k}': 20 for n in NOTATIONS_SINGLE + NOTATIONS_BATCH for k in ('sync', 'async')},
                'error-base:get_error_cls-hook': 300,
                'all-notification-batch:sync': 5, 'all-notification-batch:async': 5, 'idgen:sequential': 100,
                'idgen:randint': 50, 'idgen:random': 50, 'idgen:uuid': 10, 'outcome:result': 200, 'outcome:typed-error': 20,
                'outcome:unregistered-code': 20, 'outcome:server-error': 20, 'strict:off': 50, 'interchange:groups': 50,
                'dispatcher:sync': 100, 'dispatcher:async': 100, **{f'backend:{b}': 60 for b in ('requests', 'httpx', 'httpx-async', 'aiohttp')}}}

IDGENS = {
    'sequential': generators.sequential,
    'randint': functools.partial(generators.randint, 0, 2 ** 62),
    'random': functools.partial(generators.random, 8),
    'uuid': generators.uuid,
}
REG = {
    -32700: pjrpc.exceptions.ParseError, -32600: pjrpc.exceptions.InvalidRequestError,
    -32601: pjrpc.exceptions.MethodNotFoundError, -32602: pjrpc.exceptions.InvalidParamsError,
    -32603: pjrpc.exceptions.InternalError, -32000: pjrpc.exceptions.ServerError,
    world.TYPED_CODE: world.ProbeTypedError, world.STALE_CODE: world.ProbeStaleError,
    world.FIELDS_CODE: world.ProbeFieldErrors,
}


class CustomBase(JsonRpcError):
    pass


class HookedBase(JsonRpcError):
    """a client-side base class that overrides the documented `get_error_cls(code, default)` hook (one error hierarchy per
    service): for the codes it knows, ITS classes are used, whatever else is registered for those codes"""

    @classmethod
    def get_error_cls(cls, code, default):
        return HOOKED.get(code) or super().get_error_cls(code, default)


class _HookedNoCode(HookedBase):
    """classes handed out by the hook carry no class-level code: they are not in the global registry"""


class HookedTyped(_HookedNoCode):
    pass


class HookedNotFound(_HookedNoCode):
    pass


class HookedUnregistered(_HookedNoCode):
    pass


HOOKED = {world.TYPED_CODE: HookedTyped, -32601: HookedNotFound, 1234: HookedUnregistered}
BASES = {'default': JsonRpcError, 'custom': CustomBase, 'hooked': HookedBase}


# a logical call: [method, 'args'|'kwargs', payload, is_notification]

def call_pool(rng, full):
    pool = []
    for fam, method, params in docs.typed_calls(rng, full):
        if fam in ('rpcerr-misuse',):
            continue
        pool.append([method, 'kwargs' if isinstance(params, dict) else 'args', params])
    return pool


class AppEncoder(pjrpc.server.JSONEncoder):
    """the application's own encoder on the SERVER (the documented way to return sets, bytes, UUIDs ...): part of the
    JSON normalisation of a result"""

    def default(self, o):
        if isinstance(o, (set, frozenset)):
            return sorted(o)
        if isinstance(o, bytes):
            return o.decode('latin-1')
        return super().default(o)


APP_ENCODED = {'set': [1, 2], 'bytes': 'x'}


def expected_of(call):
    """('result', value) / ('error', code, message|ANY, data|ABSENT|ANY) for one logical call, plus executions."""
    method, how, payload = call[:3]
    if method == 'unenc':
        # only generated for dispatchers that carry AppEncoder: the value a direct invocation returns, as that encoder writes it
        what = payload[0] if how == 'args' else payload['what']
        return ('result', APP_ENCODED[what]), [('unenc', (what,), {})]
    doc = {'jsonrpc': '2.0', 'id': 1, 'method': method}
    if payload:
        doc['params'] = payload
    exp = model.expected(doc)
    r = exp.response
    if 'result' in r:
        return ('result', r['result']), exp.executions
    e = r['error']
    return ('error', e['code'], e['message'], e.get('data', model.ABSENT_MEMBER)), exp.executions


def check_exception(exc, want, error_cls):
    """None or a mechanism fragment"""
    _, code, message, data = want
    if not isinstance(exc, JsonRpcError):
        return f'raised-{type(exc).__name__}-instead-of-protocol-error'
    want_cls = REG.get(code, error_cls)
    if error_cls is HookedBase and code in HOOKED:
        want_cls = HOOKED[code]
    if type(exc) is not want_cls:
        return f'wrong-exception-class:{"registered" if code in REG else "unregistered"}-code'
    if exc.code != code:
        return 'exception-code-differs'
    if message is not model.ANY_STR and exc.message != message:
        return 'exception-message-differs'
    if data is model.ABSENT_MEMBER:
        if exc.data is not UNSET:
            return 'exception-data-appeared'
    elif data is not model.ANY:
        if exc.data is UNSET:
            return 'exception-data-lost'
        if not typed_eq(model.normalise(exc.data), model.normalise(data)):
            return 'exception-data-differs'
    return None


def make_client(is_async_client, w, idgen, strict, error_cls):
    transport = clientside.loopback_transport(w, is_async_client)
    cls = clientside.AsyncClient if is_async_client else clientside.SyncClient
    kw = {}
    if not strict or error_cls is not JsonRpcError:
        # the library's own tracer rides along on part of the clients: it changes nothing about results or exceptions
        from pjrpc.client.tracer import LoggingTracer
        kw['tracers'] = [LoggingTracer()]
    return cls(transport, id_gen_impl=IDGENS[idgen], strict=strict, error_cls=error_cls, **kw)


class PeerServer:
    """a loop-back HTTP peer in a thread of this process: POST bodies go to the dispatcher of the probe world currently
    attached, the answer travels back as the integration examples do it (200, JSON content type, empty body for nothing)"""

    _instance = None

    def __init__(self):
        import http.server
        import threading
        outer = self
        self.world = None
        self.sent = []          # what arrived, in the shape of clientside.Wire.sent

        class Handler(http.server.BaseHTTPRequestHandler):
            protocol_version = 'HTTP/1.1'

            def do_POST(self):
                n = int(self.headers.get('Content-Length') or 0)
                body = self.rfile.read(n).decode('utf-8')
                outer.sent.append({'text': body, 'is_notification': None, 'kwargs': {'content_type': self.headers.get('Content-Type')}})
                out = outer.world.dispatcher.dispatch(body)
                payload = b'' if out is None else out[0].encode('utf-8')
                self.send_response(200)
                if payload:
                    self.send_header('Content-Type', 'application/json')
                self.send_header('Content-Length', str(len(payload)))
                self.end_headers()
                self.wfile.write(payload)

            def log_message(self, *a):
                pass

        self.httpd = http.server.ThreadingHTTPServer(('127.0.0.1', 0), Handler)
        self.url = f'http://127.0.0.1:{self.httpd.server_address[1]}/rpc'
        threading.Thread(target=self.httpd.serve_forever, daemon=True).start()

    def clear(self):
        del self.sent[:]

    @classmethod
    def get(cls):
        if cls._instance is None:
            cls._instance = cls()
        return cls._instance


BACKENDS = ('requests', 'httpx', 'httpx-async', 'aiohttp')


def make_backend_client(backend, w, idgen, strict, error_cls):
    """one of the library's OWN client backends, talking HTTP to the loop-back peer (None if it cannot be imported here)"""
    import importlib
    peer = PeerServer.get()
    peer.world = w
    peer.clear()
    kw = dict(id_gen_impl=IDGENS[idgen], strict=strict, error_cls=error_cls)
    try:
        if backend == 'requests':
            client = importlib.import_module('pjrpc.client.backend.requests').Client(peer.url, **kw)
        elif backend == 'httpx':
            client = importlib.import_module('pjrpc.client.backend.httpx').Client(peer.url, **kw)
        elif backend == 'httpx-async':
            client = importlib.import_module('pjrpc.client.backend.httpx').AsyncClient(peer.url, **kw)
        else:
            mod = importlib.import_module('pjrpc.client.backend.aiohttp')

            async def mk():
                return mod.Client(peer.url, **kw)       # (the session wants to be created inside the loop it is used in)
            client = world.run(mk())
    except ImportError:
        return None
    client.wire = peer
    return client


def close_backend_client(backend, client):
    try:
        if backend in ('httpx-async', 'aiohttp'):
            world.run(client.close())
        else:
            client.close()
    except Exception:
        pass


def run_single(client, notation, call, is_async):
    method, how, payload = call[:3]
    args = tuple(payload) if how == 'args' else ()
    kwargs = dict(payload) if how == 'kwargs' else {}
    if notation == 'call':
        return clientside.outcome_of(lambda: client.call(method, *args, **kwargs), is_async)
    if notation == 'dunder-call':
        return clientside.outcome_of(lambda: client(method, *args, **kwargs), is_async)
    if notation == 'proxy':
        return clientside.outcome_of(lambda: getattr(client.proxy, method)(*args, **kwargs), is_async)
    if notation == 'notify':
        return clientside.outcome_of(lambda: client.notify(method, *args, **kwargs), is_async)
    if notation == 'send':
        def op():
            req = client.request_class(method, args or kwargs, id=next(client.id_gen_impl()))
            return client.send(req)
        st, v = clientside.outcome_of(op, is_async)
        if st == 'exc':
            return st, v
        return clientside.outcome_of(lambda: v.result, False)
    raise KeyError(notation)


def run_batch(client, notation, calls, is_async):
    def build():
        b = client.batch
        if notation == 'add':
            for m, how, p, notif in calls:
                a, k = (tuple(p), {}) if how == 'args' else ((), dict(p))
                (b.notify if notif else b.add)(m, *a, **k)
            return b.call()
        if notation == 'chain':
            for m, how, p, notif in calls:
                a, k = (tuple(p), {}) if how == 'args' else ((), dict(p))
                b = b.notify(m, *a, **k) if notif else b(m, *a, **k)
            return b.call()
        if notation == 'getitem':
            return b[tuple((m, *p) for m, how, p, notif in calls)]
        if notation == 'batch-proxy':
            pr = b.proxy
            for m, how, p, notif in calls:
                a, k = (tuple(p), {}) if how == 'args' else ((), dict(p))
                pr = getattr(pr, m)(*a, **k)
            return pr.call()
        if notation == 'batch-proxy-dunder-call':
            pr = b.proxy
            for m, how, p, notif in calls:
                a, k = (tuple(p), {}) if how == 'args' else ((), dict(p))
                pr = getattr(pr, m)(*a, **k)
            return pr()                       # `client.batch.proxy.a(1).b(2)()`
        raise KeyError(notation)
    if notation == 'hand-built-extended':
        # one BatchRequest object sent, grown with extend(), and sent again: the second document holds everything
        def build_reqs():
            idg = client.id_gen_impl()
            return [client.request_class(m, (tuple(p) if how == 'args' else dict(p)), id=None if notif else next(idg))
                    for m, how, p, notif in calls]

        def after_first():
            client.wire.clear()
            getattr(client, '_vmon_reset', lambda: None)()

        if is_async:
            async def asend():
                reqs = build_reqs()
                req = client.batch_request_class(*reqs[:1])
                try:
                    await client.batch.send(req)
                except Exception:
                    pass
                after_first()
                req.extend(reqs[1:])
                return await client.batch.send(req)
            st, v = clientside.outcome_of(asend, True)
        else:
            def ssend():
                reqs = build_reqs()
                req = client.batch_request_class(*reqs[:1])
                try:
                    client.batch.send(req)
                except Exception:
                    pass
                after_first()
                req.extend(reqs[1:])
                return client.batch.send(req)
            st, v = clientside.outcome_of(ssend, False)
        if st == 'exc' or v is None:
            return st, v
        return clientside.outcome_of(lambda: v.result, False)
    if notation in ('hand-built', 'hand-built-lenient'):
        def send():
            b = client.batch
            idg = client.id_gen_impl()
            # 'hand-built-lenient': the caller builds the batch with strict=False (no duplicate-id check on the batch object)
            extra = {'strict': False} if notation == 'hand-built-lenient' else {}
            req = client.batch_request_class(*[client.request_class(m, (tuple(p) if how == 'args' else dict(p)),
                                                                    id=None if notif else next(idg)) for m, how, p, notif in calls], **extra)
            return b.send(req)
        st, v = clientside.outcome_of(send, is_async)
        if st == 'exc' or v is None:
            return st, v
        return clientside.outcome_of(lambda: v.result, False)
    return clientside.outcome_of(build, is_async)


def judge_wire(sent, calls, single_notification=False):
    """problems of the request documents seen by the transport for one operation"""
    if len(sent) != 1:
        return f'wire:{len(sent)}-documents-instead-of-1', None
    try:
        doc = strictjson.decode(sent[0]['text'])
    except strictjson.NotJson:
        return 'wire:request-text-not-json', None
    is_batch = isinstance(doc, list)
    elems = doc if is_batch else [doc]
    if len(elems) != len(calls):
        return f'wire:{len(elems)}-elements-for-{len(calls)}-calls', doc
    ids = []
    for el, (m, how, p, notif) in zip(elems, calls):
        pr = wire.request_object_problem(el)
        if pr:
            return 'wire:' + pr, doc
        if el['method'] != m:
            return 'wire:method-differs', doc
        if notif:
            if 'id' in el:
                return 'wire:notification-carries-id', doc
        else:
            if 'id' not in el:
                return 'wire:call-without-id', doc
            if any(typed_eq(el['id'], i) for i in ids):
                return 'wire:duplicate-ids-in-batch', doc
            ids.append(el['id'])
        if p:
            want = list(p) if how == 'args' else dict(p)
            if 'params' not in el or not typed_eq(el['params'], model.normalise(want)):
                return 'wire:params-not-as-given:' + how, doc
        elif 'params' in el and el['params'] not in ([], {}):
            return 'wire:params-invented', doc
    if sent[0]['is_notification'] is not None and sent[0]['is_notification'] != all(c[3] for c in calls):
        return 'wire:is_notification-flag-wrong', doc
    return None, doc


def strip_ids(doc):
    if isinstance(doc, list):
        return [strip_ids(d) for d in doc]
    if isinstance(doc, dict):
        d = dict(doc)
        if 'id' in d:
            d['id'] = '<id>'
        return d
    return doc


def run_program(ctx, calls, notations, client_async, disp_async, idgen, strict, base, server_encoder=False, backend=None):
    if backend:
        client_async, disp_async = backend in ('httpx-async', 'aiohttp'), False
    w = serverside.get_world(disp_async, None, **({'json_encoder': AppEncoder} if server_encoder else {}))
    if server_encoder:
        ctx.hit('server:application-json-encoder')
    if not strict or BASES.get(base, JsonRpcError) is not JsonRpcError:
        ctx.hit('client:logging-tracer-attached')
    error_cls = BASES.get(base, JsonRpcError)
    ck = 'async' if client_async else 'sync'
    if base == 'hooked':
        ctx.hit('error-base:get_error_cls-hook')
    observations = {}
    expectations = [expected_of(c) for c in calls]
    want_exec = serverside.normalise_calls([e for _, ex in expectations for e in ex])
    for notation in notations:
        if backend:
            client = make_backend_client(backend, w, idgen, strict, error_cls)
            if client is None:
                ctx.skip(f'backend-not-importable:{backend}')
                return
            ctx.hit(f'backend:{backend}')
        else:
            client = make_client(client_async, w, idgen, strict, error_cls)
        client._vmon_reset = w.log.clear
        w.log.clear()
        cs = [list(c) + [False] if len(c) == 3 else list(c) for c in calls]
        if notation in NOTATIONS_SINGLE:
            cs[0][3] = notation == 'notify'
            st, v = run_single(client, notation, cs[0], client_async)
        else:
            st, v = run_batch(client, notation, cs, client_async)
        if backend:
            close_backend_client(backend, client)
        got_exec = serverside.normalise_calls(w.log.calls)
        cls = (json.dumps(calls, default=str), notation, ck, disp_async, idgen, strict, base, backend)
        fam = f'{notation}:{ck}' + (f':backend-{backend}' if backend else '')
        ctx.hit(f'notation:{notation}:{ck}')
        ctx.hit('idgen:' + idgen)
        ctx.hit('dispatcher:' + ('async' if disp_async else 'sync'))
        if not strict:
            ctx.hit('strict:off')
        wit = dict(calls=cs, notation=notation, client=ck, dispatcher='async' if disp_async else 'sync', id_generator=idgen,
                   strict=strict, error_cls=base, outcome=[st, v], wire=[s['text'] for s in client.wire.sent], backend=backend,
                   server_executions=w.log.calls)
        if w.log.ctor_failed:
            ctx.skip('probe-could-not-construct-protocol-error')
            continue
        if idgen == 'uuid' and st == 'exc' and isinstance(v, TypeError) and not all(c[3] for c in cs):
            ctx.violation('id-generator-yields-non-json-id:uuid', fam, cls, **wit)
            continue
        prob, doc = judge_wire(client.wire.sent, cs)
        if prob:
            ctx.violation(prob, fam, cls, **wit)
            continue
        if got_exec != want_exec:
            ctx.violation('server-executions-differ-from-direct-invocation', fam, cls, expected_executions=want_exec, **wit)
            continue
        # expected caller-side outcome
        live = [(c, e[0]) for c, e in zip(cs, expectations) if not c[3]]
        if not live:
            ctx.hit(f'all-notification-batch:{ck}' if notation in NOTATIONS_BATCH else 'single-notification')
            if st != 'ret' or v is not None:
                ctx.violation('notification-returned-or-raised-something', fam, cls, **wit)
                continue
            outcome_key = ('none',)
        else:
            first_err = next((e for _, e in live if e[0] == 'error'), None)
            if first_err is not None:
                if st != 'exc':
                    ctx.violation('failing-call-did-not-raise', fam, cls, expected=repr(first_err[:2]), **wit)
                    continue
                pr = check_exception(v, first_err, error_cls)
                if pr:
                    ctx.violation(pr, fam, cls, expected=repr(first_err), **wit)
                    continue
                code = first_err[1]
                ctx.hit('outcome:typed-error' if code == world.TYPED_CODE else ('outcome:server-error' if code == -32000 else
                        ('outcome:unregistered-code' if code not in REG else 'outcome:standard-error')))
                outcome_key = ('exc', type(v).__name__, v.code, v.message, repr(v.data))
            else:
                if st != 'ret':
                    ctx.violation(f'successful-call-raised:{type(v).__name__}', fam, cls, **wit)
                    continue
                want = [model.normalise(e[1]) for _, e in live]
                got = v
                if notation in NOTATIONS_BATCH:
                    if not isinstance(v, tuple):
                        ctx.violation('batch-result-not-a-tuple', fam, cls, **wit)
                        continue
                    got = list(v)
                else:
                    want = want[0]
                if not typed_eq(model.normalise(got), want):
                    ctx.violation('value-differs-from-direct-invocation', fam, cls, expected=want, **wit)
                    continue
                ctx.hit('outcome:result')
                outcome_key = ('ret', repr(model.normalise(got)))
        observations[notation] = (strip_ids(doc), outcome_key)
        ctx.ok(fam + (':batch' if notation in NOTATIONS_BATCH else ''), cls,
               sample={'calls': cs, 'notation': notation, 'client': ck, 'dispatcher': 'async' if disp_async else 'sync',
                       'id_generator': idgen, 'wire': client.wire.sent[0]['text'], 'outcome': [st, v]})
    # interchangeability: same calls, same role (notification or not) => same wire modulo ids, same outcome
    groups = {}
    for n, (d, o) in observations.items():
        role = 'notify' if n == 'notify' else ('batch' if n in NOTATIONS_BATCH else 'call')
        groups.setdefault(role, []).append((n, d, o))
    for role, members in groups.items():
        if len(members) > 1:
            ctx.hit('interchange:groups')
            n0, d0, o0 = members[0]
            for n, d, o in members[1:]:
                if not typed_eq(d0, d) or o0 != o:
                    ctx.violation('notations-not-interchangeable', f'interchange:{ck}',
                                  (json.dumps(calls, default=str), n0, n, ck), calls=calls, a=n0, b=n, wire_a=d0, wire_b=d,
                                  outcome_a=o0, outcome_b=o)
                    break
            else:
                ctx.ok(f'interchange:{role}:{ck}', (json.dumps(calls, default=str), role, ck, disp_async, idgen, strict))


def _one_stale(calls):
    """`stale` updates and raises ONE long-lived error object (state of the application's own): two of them in one batch alias
    each other whatever the library does, so a batch holds at most one"""
    seen = False
    for c in calls:
        if c[0] == 'stale':
            if seen:
                c[0:3] = ['ok', 'args', ['instead-of-a-second-stale']]
            seen = True
    return calls


def gen(ctx):
    rng = ctx.rng
    deep = ctx.thorough
    full = True
    pool = call_pool(rng, full)
    positional_ok = [c for c in pool if c[1] == 'args']
    cfgs = [(ca, da) for ca in (False, True) for da in (False, True)]
    k = 0

    def cfg():
        nonlocal k
        k += 1
        ca, da = cfgs[k % 4]
        idgen = ('sequential', 'randint', 'random', 'sequential', 'uuid', 'sequential', 'random')[k % 7]
        strict = (k % 5) != 0
        base = ('custom', 'default', 'hooked', 'default', 'default', 'hooked')[k % 6]
        return dict(client_async=ca, disp_async=da, idgen=idgen, strict=strict, base=base)

    # single-call notations over the whole pool
    for c in pool:
        for _ in range(2 if full else 1):
            yield 'program', dict(calls=[c], notations=NOTATIONS_SINGLE, **cfg())
    # batches of 1..4 mixing calls and notifications
    n_batches = 150000 if deep else 10000
    for _ in range(n_batches):
        n = rng.randint(1, 4)
        positional_only = rng.random() < 0.5
        src = positional_ok if positional_only else pool
        calls = _one_stale([list(rng.choice(src)) + [False] for _ in range(n)])
        if positional_only:
            notations = ['add', 'chain', 'getitem', 'batch-proxy', 'batch-proxy-dunder-call', 'hand-built', 'hand-built-lenient', 'hand-built-extended']
        else:
            notations = ['add', 'chain', 'batch-proxy', 'batch-proxy-dunder-call', 'hand-built', 'hand-built-lenient', 'hand-built-extended']
        if rng.random() < 0.45:
            for c in calls:
                c[3] = rng.random() < 0.5
            notations = ['add', 'chain', 'hand-built', 'hand-built-lenient']
        yield 'program', dict(calls=calls, notations=notations, **cfg())
    # the library's own HTTP backends against a loop-back peer serving the probe world (same programs, same judgement)
    for i in range(len(BACKENDS) * (400 if deep else 40)):
        b = BACKENDS[i % len(BACKENDS)]
        if i % 3 == 0:
            c = pool[(i * 7) % len(pool)]
            yield 'program', dict(calls=[c], notations=NOTATIONS_SINGLE, backend=b, **cfg())
        else:
            n = rng.randint(1, 3)
            calls = _one_stale([list(rng.choice(positional_ok)) + [rng.random() < 0.3] for _ in range(n)])
            yield 'program', dict(calls=calls, notations=['add', 'chain', 'hand-built', 'batch-proxy-dunder-call']
                                  if not any(c_[3] for c_ in calls) else ['add', 'chain', 'hand-built'], backend=b, **cfg())
    # a dispatcher with an application encoder: results only that encoder can write, next to ordinary calls
    enc_calls = [['unenc', 'args', ['set']], ['unenc', 'kwargs', {'what': 'bytes'}], ['unenc', 'args', ['bytes']]]
    for rep_ in range(40 if full else 10):
        c = enc_calls[rep_ % 3]
        yield 'program', dict(calls=[c], notations=NOTATIONS_SINGLE, server_encoder=True, **cfg())
        calls = [list(rng.choice(enc_calls + positional_ok[:20])) + [False] for _ in range(rng.randint(1, 3))]
        yield 'program', dict(calls=calls, notations=['add', 'chain', 'hand-built', 'batch-proxy'] + (['getitem'] if all(c_[1] == 'args' for c_ in calls) else []),
                              server_encoder=True, **cfg())
    # batches whose earlier calls really suspend longer than later ones (completion order != request order)
    for ticks in ([3, 0], [2, 1, 0], [0, 3, 1], [3, 2, 1, 0], [1, 0, 2]):
        for _ in range(6 if full else 2):
            calls = [['slow', 'args', [f'v{i}', t], False] for i, t in enumerate(ticks)]
            yield 'program', dict(calls=calls, notations=NOTATIONS_BATCH, **cfg())
    # all-notification batches
    for n in (1, 2, 3, 4):
        for _ in range(8 if full else 3):
            calls = _one_stale([list(rng.choice(pool)) + [True] for _ in range(n)])
            yield 'program', dict(calls=calls, notations=['add', 'chain', 'hand-built', 'hand-built-lenient'], **cfg())


KINDS = {'program': run_program}
