"""C03 - failures map to the JSON-RPC 2.0 error codes; application errors pass verbatim; nothing of an
arbitrary exception leaks into the response."""
from __future__ import annotations

from .. import serverside
from ..gen import docs
from ..models import server as model

PID = 'C03'
LEVEL = 'exploration'
RULE = ('one case = one request text on one dispatcher kind, judged against the failure table of the reference model '
        '(vmon/models/server.py): not JSON -> -32700/id null; invalid request or batch -> one -32600 object with id '
        'null; unknown method -> -32601; unbindable params -> -32602 and no execution; protocol error -> exactly its '
        'code / message / data (absent vs null kept apart); any other exception -> -32000 with no marker string, '
        'exception type name or traceback anywhere in the response text. "Is JSON" is decided by vmon/strictjson.py. '
        'Distinct = distinct (family, dispatcher kind, text); non-trivial = the expected outcome is a failure.')
ASSUMPTIONS = [
    'data / message of library-generated errors (-32700, -32600, -32601, -32602) are implementation-chosen and not judged',
    'lenient-parser tokens (NaN, Infinity), duplicate members and over-limit integer literals are judged by C01 only',
    'protocol errors that pjrpc refuses to construct (reported by the probe) are skipped here and judged by C05',
]
SHARDS = {'quick': 8, 'thorough': 16}
TIMEOUT = {'quick': 900, 'thorough': 3600}
ANCHORS = [
    ('pjrpc/server/dispatcher.py', 'Dispatcher._handle_rpc_method'),
    ('pjrpc/server/dispatcher.py', 'AsyncDispatcher._handle_rpc_method'),
    ('pjrpc/server/dispatcher.py', 'Dispatcher._handle_request'),
    ('pjrpc/server/dispatcher.py', 'AsyncDispatcher._handle_request'),
    ('pjrpc/server/dispatcher.py', 'Dispatcher.dispatch'),
    ('pjrpc/server/dispatcher.py', 'AsyncDispatcher.dispatch'),
    ('pjrpc/common/exceptions.py', 'JsonRpcError.to_json'),
]
_ROWS = ['not-json', 'invalid-request', 'batch-empty', 'batch-invalid-element', 'batch-duplicate-ids', 'batch-too-large',
         'unknown-method', 'unbound', 'rpc-error', 'exception']
FLOORS = {'*': {f'row:{k}:{r}': (3 if r == 'batch-empty' else 5) for k in ('sync', 'async') for r in _ROWS} | {
    'exc:TypeError-in-body': 2, 'flavour:async-plain': 200, 'flavour:sync-inert': 200, 'flavour:async-inert': 200, 'flavour:sync-debuglog': 200, 'flavour:async-debuglog': 200, 'flavour:async-sequential': 200, 'as:notification': 50, 'as:batch-element': 50, 'as:call': 200,
    'rpc:data-null': 5, 'rpc:data-absent': 5, 'rpc:message-empty': 1, 'rpc:code-0': 1,
}}


def gen(ctx):
    rng = ctx.rng
    full = True
    deep = ctx.thorough
    k = 0

    def emit(family, text, n=None):
        nonlocal k
        k += 1
        mb = None
        if n is not None:
            mb = (None, 1, 3, n)[k % 4] if not full else None
        cfgs = [(False, mb), (True, mb)]
        if n == 0:
            cfgs = [(False, None), (True, None), (False, 3), (True, 3), (False, 1), (True, 1)]
        elif full and n is not None:
            cfgs += [(False, 1), (True, 1), (False, 3), (True, 3)]
        for is_async, m in cfgs:
            yield 'doc', {'family': family, 'text': text, 'is_async': is_async, 'max_batch': m}
        if k % 3 == 0:
            fl = serverside.EXTRA_FLAVOURS[(k // 3) % len(serverside.EXTRA_FLAVOURS)]
            yield 'doc', {'family': family, 'text': text, 'is_async': fl.startswith('async'), 'max_batch': None, 'flavour': fl}

    # every failure kind as call, as notification and inside batches
    for fam, method, params in docs.typed_calls(rng, True):
        for i in (1, 'x', docs.MISSING):
            yield from emit('single-' + fam, docs.dumps(docs.obj(id=i, method=method, params=params)))
        if rng.random() < (1.0 if full else 0.35):
            before = docs.obj(id='b', method='ok', params=['before'])
            after = docs.obj(method='ok', params=['after'])
            for pos in range(3):
                els = [before, after]
                els.insert(pos, docs.obj(id=7 if pos != 1 else docs.MISSING, method=method, params=params))
                yield from emit('batch-' + fam, docs.dumps(els), 3)
    for fam, text in docs.object_product(rng, exhaustive=full, samples=1500):
        yield from emit(fam, text)
    for fam, text, n in docs.batches(rng, max_exhaustive_len=3 if full else 2, sampled=50000 if deep else 3000, max_len=6):
        yield from emit(fam, text, n)
    for fam, text in docs.nonjson(rng, per_doc=10 ** 6 if full else 20, random_texts=200000 if deep else 10000):
        yield from emit(fam, text)
    for fam, text in docs.numbers(False):
        yield from emit(fam, text)


def run_doc(ctx, family, text, is_async, max_batch, flavour=None):
    info = serverside.TextInfo(text)
    kind = 'async' if is_async else 'sync'
    if info.gap or info.bigint or info.dupkeys:
        ctx.unjudge('not-judged-here:' + info.features)
        return
    w = serverside.world_for(flavour, max_batch) if flavour else serverside.get_world(is_async, max_batch)
    if flavour:
        ctx.hit('flavour:' + flavour)
    o = serverside.observe(w, text)
    if o.ctor_failed:
        ctx.skip('probe-could-not-construct-protocol-error:' + o.ctor_failed[0])
        return
    exp = model.expected(info.doc, max_batch)
    if max_batch == 0 and isinstance(info.doc, list):
        ctx.unjudge('max_batch_size=0')
        return
    cls = (flavour or kind, text)
    base = exp.kind.split(':')[0]
    rows = set()
    if base in ('not-json', 'invalid-request', 'batch-empty', 'batch-invalid-element', 'batch-duplicate-ids', 'batch-too-large'):
        rows.add(base)
    for ek in exp.elem_kinds:
        role, _, what = ek.partition('-')
        rows.add(what)
        ctx.hit('as:batch-element' if base == 'batch' else ('as:notification' if role == 'notify' else 'as:call'))
    for r in rows:
        ctx.hit(f'row:{kind}:{r}')
    for c in exp.executions:
        if c[0] == 'boom' and c[1][0] == 'TypeError':
            ctx.hit('exc:TypeError-in-body')
        if c[0] in ('rpcerr', 'typed'):
            data = c[1][-1]
            ctx.hit('rpc:data-null' if data is None else ('rpc:data-absent' if data == '__absent__' else 'rpc:data-other'))
            if c[0] == 'rpcerr' and c[1][1] == '':
                ctx.hit('rpc:message-empty')
            if c[0] == 'rpcerr' and c[1][0] == 0:
                ctx.hit('rpc:code-0')
    diffs = serverside.compare(o, exp, info.doc)
    # C03 owns: code / message / data / leak, executions of refused calls, and the shape of rejections
    mine = [d for d in diffs if d[0] in ('raise', 'code', 'message', 'data', 'leak', 'kind', 'exec')
            or (d[0] in ('count', 'id') and base != 'batch' and not base.startswith('single'))]
    if not mine:
        trivial = rows <= {'ok'}
        ctx.ok(family + (':success-only' if trivial else ''), cls,
               sample=None if trivial else {'text': text, 'dispatcher': kind, 'model_kind': exp.kind,
                                            'returned': o.raw if o.raw is None else o.text})
        return
    aspect, detail = mine[0]
    ctx.violation(f'{aspect}:{detail}', family, cls, text=text, dispatcher=flavour or kind, max_batch_size=max_batch,
                  expected=model.render(exp.response), model_kind=exp.kind, returned=o.raw, exception=o.exc,
                  executions=o.calls, all_differences=mine)


KINDS = {'doc': run_doc}
