"""C02 - one response per call, none per notification; a batch maps over its elements; rejected batches run nothing."""
from __future__ import annotations

from .. import serverside, strictjson
from ..gen import docs
from ..models import server as model

PID = 'C02'
LEVEL = 'exploration'
RULE = ('one case = one request document dispatched on one (dispatcher kind, max_batch_size) configuration and judged '
        'against the executable reference model vmon/models/server.py (expected response objects, ids compared with '
        'their JSON type, multiset of method executions) and, for accepted batches, against the metamorphic relation '
        '"batch response = concatenation of the responses its elements receive when sent alone". Distinct = distinct '
        '(family, configuration, text); non-trivial = the document is valid JSON (everything else is C01/C03 ground).')
ASSUMPTIONS = [
    'an element with an explicit "id": null is treated by pjrpc as a notification; answering it with id null is also accepted',
    'max_batch_size=0 is left open by the statement: both "unlimited" and "reject everything" are accepted, atomicity is still judged',
    'texts with duplicate object members, lenient-parser tokens or over-limit integers are not judged here',
    'execution order inside a batch is not judged (C10 does that); executions are compared as multisets',
]
SHARDS = {'quick': 8, 'thorough': 16}
TIMEOUT = {'quick': 900, 'thorough': 3600}
ANCHORS = [
    ('pjrpc/server/dispatcher.py', 'Dispatcher.dispatch'),
    ('pjrpc/server/dispatcher.py', 'AsyncDispatcher.dispatch'),
    ('pjrpc/server/dispatcher.py', 'Dispatcher._handle_request'),
    ('pjrpc/server/dispatcher.py', 'AsyncDispatcher._handle_request'),
    ('pjrpc/server/dispatcher.py', 'Dispatcher._handle_rpc_request'),
    ('pjrpc/server/dispatcher.py', 'AsyncDispatcher._handle_rpc_request'),
    ('pjrpc/common/v20.py', 'BatchRequest.from_json'),
    ('pjrpc/common/v20.py', 'BatchRequest._add_ids'),
]
FLOORS = {'*': {
    'kind:batch': 300, 'kind:batch-all-notifications': 10, 'kind:batch-duplicate-ids': 20, 'kind:batch-too-large': 20,
    'kind:batch-invalid-element': 50, 'kind:batch-empty': 2, 'elem:notify-exception': 20, 'elem:notify-unbound': 20,
    'elem:call-ok': 200, 'elem:call-unbound': 50, 'elem:call-unknown-method': 50, 'elem:call-rpc-error': 50,
    'elem:call-exception': 50, 'flavour:async-plain': 200, 'flavour:sync-inert': 200, 'flavour:async-inert': 200, 'flavour:sync-debuglog': 200, 'flavour:async-debuglog': 200, 'flavour:async-sequential': 200,
    'metamorphic:batches': 200, 'loops:rounds': 60, 'loops:large-batch-rounds': 16, 'cfg:sync': 500, 'cfg:async': 500, 'id:str-next-to-int': 10,
}}

CONFIGS = [(a, m) for a in (False, True) for m in (None, 0, 1, 3)]


def gen(ctx):
    rng = ctx.rng
    full = True
    deep = ctx.thorough
    k = 0

    def emit(family, text, n=None):
        nonlocal k
        k += 1
        if n is None:
            cfgs = [(False, None), (True, None)]
        elif n == 0:
            cfgs = [(False, None), (True, None), (False, 3), (True, 3)]
        elif full:
            cfgs = [(a, m) for a in (False, True) for m in (None, 0, 1, 3, n - 1 if n > 1 else None, n, n + 1)]
            cfgs = sorted(set(cfgs), key=repr)
        else:
            m = (None, n - 1 if n > 1 else 1, n, n + 1, 0, 3)[k % 6]
            cfgs = [(False, m), (True, m)]
        for is_async, mb in cfgs:
            yield 'doc', {'family': family, 'text': text, 'is_async': is_async, 'max_batch': mb}
        if k % 3 == 0:
            fl = serverside.EXTRA_FLAVOURS[(k // 3) % len(serverside.EXTRA_FLAVOURS)]
            yield 'doc', {'family': family, 'text': text, 'is_async': fl.startswith('async'), 'max_batch': None, 'flavour': fl}

    for fam, text in docs.singles(rng, full):
        yield from emit(fam, text)
    for fam, text in docs.object_product(rng, exhaustive=False, samples=40000 if deep else 4000):
        yield from emit(fam, text)
    j = 0
    for fam, text, n in docs.batches(rng, max_exhaustive_len=3 if full else 2, sampled=80000 if deep else 6000, max_len=6 if deep else 5):
        yield from emit(fam, text, n)
        j += 1
        if fam == 'batch-large' or j % (40 if deep else 400) == 0:
            # ONE dispatcher object serving under several event loops in turn (an application that restarts its loop, a test
            # suite with a loop per test): each round is judged like any other dispatch
            for concurrent in (True, False):
                yield 'loops', {'family': fam, 'text': text, 'concurrent': concurrent}


def run_doc(ctx, family, text, is_async, max_batch, flavour=None):
    info = serverside.TextInfo(text)
    kind = flavour or ('async' if is_async else 'sync')
    if not info.is_json or info.gap or info.bigint or info.dupkeys:
        ctx.unjudge('not-judged-here:' + info.features)
        return
    w = serverside.world_for(flavour, max_batch) if flavour else serverside.get_world(is_async, max_batch)
    if flavour:
        ctx.hit('flavour:' + flavour)
    o = serverside.observe(w, text)
    if o.ctor_failed:
        ctx.skip('probe-could-not-construct-protocol-error')
        return
    exp = model.expected(info.doc, max_batch)
    ctx.hit(f'cfg:{"async" if is_async else "sync"}')
    cls = (kind, max_batch, text)
    if max_batch == 0 and isinstance(info.doc, list):
        # left open by the statement: judged for atomicity only
        exp_reject = model.expected(info.doc, None)
        rejected = o.status == 'ret' and isinstance(o.doc, dict) and 'error' in o.doc and o.doc.get('id') is None
        if rejected and o.calls:
            ctx.violation('exec:rejected-batch-executed-something', family, cls, text=text, dispatcher=kind,
                          max_batch_size=0, calls=o.calls, returned=o.raw)
            return
        if rejected:
            ctx.unjudge('max_batch_size=0:rejecting')
            return
        exp = exp_reject
    base = exp.kind.split(':')[0]
    ctx.hit('kind:' + base)
    if base == 'batch' and exp.response is None:
        ctx.hit('kind:batch-all-notifications')
    for ek in exp.elem_kinds:
        ctx.hit('elem:' + ek)
    if isinstance(info.doc, list) and _has_lookalike_ids(info.doc):
        ctx.hit('id:str-next-to-int')
    diffs = [d for d in serverside.compare(o, exp, info.doc) if d[0] in ('raise', 'count', 'id', 'kind', 'result', 'exec')]
    # metamorphic relation for accepted batches: element-by-element on the same (state-free) world
    if not diffs and exp.kind == 'batch' and o.status == 'ret':
        ctx.hit('metamorphic:batches')
        singles = []
        calls = []
        ok = True
        for el in info.doc:
            so = serverside.observe(w, docs.dumps(el))
            if so.status != 'ret' or so.doc_problem:
                ok = False
                break
            calls.extend(so.calls)
            if so.raw is not None:
                if isinstance(so.doc, dict) and so.doc.get('id') is None and el.get('id', 0) is None and 'id' in el:
                    continue
                singles.append(so.doc)
        if ok:
            got = o.doc if o.raw is not None else []
            if exp.null_id_calls:
                pass
            elif not strictjson.typed_eq(_strip_data(singles), _strip_data(got)):
                diffs.append(('count', 'batch-differs-from-elements-sent-alone'))
            elif serverside.normalise_calls(calls) != serverside.normalise_calls(o.calls):
                diffs.append(('exec', 'batch-executions-differ-from-elements-sent-alone'))
    if not diffs:
        ctx.ok(family, cls, sample={'text': text, 'dispatcher': kind, 'max_batch_size': max_batch, 'model_kind': exp.kind,
                                    'returned': o.raw if o.raw is None else o.text, 'executions': o.calls})
        return
    aspect, detail = diffs[0]
    ctx.violation(f'{aspect}:{detail}', family, cls, text=text, dispatcher=kind, max_batch_size=max_batch,
                  expected=model.render(exp.response), expected_executions=exp.executions, model_kind=exp.kind,
                  returned=o.raw, exception=o.exc, executions=o.calls, all_differences=diffs)


def run_loops(ctx, family, text, concurrent):
    import asyncio
    info = serverside.TextInfo(text)
    w = serverside.get_world(True, None, fresh=True, **({} if concurrent else {'concurrent_batch': False}))
    loops = [asyncio.new_event_loop(), asyncio.new_event_loop()]
    exp = model.expected(info.doc, None)
    cls = ('loops', concurrent, text)
    try:
        for rnd, which in enumerate((0, 1, 0, 1)):
            w.loop = loops[which]
            o = serverside.observe(w, text)
            ctx.hit('loops:rounds')
            if isinstance(info.doc, list) and len(info.doc) > 64:
                ctx.hit('loops:large-batch-rounds')
            diffs = [d for d in serverside.compare(o, exp, info.doc) if d[0] in ('raise', 'count', 'id', 'kind', 'result', 'exec')]
            if diffs:
                aspect, detail = diffs[0]
                ctx.violation(f'loops:{aspect}:{detail}', family, cls, text=text[:2000], concurrent_batch=concurrent, round=rnd,
                              loop=which, returned=o.raw, exception=o.exc, executions=len(o.calls), all_differences=diffs)
                return
    finally:
        w.loop = None
        for lp in loops:
            lp.close()
    ctx.ok(family + ':loops', cls, sample={'text': text[:300], 'rounds': 'loop A, B, A, B on one dispatcher', 'concurrent_batch': concurrent})


def _strip_data(doc):
    """library-chosen error.data / message texts are not part of the relation"""
    if isinstance(doc, list):
        return [_strip_data(d) for d in doc]
    if isinstance(doc, dict) and isinstance(doc.get('error'), dict):
        e = doc['error']
        d = dict(doc)
        d['error'] = {'code': e.get('code')} if e.get('code') in (-32601, -32602, -32600, -32700) else e
        return d
    return doc


def _has_lookalike_ids(doc):
    ids = [e.get('id') for e in doc if isinstance(e, dict)]
    return any(isinstance(i, int) and not isinstance(i, bool) and str(i) in ids for i in ids)


KINDS = {'doc': run_doc, 'loops': run_loops}
