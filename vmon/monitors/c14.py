"""C14 - parameter validators admit exactly the conforming calls."""
from __future__ import annotations

import enum
import itertools
import json
import typing

import pydantic

import pjrpc
import pjrpc.server
from pjrpc.server.validators import base as vbase
from pjrpc.server.validators import jsonschema as vjs
from pjrpc.server.validators import pydantic as vpd

from .. import strictjson, world
from ..strictjson import typed_eq

PID = 'C14'
LEVEL = 'exploration'
RULE = ('one case = one generated method: a signature of 1..3 parameters (positional-or-keyword / keyword-only, defaults '
        'on / off, optional context parameter, optional excluded parameter) whose parameters carry either JSON-schema '
        'fragments (type, enum, bounds, required, additionalProperties - JsonSchemaValidator) or type annotations (int, str, '
        'float, Optional, List, Dict, a model class, an enum, a model whose field validator raises - PydanticValidator with '
        'coercion on / off); the method is registered on a real dispatcher (sync / async, function / view method) and called '
        'with argument tuples / mappings drawn from per-type alphabets of conforming, coercible and non-conforming values. '
        'Conformance is decided by a hand-written evaluator for exactly that schema alphabet and by a hand-written '
        '(annotation, value) table - never by the validator libraries. One evaluation = one call. Distinct = distinct '
        '(method source, validator configuration, params). Besides the one-method cases there are groups: ONE validator object '
        '(BaseValidator / JsonSchemaValidator / PydanticValidator) decorates 2..3 different functions (or methods of different '
        'view classes) that share __module__, __name__ and __qualname__ but differ in signature (parameter count, names, kinds, '
        'defaults, schema / annotations), all with the same or with differing exclusion sets; they sit on one dispatcher under '
        'different JSON-RPC names and their calls are issued in one shuffled sequence (or member after member and back again); '
        'each call is judged against the function it is dispatched to, as if that function were alone. A view method may be an '
        'instance method, a @classmethod or a @staticmethod; a JsonSchemaValidator may be constructed with a default schema '
        '(laxer / stricter / unrelated, overridden by the method\'s own schema; or the only schema, the method being decorated '
        'with a bare validate).')
ASSUMPTIONS = [
    'the (annotation, value) table lists only unambiguous pydantic-2 lax-mode entries (e.g. bool for int is left out)',
    'jsonschema fragments avoid the bool/number equality corner of enum',
    'excluded parameters carry defaults (nothing else can supply them)',
    'in a shared-validator group the members share the exclusion predicate, the coercion flag and the dispatcher (hence sync / '
    'async / view style); the order of calls is a function of the case arguments (own PRNG seeded from them), so a replay repeats it',
]
SHARDS = {'quick': 4, 'thorough': 16}
TIMEOUT = {'quick': 900, 'thorough': 3600}
ANCHORS = [
    ('pjrpc/server/validators/jsonschema.py', 'JsonSchemaValidator.validate_method'),
    ('pjrpc/server/validators/pydantic.py', 'PydanticValidator.validate_method'),
    ('pjrpc/server/validators/pydantic.py', 'PydanticValidator.build_validation_schema'),
    ('pjrpc/server/validators/base.py', 'BaseValidator.signature'), ('pjrpc/server/validators/base.py', 'BaseValidator.bind'),
    ('pjrpc/server/dispatcher.py', 'JSONEncoder.default'),
]
FLOORS = {'*': {**{f'{v}:{o}': 30 for v in ('jsonschema', 'pydantic') for o in ('accepted', 'refused-by-binding', 'refused-by-schema')},
                'pydantic:coerced': 30, 'pydantic:coercion-off-accepted': 30, 'excluded-parameter': 100, 'context-parameter': 100,
                'client-sets-excluded': 30, 'client-sets-context': 30, 'style:view': 100, 'style:async': 100, 'passing:named': 300,
                'passing:positional': 300, 'refusal-data-checked': 300, 'pydantic:live-exception-in-error': 5,
                'jsonschema:required-or-additional': 50, 'no-arguments-call': 50, 'twin-registration-calls': 100,
                'pydantic:default-none-on-non-optional': 50, 'pydantic:unhashable-default': 30, 'dispatcher:json-loader-yields-Decimal': 100, 'context-handed-over-positionally': 100, 'jsonschema:declares-draft-04': 50, 'pydantic:postponed-annotations': 100, 'dispatcher-from-add_endpoint': 100,
                # one validator object shared by several same-named functions of different signatures
                'shared-validator:groups': 150, 'shared-validator:base': 40, 'shared-validator:jsonschema': 40, 'shared-validator:pydantic': 40,
                'shared-validator:calls': 5000, 'shared-validator:call-after-a-sibling-was-called': 4000,
                'shared-validator:order-interleaved': 100, 'shared-validator:order-blocks': 15, 'shared-validator:style-def': 40,
                'shared-validator:style-async': 40, 'shared-validator:style-view': 40, 'shared-validator:same-exclusion-set': 100,
                'shared-validator:exclusion-sets-differ': 20, 'base:accepted': 500, 'base:refused-by-binding': 500,
                # view members that are class / static methods; validator-level default schema (constructor argument)
                'style:view-classmethod': 40, 'style:view-staticmethod': 40,
                'jsonschema:validator-level-default-schema:lax-default-overridden': 15,
                'jsonschema:validator-level-default-schema:strict-default-overridden': 15,
                'jsonschema:validator-level-default-schema:other-default-overridden': 15,
                'jsonschema:validator-level-default-schema:default-only': 15}}

ABSENT = '__absent__'

# ---- JSON-schema side: fragment alphabet + evaluator ---------------------------------------------------

FRAGMENTS = [
    {'type': 'integer'}, {'type': 'string'}, {'type': 'number', 'minimum': 0, 'maximum': 10}, {'enum': [2, 'a', None]},
    {'type': ['integer', 'null']}, {'type': 'array'}, {'type': 'boolean'}, {},
    {'type': 'array', 'items': {'type': 'integer'}}, {'type': 'object', 'properties': {'k': {'type': 'array', 'items': {'type': 'string'}}}},
    # draft-04 only (boolean exclusiveMinimum): used when the schema declares that draft
    {'type': 'number', 'minimum': 0, 'exclusiveMinimum': True},
]
N_FRAGMENTS_ANY_DRAFT = 10
JS_VALUES = [1, -1, 11, 1.5, 'a', '', None, True, [1], {'k': 1}, 2, 1.0, 0, 0.5, [1, 'x'], [[1]], {'k': ['a', 2]}, {'k': ['a']}, [], {}]
DRAFT = {'declared': None}       # the draft the schema of the current case declares through "$schema" (None: the validator's default)


def js_type(v):
    if v is None:
        return 'null'
    if isinstance(v, bool):
        return 'boolean'
    if isinstance(v, int):
        return 'integer'
    if isinstance(v, float):
        # since draft 6 a number with a zero fractional part is an integer; drafts 3 and 4 go by the representation
        return 'integer' if (v.is_integer() and DRAFT['declared'] not in (3, 4)) else 'number'
    if isinstance(v, str):
        return 'string'
    if isinstance(v, (list, tuple)):
        return 'array'
    return 'object'


def frag_ok(frag, v):
    if 'type' in frag:
        types = frag['type'] if isinstance(frag['type'], list) else [frag['type']]
        t = js_type(v)
        if not (t in types or (t == 'integer' and 'number' in types)):
            return False
    if 'items' in frag and isinstance(v, (list, tuple)):
        if not all(frag_ok(frag['items'], x) for x in v):
            return False
    if 'properties' in frag and isinstance(v, dict):
        if not all(frag_ok(sub, v[k]) for k, sub in frag['properties'].items() if k in v):
            return False
    if 'enum' in frag:
        if isinstance(v, bool) or not any(type(v) is type(e) and v == e for e in frag['enum']):
            return False
    if isinstance(v, (int, float)) and not isinstance(v, bool):
        if 'minimum' in frag and v < frag['minimum']:
            return False
        if frag.get('exclusiveMinimum') is True and v == frag['minimum']:
            return False
        if 'maximum' in frag and v > frag['maximum']:
            return False
    return True


def schema_ok(schema, mapping):
    for name in schema.get('required', []):
        if name not in mapping:
            return False
    props = schema.get('properties', {})
    if schema.get('additionalProperties') is False and any(k not in props for k in mapping):
        return False
    return all(frag_ok(props[k], v) for k, v in mapping.items() if k in props)


# ---- pydantic side: annotation table -------------------------------------------------------------------

class Color(enum.Enum):
    RED = 'red'
    BLUE = 'blue'


class Item(pydantic.BaseModel):
    a: int
    b: str = 'd'


class Picky(pydantic.BaseModel):
    n: int

    @pydantic.field_validator('n')
    @classmethod
    def check(cls, v):
        if v < 0:
            raise ValueError('Zq7 negative not allowed')
        return v


def _eq_item(v, a, b):
    return isinstance(v, Item) and v.a == a and v.b == b


# annotation source -> list of (json value, status, check(received) under coercion)
ANNOT = {
    'int': [(1, 'ok', lambda v: type(v) is int and v == 1), ('1', 'coerce', lambda v: type(v) is int and v == 1),
            ('x', 'bad', None), ([], 'bad', None), (None, 'bad', None), (1.5, 'bad', None), (10 ** 20, 'ok', lambda v: v == 10 ** 20)],
    'str': [('a', 'ok', lambda v: v == 'a'), ('', 'ok', lambda v: v == ''), (1, 'bad', None), (None, 'bad', None), ([], 'bad', None)],
    'float': [(1.5, 'ok', lambda v: v == 1.5), (1, 'coerce', lambda v: type(v) is float and v == 1.0), ('x', 'bad', None),
              ('1.5', 'coerce', lambda v: v == 1.5), (None, 'bad', None)],
    'Optional[int]': [(None, 'ok', lambda v: v is None), (1, 'ok', lambda v: v == 1), ('x', 'bad', None), ([], 'bad', None)],
    'List[int]': [([1, 2], 'ok', lambda v: v == [1, 2]), (['1'], 'coerce', lambda v: v == [1]), (['x'], 'bad', None), (1, 'bad', None),
                  ([], 'ok', lambda v: v == []), (None, 'bad', None)],
    'Dict[str, int]': [({'a': 1}, 'ok', lambda v: v == {'a': 1}), ({'a': 'x'}, 'bad', None), ([], 'bad', None), ({}, 'ok', lambda v: v == {}),
                       (None, 'bad', None)],
    'Item': [({'a': 1}, 'coerce', lambda v: _eq_item(v, 1, 'd')), ({'a': 2, 'b': 'z'}, 'coerce', lambda v: _eq_item(v, 2, 'z')),
             ({'b': 'x'}, 'bad', None), (1, 'bad', None), ({'a': 'nope'}, 'bad', None), (None, 'bad', None)],
    'Color': [('red', 'coerce', lambda v: v is Color.RED), ('green', 'bad', None), (1, 'bad', None), (None, 'bad', None)],
    'Annotated[int, Field(gt=0)]': [(5, 'ok', lambda v: v == 5), (0, 'bad', None), (-3, 'bad', None), ('x', 'bad', None), (None, 'bad', None)],
    'PositiveInt': [(2, 'ok', lambda v: v == 2), (0, 'bad', None), (-1, 'bad', None), (None, 'bad', None)],
    'Annotated[str, Field(min_length=2)]': [('ab', 'ok', lambda v: v == 'ab'), ('a', 'bad', None), (1, 'bad', None), (None, 'bad', None)],
    'Picky': [({'n': 1}, 'coerce', lambda v: isinstance(v, Picky) and v.n == 1), ({'n': -1}, 'bad-live-exception', None)],
}

NS = {'Annotated': typing.Annotated, 'Field': pydantic.Field, 'PositiveInt': pydantic.PositiveInt, 'Optional': typing.Optional, 'List': typing.List, 'Dict': typing.Dict, 'Item': Item, 'Color': Color, 'Picky': Picky,
      'ViewMixin': pjrpc.server.ViewMixin}


# ---- program generation --------------------------------------------------------------------------------

def render(params, with_ctx, skip, style, annotate):
    """params: [(name, kind, has_default, annotation-or-None)]"""
    parts, star = [], False
    if style == 'view' and DISP.get('view_deco') != 'staticmethod':
        parts.append('cls' if DISP.get('view_deco') == 'classmethod' else 'self')
    plist = list(params)
    if with_ctx and style != 'view':          # a view receives the context through its constructor
        plist = [('ctx', 'PK', False, None)] + plist
    for name, kind, dflt, ann in plist:
        if kind == 'KO' and not star:
            parts.append('*')
            star = True
        s = name
        if annotate and ann:
            s += f': {ann}'
        if dflt == 'none':
            s += ' = None'          # the common `limit: int = None`: omitting it is fine, an explicit null is not an int
        elif dflt == 'empty':
            s += ' = []' if (ann or '').startswith('List') else ' = {}'     # the (in)famous mutable default: unhashable
        elif dflt:
            s += f" = {'None' if (ann or '').startswith('Optional') else repr('d_' + name)}" if annotate and ann else f" = {'d_' + name!r}"
        parts.append(s)
    if skip:
        if not star:
            parts.append('*')
        parts.append("skip = 'skip-default'")
    names = [p[0] for p in plist] + (['skip'] if skip else [])
    rec = ', '.join(f'{n!r}: {n}' for n in names)
    head = f"{'async ' if style == 'async' else ''}def f({', '.join(parts)}):"
    body = f"    LOG.append({{{rec}}})\n    return 'done'"
    return head + '\n' + body


def endpoint_dispatcher(via, is_async):
    """the dispatcher an integration hands out for an additional endpoint"""
    if via == 'flask-endpoint' and not is_async:
        from pjrpc.server.integration import flask as integ
        return integ.JsonRPC('/rpc').add_endpoint('/sub')
    if via == 'aiohttp-endpoint' and is_async:
        import aiohttp.web
        from pjrpc.server.integration import aiohttp as integ
        return integ.Application('/rpc', app=aiohttp.web.Application()).add_endpoint('/sub')
    return None


VIA = {'via': None}
# dispatcher-level options of a case: a json_loader that yields non-builtin numbers (parse_float=Decimal, the documented way to
# keep money exact), and a context handed over positionally (Method(..., positional=True))
# ... and, for view style, what kind of member the method is: '' (instance method) / 'classmethod' / 'staticmethod'
DISP = {'kwargs': {}, 'ctx_positional': False, 'view_deco': ''}


def build(params, with_ctx, skip, style, validator, deco_kwargs, annotate, postponed=False, disp=None, name='f'):
    """`disp` / `name`: register on an existing dispatcher under another name (the function keeps __name__ / __qualname__ 'f';
    a view's method is then reachable as '<name>.f')"""
    src = render(params, with_ctx, skip, style, annotate)
    ns = dict(NS, LOG=[], VIEWS=[], __name__='vmon_c14_programs')
    if postponed:
        # the method lives in a real module that postpones the evaluation of its annotations (PEP 563): they reach the
        # validator as strings and mean what they mean in THAT module
        import sys
        import types
        mod = types.ModuleType('vmon_c14_postponed')
        mod.__dict__.update(ns, __name__='vmon_c14_postponed')
        sys.modules['vmon_c14_postponed'] = mod
        ns = mod.__dict__
    if style == 'view':
        if DISP.get('view_deco'):
            src = '@' + DISP['view_deco'] + '\n' + src
        src = ('class View(ViewMixin):\n    def __init__(self, context=None):\n        super().__init__()\n'
               '        VIEWS.append(context)\n' + '\n'.join('    ' + l for l in src.splitlines()))
    if postponed:
        src = 'from __future__ import annotations\n' + src
    exec(compile(src, '<vmon_c14_programs>', 'exec', dont_inherit=True), ns)
    is_async = style == 'async'
    if disp is None:
        disp = endpoint_dispatcher(VIA['via'], is_async) or (pjrpc.server.AsyncDispatcher if is_async else pjrpc.server.Dispatcher)(**DISP['kwargs'])
    if style == 'view':
        member = ns['View'].__dict__['f']
        validator.validate(getattr(member, '__func__', member), **deco_kwargs)
        reg = pjrpc.server.MethodRegistry()
        # the view takes the context through its constructor: the designated name may coincide with a parameter of the
        # method, which stays an ordinary, validated, client-supplied parameter
        reg.view(ns['View'], context=(params[0][0] if params else 'ctx') if with_ctx else None, **({'prefix': name} if name != 'f' else {}))
        disp.add_methods(reg)
    else:
        validator.validate(ns['f'], **deco_kwargs)
        disp.add(ns['f'], name, context='ctx' if with_ctx else None, **({'positional': True} if with_ctx and DISP['ctx_positional'] else {}))
        if with_ctx:
            # the same function object registered a second time WITHOUT a context designation: `ctx` is ordinary there
            disp.add(ns['f'], name + '2')
    return ns, src, disp, is_async


def bind_model(params, case, has_skip):
    """what a direct call would bind: (mapping of supplied args by name) or None"""
    names = [p[0] for p in params]
    pos = [p for p in params if p[1] == 'PK']
    if isinstance(case, list):
        if len(case) > len(pos):
            return None
        m = {pos[i][0]: v for i, v in enumerate(case)}
    else:
        if any(k not in names for k in case):
            return None
        m = dict(case)
    for name, kind, dflt, ann in params:
        if name not in m and not dflt:
            return None
    return m


def twin_registration_call(ctx, disp, is_async, ns, src, goods, conforms, vname, tag=''):
    """one call through the context-less registration of the same function (before and between the judged calls)"""
    case = dict(goods, ctx='plain-value')
    st, out, _ = call(disp, is_async, case, ns, method='f2')
    cls = (src, vname, 'twin-registration', json.dumps(case))
    wit = dict(source=src, params=case, method='f2 (same function, no context designation)', validator=vname)
    ctx.hit('twin-registration-calls')
    verdict, rec = judge_common(ctx, f'{vname}:twin-registration', cls, wit, st, out, ns, None, conforms, None if conforms else 'schema',
                                False, 'def', tag=tag)
    if verdict == 'ran':
        if rec.get('ctx') != 'plain-value':
            ctx.violation('twin-registration:ordinary-parameter-not-passed', f'{vname}:twin-registration', cls, executions=_safe([rec]), **wit)
        else:
            ctx.ok(f'{vname}:twin-registration', cls)
    elif verdict == 'refused':
        ctx.ok(f'{vname}:twin-registration:refused', cls)


def call(disp, is_async, case, ns, method='f'):
    ns['LOG'].clear()
    CTX = world.Context('c14')
    text = json.dumps({'jsonrpc': '2.0', 'id': 1, 'method': method, 'params': case})
    try:
        out = world.run(disp.dispatch(text, context=CTX)) if is_async else disp.dispatch(text, context=CTX)
    except Exception as e:
        return 'exc', e, CTX
    return 'ret', out, CTX


def judge_common(ctx, fam, cls, wit, st, out, ns, CTX, should_run, refusal_kind, with_ctx, style, tag=''):
    """shared part: refusals, run-once, context. Returns ('violated'|'refused'|'ran', run record)."""
    if st == 'exc':
        ctx.violation(f'dispatch-raises:{type(out).__name__}:{refusal_kind or "accepted"}' + tag, fam, cls, exception=out, **wit)
        return 'violated', None
    try:
        doc = strictjson.decode(out[0])
    except Exception:
        ctx.violation('unreadable-response' + tag, fam, cls, returned=out, **wit)
        return 'violated', None
    wit['response'] = doc
    runs = list(ns['LOG'])
    code = doc['error']['code'] if 'error' in doc else 0
    if not should_run:
        if runs:
            ctx.violation(f'method-ran-although-call-must-be-refused:{refusal_kind}' + tag, fam, cls, executions=_safe(runs), **wit)
            return 'violated', None
        if code != -32602:
            ctx.violation(f'refusal-not-32602:code{code}:{refusal_kind}' + tag, fam, cls, **wit)
            return 'violated', None
        ctx.hit('refusal-data-checked')
        return 'refused', None
    if len(runs) != 1 or code != 0:
        ctx.violation(f'conforming-call-not-executed:code{code}' + tag, fam, cls, executions=_safe(runs), **wit)
        return 'violated', None
    if doc.get('result') != 'done':
        ctx.violation('result-altered' + tag, fam, cls, **wit)
        return 'violated', None
    rec = runs[0]
    if with_ctx and style != 'view' and rec.get('ctx') is not CTX:
        ctx.violation('context-parameter-not-the-server-context' + tag, fam, cls, **wit)
        return 'violated', None
    return 'ran', rec


def _safe(runs):
    return [{k: repr(v) for k, v in r.items()} for r in runs]


# ---- JSON-schema programs ----------------------------------------------------------------------------

VALIDATOR_DEFAULTS = {
    # JsonSchemaValidator(**kwargs): "default jsonschema validator arguments"; what a method gives in validate(...) goes first
    'lax-default-overridden': {'type': 'object'},
    'strict-default-overridden': {'type': 'object', 'properties': {}, 'additionalProperties': False},
    'other-default-overridden': {'type': 'object', 'properties': {'zz': {'type': 'integer'}}, 'required': ['zz']},
    'default-only': None,          # the validator's default schema is the only one: the method is decorated with a bare validate
}


def run_js(ctx, params, frags, required, additional, with_ctx, skip, style, draft=None, via=None, vdeco='', vdefault=None):
    VIA['via'] = via
    DISP['kwargs'], DISP['ctx_positional'], DISP['view_deco'] = {}, False, vdeco if style == 'view' else ''
    if via:
        ctx.hit('dispatcher-from-add_endpoint')
    pred = (lambda name, ann, default: name == 'skip') if skip else None
    if vdefault:
        ctx.hit('jsonschema:validator-level-default-schema:' + vdefault)

        def validator(schema):
            return vjs.JsonSchemaValidator(exclude_param=pred, schema=VALIDATOR_DEFAULTS[vdefault] or schema)
    else:
        validator = vjs.JsonSchemaValidator(exclude_param=pred)
    mb = js_member(ctx, ctx.rng, validator, params, frags, required, additional, with_ctx, skip, style, draft, bare=vdefault == 'default-only')
    if mb is None:
        return
    _marks(ctx, with_ctx, skip, style)
    twin = with_ctx and style != 'view'
    tag = ':validator-level-default-schema' if vdefault else (':view-' + DISP['view_deco'] if DISP['view_deco'] else '')
    for n_case, case in enumerate(mb['cases']):
        if twin and n_case % 5 == 0:
            twin_registration_call(ctx, mb['disp'], mb['is_async'], mb['ns'], mb['src'], mb['goods'],
                                   schema_ok(mb['schema'], dict(mb['goods'], ctx='plain-value')), 'jsonschema')
        js_judge(ctx, mb, case, tag=tag)


def js_member(ctx, rng, validator, params, frags, required, additional, with_ctx, skip, style, draft=None, disp=None, name='f', bare=False):
    """one generated method under a JsonSchemaValidator (or, frags None, under a plain BaseValidator: binding alone decides)
    + the calls it is to be judged on. None when registration already failed (reported)."""
    plist = [(n, k, d, None) for n, k, d in params]
    vname = 'jsonschema' if frags is not None else 'base'
    if frags is None:
        schema, frags, deco = {}, [7] * len(plist), {}           # fragment 7 = {} constrains nothing
    else:
        schema = {'type': 'object', 'properties': {p[0]: FRAGMENTS[f] for p, f in zip(params, frags)}}
        if draft == 4:
            # a schema that says which draft it is written in is judged by that draft's rules
            schema['$schema'] = 'http://json-schema.org/draft-04/schema#'
            ctx.hit('jsonschema:declares-draft-04')
        if required:
            schema['required'] = required
        if additional is not None:
            schema['additionalProperties'] = additional
        if required or additional is not None:
            ctx.hit('jsonschema:required-or-additional')
        deco = {} if bare else {'schema': schema}
    if not isinstance(validator, vbase.BaseValidator):
        validator = validator(schema)          # a factory: the validator's constructor wants to see the schema
    DRAFT['declared'] = draft
    try:
        ns, src, disp, is_async = build(plist, with_ctx, skip, style, validator, deco, annotate=False, disp=disp, name=name)
    except Exception as e:
        ctx.violation(f'registration-raises:{type(e).__name__}', vname, (repr(params), repr(schema)), exception=e)
        return None
    goods = {}
    for p, f in zip(plist, frags):
        g = [v for v in JS_VALUES if frag_ok(FRAGMENTS[f], v)]
        goods[p[0]] = g[0] if g else 1
    return dict(vname=vname, plist=plist, frags=frags, schema=schema, draft=draft, with_ctx=with_ctx, skip=skip, style=style,
                ns=ns, src=src, disp=disp, is_async=is_async, goods=goods, judge=js_judge,
                method=name if style != 'view' or name == 'f' else name + '.f',
                cases=list(js_cases(rng, plist, frags, with_ctx, skip)))


def js_judge(ctx, mb, case, tag=''):
    """one call of one member, judged against that member's own signature and schema"""
    plist, schema, ns, src, style, with_ctx, skip, vname = (mb[k] for k in ('plist', 'schema', 'ns', 'src', 'style', 'with_ctx', 'skip', 'vname'))
    DRAFT['declared'] = mb['draft']
    st, out, CTX = call(mb['disp'], mb['is_async'], case, ns, method=mb['method'])
    m = bind_model(plist, case, skip)
    conforms = m is not None and schema_ok(schema, m)
    kind = None if conforms else ('binding' if m is None else 'schema')
    cls = (src, json.dumps(schema, sort_keys=True), json.dumps(case), tag)
    fam = f'{vname}:{style}:' + ('named' if isinstance(case, dict) else 'positional') + tag
    wit = dict(source=src, schema=schema, params=case, validator={'jsonschema': 'JsonSchemaValidator', 'base': 'BaseValidator'}[vname],
               model_verdict=kind or 'conforming')
    _case_marks(ctx, case, vname, kind)
    verdict, rec = judge_common(ctx, fam, cls, wit, st, out, ns, CTX, conforms, kind, with_ctx, style, tag=tag)
    if verdict == 'refused':
        ctx.ok(fam + ':refused-' + kind, cls, sample=wit)
    if verdict != 'ran':
        return
    # accepted arguments reach the method unchanged; omitted ones take their defaults
    want = {p[0]: (m[p[0]] if p[0] in m else 'd_' + p[0]) for p in plist}
    got = {k: v for k, v in rec.items() if k not in ('ctx', 'skip')}
    if not typed_eq(_norm(got), _norm(want)):
        ctx.violation('accepted-arguments-altered' + tag, fam, cls, executions=_safe([rec]), expected=want, **wit)
        return
    if skip and rec.get('skip') != 'skip-default':
        ctx.violation('excluded-parameter-set-by-client' + tag, fam, cls, executions=_safe([rec]), **wit)
        return
    ctx.ok(fam + ':accepted', cls, sample=wit)


def _marks(ctx, with_ctx, skip, style):
    if with_ctx:
        ctx.hit('context-parameter')
    if skip:
        ctx.hit('excluded-parameter')
    if style in ('view', 'async'):
        ctx.hit('style:' + style)
    if style == 'view' and DISP.get('view_deco'):
        ctx.hit('style:view-' + DISP['view_deco'])


def _case_marks(ctx, case, vname, kind):
    ctx.hit('passing:named' if isinstance(case, dict) else 'passing:positional')
    if not case:
        ctx.hit('no-arguments-call')
    if isinstance(case, dict) and 'skip' in case:
        ctx.hit('client-sets-excluded')
    if isinstance(case, dict) and 'ctx' in case:
        ctx.hit('client-sets-context')
    ctx.hit(f'{vname}:' + ('accepted' if kind is None else f'refused-by-{kind}'))


def _norm(v):
    if isinstance(v, tuple):
        return [_norm(x) for x in v]
    if isinstance(v, list):
        return [_norm(x) for x in v]
    if isinstance(v, dict):
        return {k: _norm(x) for k, x in v.items()}
    return v


def js_cases(rng, plist, frags, with_ctx, skip):
    names = [p[0] for p in plist]
    yield []
    yield {}
    per = []
    for p, f in zip(plist, frags):
        good = [v for v in JS_VALUES if frag_ok(FRAGMENTS[f], v)]
        bad = [v for v in JS_VALUES if not frag_ok(FRAGMENTS[f], v)]
        per.append((good, bad))
    # all-good, then one bad at a time, positional and named, with omissions
    for variant in range(4 + 2 * len(plist)):
        vals = []
        for i, (good, bad) in enumerate(per):
            if variant >= 4 and (variant - 4) // 2 == i and bad:
                vals.append(rng.choice(bad))
            else:
                vals.append(rng.choice(good) if good else 1)
        n_pos = sum(1 for p in plist if p[1] == 'PK')
        if variant % 2 == 0:
            yield vals[:n_pos] if n_pos else {names[0]: vals[0]}
            yield vals[:max(0, n_pos - 1)]
        else:
            yield {n: v for n, v in zip(names, vals)}
            drop = rng.randrange(len(names))
            yield {n: v for k, (n, v) in enumerate(zip(names, vals)) if k != drop}
    yield {**{n: 1 for n in names}, 'extra': 1}
    yield [1] * (len(plist) + 1)
    if skip:
        yield {**{n: (per[i][0][0] if per[i][0] else 1) for i, n in enumerate(names)}, 'skip': 'evil'}
    if with_ctx:
        yield {**{n: (per[i][0][0] if per[i][0] else 1) for i, n in enumerate(names)}, 'ctx': 'evil'}


# ---- pydantic programs -----------------------------------------------------------------------------------

def run_pd(ctx, params, with_ctx, skip, style, coerce, postponed=False, via=None, loader=None, ctx_positional=False, vdeco=''):
    """params: [(name, kind, has_default, annotation)]"""
    VIA['via'] = via
    DISP['view_deco'] = vdeco if style == 'view' else ''
    import decimal
    import functools
    DISP['kwargs'] = {'json_loader': functools.partial(json.loads, parse_float=decimal.Decimal)} if loader == 'decimal' and not via else {}
    DISP['ctx_positional'] = bool(ctx_positional and with_ctx and style != 'view')
    if DISP['kwargs']:
        ctx.hit('dispatcher:json-loader-yields-Decimal')
    if DISP['ctx_positional']:
        ctx.hit('context-handed-over-positionally')
    if via:
        ctx.hit('dispatcher-from-add_endpoint')
    if postponed:
        ctx.hit('pydantic:postponed-annotations')
    pred = (lambda name, ann, default: name == 'skip') if skip else None
    # constructed by keyword or positionally in the documented order (coerce, exclude_param)
    validator = vpd.PydanticValidator(coerce, pred) if len(params) % 2 else vpd.PydanticValidator(coerce=coerce, exclude_param=pred)
    mb = pd_member(ctx, ctx.rng, validator, params, with_ctx, skip, style, coerce, postponed)
    if mb is None:
        return
    if not mb['tag'] and DISP['view_deco']:
        mb['tag'] = ':view-' + DISP['view_deco']
    _marks(ctx, with_ctx, skip, style)
    twin = with_ctx and style != 'view'
    for n_case, (case, entries) in enumerate(mb['cases']):
        if twin and n_case % 5 == 0:
            twin_registration_call(ctx, mb['disp'], mb['is_async'], mb['ns'], mb['src'], mb['goods'], True, 'pydantic', tag=mb['tag'])
        pd_judge(ctx, mb, (case, entries), tag=mb['tag'])


def pd_member(ctx, rng, validator, params, with_ctx, skip, style, coerce, postponed=False, disp=None, name='f'):
    """one generated method under a PydanticValidator + the calls it is to be judged on. None when registration failed (reported)."""
    plist = [tuple(p) for p in params]
    try:
        ns, src, disp, is_async = build(plist, with_ctx, skip, style, validator, {}, annotate=True, postponed=postponed, disp=disp, name=name)
    except Exception as e:
        ctx.violation(f'registration-raises:{type(e).__name__}', 'pydantic', (repr(params),), exception=e)
        return None
    names = [p[0] for p in plist]
    cases = [([], None), ({}, None)]
    for variant in range(5 + 2 * len(plist)):
        entries = []
        for i, p in enumerate(plist):
            table = ANNOT[p[3]]
            goods = [e for e in table if e[1] in ('ok', 'coerce')]
            bads = [e for e in table if e[1].startswith('bad')]
            if variant >= 5 and (variant - 5) // 2 == i and bads:
                entries.append(rng.choice(bads))
            else:
                entries.append(rng.choice(goods))
        n_pos = sum(1 for p in plist if p[1] == 'PK')
        if variant % 2 == 0 and n_pos:
            cases.append(([e[0] for e in entries[:n_pos]], entries[:n_pos]))
        else:
            sub = list(range(len(plist)))
            if variant % 3 == 0:
                sub.remove(rng.randrange(len(plist)))
            cases.append(({names[i]: entries[i][0] for i in sub}, [entries[i] for i in sub]))
    cases.append(({**{n: ANNOT[p[3]][0][0] for n, p in zip(names, plist)}, 'extra': 1}, None))
    unhashable = any(p[2] == 'empty' for p in plist)
    tag = ':unhashable-default' if unhashable else (':postponed-annotations' if postponed else '')
    if unhashable:
        ctx.hit('pydantic:unhashable-default')
    for i, p in enumerate(plist):
        if p[2] == 'none':
            ctx.hit('pydantic:default-none-on-non-optional')
            cases.append(({n: (None if n == p[0] else ANNOT[q[3]][0][0]) for n, q in zip(names, plist)}, None))
            if p[1] == 'PK':
                cases.append(([None if j == i else ANNOT[q[3]][0][0] for j, q in enumerate(plist[:i + 1])], None))
    if skip:
        cases.append(({**{n: ANNOT[p[3]][0][0] for n, p in zip(names, plist)}, 'skip': 'evil'}, None))
    if with_ctx:
        cases.append(({**{n: ANNOT[p[3]][0][0] for n, p in zip(names, plist)}, 'ctx': 'evil'}, None))
    goods = {n: next(e[0] for e in ANNOT[p[3]] if e[1] in ('ok', 'coerce')) for n, p in zip(names, plist)}
    return dict(vname='pydantic', plist=plist, coerce=coerce, with_ctx=with_ctx, skip=skip, style=style, tag=tag,
                ns=ns, src=src, disp=disp, is_async=is_async, goods=goods, cases=cases, judge=pd_judge,
                method=name if style != 'view' or name == 'f' else name + '.f')


def pd_judge(ctx, mb, case_entries, tag=''):
    """one call of one member, judged against that member's own signature and annotations"""
    plist, ns, src, style, with_ctx, skip, coerce = (mb[k] for k in ('plist', 'ns', 'src', 'style', 'with_ctx', 'skip', 'coerce'))
    case, entries = case_entries
    st, out, CTX = call(mb['disp'], mb['is_async'], case, ns, method=mb['method'])
    m = bind_model(plist, case, skip)
    statuses = {}
    if m is not None:
        for name, v in m.items():
            ann = next(p[3] for p in plist if p[0] == name)
            hit = [e for e in ANNOT[ann] if typed_eq(_norm(e[0]), _norm(v))]
            statuses[name] = hit[0] if hit else None
    unknown = m is not None and any(s is None for s in statuses.values())
    if unknown:
        ctx.skip('value-outside-the-annotation-table')
        return
    bad = m is not None and any(s[1].startswith('bad') for s in statuses.values())
    live = m is not None and any(s[1] == 'bad-live-exception' for s in statuses.values())
    conforms = m is not None and not bad
    kind = None if conforms else ('binding' if m is None else 'schema')
    cls = (src, coerce, json.dumps(case), tag)
    fam = f'pydantic:{"coerce" if coerce else "asis"}:{style}:' + ('named' if isinstance(case, dict) else 'positional')
    wit = dict(source=src, params=case, validator=f'PydanticValidator(coerce={coerce})', model_verdict=kind or 'conforming')
    _case_marks(ctx, case, 'pydantic', kind)
    if live:
        ctx.hit('pydantic:live-exception-in-error')
    verdict, rec = judge_common(ctx, fam, cls, wit, st, out, ns, CTX, conforms,
                                kind + (':live-exception-in-details' if live else '') if kind else None, with_ctx, style,
                                tag=tag)
    if verdict == 'refused':
        ctx.ok(fam + ':refused-' + kind, cls, sample=wit)
    if verdict != 'ran':
        return
    problem = None
    for p in plist:
        name = p[0]
        got = rec.get(name)
        if name in m:
            e = statuses[name]
            if coerce:
                if not e[2](got):
                    problem = f'coercion-on:argument-not-of-annotated-type:{p[3]}'
                if e[1] == 'coerce':
                    ctx.hit('pydantic:coerced')
            else:
                if not typed_eq(_norm(got), _norm(m[name])) or type(got) is not type(m[name]):
                    problem = f'coercion-off:argument-altered:{p[3]}'
                ctx.hit('pydantic:coercion-off-accepted')
        else:
            want = None if (p[3].startswith('Optional') or p[2] == 'none') else 'd_' + name
            if p[2] == 'empty':
                want = [] if p[3].startswith('List') else {}
            if got != want:
                problem = 'default-not-applied'
    if skip and rec.get('skip') != 'skip-default':
        problem = 'excluded-parameter-set-by-client'
    if problem:
        ctx.violation(problem + (tag if tag.startswith(':one-validator') else ''), fam, cls, executions=_safe([rec]), **wit)
        return
    ctx.ok(fam + ':accepted', cls, sample=wit)


# ---- one validator object, several functions of the same name -----------------------------------------------

SHARED_TAG = ':one-validator-several-same-named-functions'


def run_shared(ctx, vkind, members, with_ctx, skip, style, coerce=True, order='interleaved', rseed=0):
    """ONE validator object (base / jsonschema / pydantic) decorates several DIFFERENT functions that all have the same
    __module__, __name__ and __qualname__ (a handler re-defined for a second API version, closures of one factory,
    exec-generated handlers, the method `f` of several classes called View) but different signatures / schemas; they are
    registered on one dispatcher under different JSON-RPC names and called in a mixed order. Every call is judged against the
    signature and schema of the function it is dispatched to - exactly as if that function were alone.
    members: per member the `params` (+ `frags`, `required`, `additional` for jsonschema); with_ctx: per member."""
    import random
    rng = random.Random(rseed)
    VIA['via'] = None
    DISP['kwargs'], DISP['ctx_positional'], DISP['view_deco'] = {}, False, ''
    pred = (lambda name, ann, default: name == 'skip') if skip else None
    if vkind == 'base':
        validator = vbase.BaseValidator(exclude_param=pred)
    elif vkind == 'jsonschema':
        validator = vjs.JsonSchemaValidator(exclude_param=pred)
    else:
        validator = vpd.PydanticValidator(coerce=coerce, exclude_param=pred)
    disp = (pjrpc.server.AsyncDispatcher if style == 'async' else pjrpc.server.Dispatcher)()
    mbs = []
    for j, spec in enumerate(members):
        if vkind == 'pydantic':
            mb = pd_member(ctx, rng, validator, spec['params'], with_ctx[j], skip, style, coerce, disp=disp, name=f'm{j}')
        else:
            mb = js_member(ctx, rng, validator, spec['params'], spec.get('frags'), spec.get('required'), spec.get('additional'),
                           with_ctx[j], skip, style, disp=disp, name=f'm{j}')
        if mb is None:
            return
        _marks(ctx, with_ctx[j], skip, style)
        mbs.append(mb)
    ctx.hit('shared-validator:groups')
    ctx.hit('shared-validator:' + vkind)
    ctx.hit('shared-validator:order-' + order)
    ctx.hit('shared-validator:style-' + style)
    ctx.hit('shared-validator:same-exclusion-set' if len(set(with_ctx)) == 1 else 'shared-validator:exclusion-sets-differ')
    if order == 'interleaved':
        seq = [(j, c) for j, mb in enumerate(mbs) for c in mb['cases']]
        rng.shuffle(seq)
    else:
        # member after member (in some order), then back again through the first calls of each
        first = list(range(len(mbs)))
        rng.shuffle(first)
        seq = [(j, c) for j in first for c in mbs[j]['cases']] + [(j, c) for j in reversed(first) for c in mbs[j]['cases'][2:7]]
    called = set()
    for j, c in seq:
        ctx.hit('shared-validator:calls')
        if called - {j}:
            ctx.hit('shared-validator:call-after-a-sibling-was-called')
        called.add(j)
        mbs[j]['judge'](ctx, mbs[j], c, tag=SHARED_TAG)


# ---- generation ------------------------------------------------------------------------------------------

def shapes(max_params):
    out = []
    for n in range(1, max_params + 1):
        for kinds in itertools.product(('PK', 'KO'), repeat=n):
            if any(kinds[i] == 'KO' and kinds[i + 1] == 'PK' for i in range(n - 1)):
                continue
            for first_default in range(n + 1):
                ps = []
                ok = True
                for i, k in enumerate(kinds):
                    ps.append((['a', 'b', 'c'][i], k, i >= first_default))
                out.append(ps)
    return out


def annotate_shape(rng, ps, anns):
    plist = []
    for (n, kind, dflt) in ps:
        a = rng.choice(anns)
        if dflt and (a in ('Item', 'Color', 'Picky', 'List[int]', 'Dict[str, int]', 'int', 'float', 'PositiveInt')
                     or a.startswith('Annotated')):
            if a in ('List[int]', 'Dict[str, int]') and rng.random() < 0.5:
                dflt = 'empty'         # a mutable (unhashable) default of the annotated type
            elif rng.random() < 0.4:
                dflt = 'none'          # ... or be the customary None on a non-Optional annotation
            else:
                a = rng.choice(['str', 'Optional[int]'])       # defaults must conform to the annotation
        plist.append([n, kind, dflt, a])
    return plist


def gen(ctx):
    rng = ctx.rng
    full = ctx.thorough
    shp = shapes(3)
    anns = list(ANNOT)
    k = 0
    reps = 150 if full else 20
    for ps in shp:
        for _ in range(reps):
            k += 1
            draft = 4 if k % 4 == 0 else None
            frags = [rng.randrange(len(FRAGMENTS) if draft == 4 else N_FRAGMENTS_ANY_DRAFT) for _ in ps]
            names = [p[0] for p in ps]
            required = [] if k % 3 else [rng.choice(names)]
            additional = [None, False, True][k % 3]
            yield 'js', dict(params=[list(p) for p in ps], frags=frags, required=required, additional=additional,
                             with_ctx=bool(k % 2), skip=bool((k // 2) % 2), style=('def', 'async', 'view', 'def')[(k // 4) % 4], draft=draft,
                             via=(None, None, 'flask-endpoint', 'aiohttp-endpoint')[(k // 3) % 4],
                             vdeco=('', 'classmethod', 'staticmethod')[(k // 16) % 3],
                             vdefault=(None, None, 'lax-default-overridden', None, 'default-only', None, 'strict-default-overridden', None,
                                       None, 'other-default-overridden')[(k // 5) % 10])
        for _ in range(reps * 2):
            k += 1
            plist = annotate_shape(rng, ps, anns)
            extra = {}
            if (k // 7) % 3 == 0 and not any(p[3] == 'float' for p in plist):
                extra['loader'] = 'decimal'          # (float-annotated parameters left out: a Decimal is no float to an as-is method)
            if (k // 3) % 2 == 0:
                extra['ctx_positional'] = True
            yield 'pd', dict(params=plist, with_ctx=bool(k % 2), skip=bool((k // 2) % 2),
                             style=('def', 'async', 'view', 'def')[k % 4], coerce=bool((k // 4) % 2), postponed=(k % 3 == 0),
                             via=(None, 'flask-endpoint', None, 'aiohttp-endpoint', None)[(k // 5) % 5],
                             vdeco=('', 'classmethod', 'staticmethod')[(k // 4) % 3], **extra)
    # every annotation alone, both coercion modes, every table entry
    for a in anns:
        for coerce in (True, False):
            for style in ('def', 'view'):
                yield 'pd', dict(params=[['a', 'PK', False, a]], with_ctx=False, skip=False, style=style, coerce=coerce)
                yield 'pd', dict(params=[['a', 'PK', False, a]], with_ctx=False, skip=False, style=style, coerce=coerce, postponed=True)
                yield 'pd', dict(params=[['a', 'PK', False, a], ['b', 'KO', True, 'str']], with_ctx=True, skip=True, style=style, coerce=coerce)
                if not a.startswith('Optional'):
                    yield 'pd', dict(params=[['a', 'PK', 'none', a], ['b', 'KO', 'none', a]], with_ctx=False, skip=False, style=style, coerce=coerce)
                if a in ('List[int]', 'Dict[str, int]'):
                    yield 'pd', dict(params=[['a', 'PK', False, 'int'], ['b', 'PK', 'empty', a]], with_ctx=False, skip=False, style=style, coerce=coerce)
    for style in ('def', 'view'):
        for f in (0, 4, 10):
            yield 'js', dict(params=[['a', 'PK', False], ['b', 'KO', True]], frags=[f, 0], required=[], additional=None,
                             with_ctx=False, skip=False, style=style, draft=4)
    # schemas whose object-level constraints are stricter than the signature
    for style in ('def', 'async', 'view'):
        yield 'js', dict(params=[['a', 'PK', True], ['b', 'PK', True]], frags=[0, 1], required=['a'], additional=False,
                         with_ctx=False, skip=False, style=style)
        yield 'js', dict(params=[['a', 'KO', True]], frags=[7], required=['a'], additional=None, with_ctx=True, skip=True, style=style)


    # one validator object shared by 2..3 same-named functions of different signatures, called in a mixed order
    shared_names = ('a', 'b', 'c', 'd')
    for g in range(ctx.pick(270, 4500)):
        vkind = ('base', 'jsonschema', 'pydantic')[g % 3]
        n = 2 + (g // 3) % 2
        style = ('def', 'async', 'view')[(g // 6) % 3]
        members = []
        for ps in rng.sample(shp, n):
            names = rng.sample(shared_names, len(ps))
            if g % 4 == 0:
                names = sorted(names)
            ps = [[nm, kind, dflt] for nm, (_, kind, dflt) in zip(names, ps)]
            if vkind == 'pydantic':
                members.append({'params': annotate_shape(rng, ps, anns)})
            elif vkind == 'jsonschema':
                members.append({'params': ps, 'frags': [rng.randrange(N_FRAGMENTS_ANY_DRAFT) for _ in ps],
                                'required': [] if rng.random() < 0.6 else [rng.choice(names)],
                                'additional': rng.choice([None, False, True])})
            else:
                members.append({'params': ps})
        same_ctx = bool((g // 2) % 2)
        yield 'shared', dict(vkind=vkind, members=members, with_ctx=[same_ctx if g % 5 else bool(j % 2) for j in range(n)],
                             skip=bool((g // 9) % 2), style=style, coerce=bool((g // 18) % 2),
                             order='blocks' if g % 7 == 3 else 'interleaved', rseed=rng.randrange(2 ** 32))


KINDS = {'js': run_js, 'pd': run_pd, 'shared': run_shared}
