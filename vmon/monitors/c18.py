"""C18 - the HTTP integrations (aiohttp, flask, werkzeug) relay the dispatcher's verdict unchanged."""
from __future__ import annotations

import io
import json

import pjrpc
import pjrpc.server

from .. import serverside, strictjson, world
from ..gen import docs
from ..models import server as model

PID = 'C18'
LEVEL = 'exploration'
RULE = ('one case = one HTTP POST (media type header x body from the C01-C03 corpus x endpoint) sent through the framework\'s '
        'own test client (aiohttp TestServer/TestClient over loop-back, flask test client, werkzeug Client) to an application '
        'built by the pjrpc integration with a status-by-error function and a path prefix; judged against a twin dispatcher '
        'with the same probe registry called directly with the same text: status (the recorded argument of the status function '
        'must be the twin\'s codes), body document, JSON content type, empty 200 when the dispatcher returns nothing, 415 and no '
        'execution for any other media type, no exception escaping the framework entry point, and equality of the replies of '
        'the three integrations to the same request. The bodies also travel in other framings than one Content-Length body: '
        'without a Content-Length (Transfer-Encoding: chunked from the aiohttp client - an async generator in two / many pieces, '
        'a bytes body sent chunked - and a hand-written request with chunk extensions, upper-case sizes and a trailer; for the '
        'WSGI integrations an environ without CONTENT_LENGTH, with wsgi.input_terminated and a stream that may hand out 7 bytes '
        'per read), with the right Content-Length but arriving in pieces (several socket writes / short reads), after '
        '`Expect: 100-continue`, and with a Content-Length that announces 3 bytes less than are written (the body is then the '
        'announced prefix): same oracle, on the body the framing defines. Distinct = distinct (integration, configuration, media '
        'type, body, framing).')
ASSUMPTIONS = [
    'bodies that are not UTF-8: only "nothing executed and the reply is 4xx or a -32700 document" is judged',
    'case variants of the media type (APPLICATION/JSON) are generated but not judged',
    'for the empty reply only status and body are judged (frameworks differ on the Content-Type of an empty body)',
    'the werkzeug integration has no status-by-error option: it is judged with the default (200) only',
    'a finding made under another framing is named after the framing (mechanism suffix :body-framing=...) only when the control - the '
    'same body sent once more to the same application as one plain Content-Length body - is answered differently',
    'framings: the WSGI integrations are driven with a hand-written environ passed to the WSGI callable (the test clients derive '
    'CONTENT_LENGTH from the stream themselves); streamed aiohttp requests use a connection of their own each; a Content-Length '
    'LARGER than the body, and a WSGI environ with neither CONTENT_LENGTH nor wsgi.input_terminated, are not generated (what the '
    'body is then is the framework\'s / server\'s business)',
]
SHARDS = {'quick': 4, 'thorough': 16}
TIMEOUT = {'quick': 900, 'thorough': 3600}
ANCHORS = [
    ('pjrpc/server/integration/aiohttp.py', 'Application._rpc_handle'),
    ('pjrpc/server/integration/flask.py', 'JsonRPC._rpc_handle'),
    ('pjrpc/server/integration/werkzeug.py', 'JsonRPC._rpc_handle'),
    ('pjrpc/server/integration/werkzeug.py', 'JsonRPC.wsgi_app'),
]
INTEGRATIONS = ['aiohttp', 'flask', 'werkzeug']
DOCUMENTED = ['application/json', 'application/json-rpc', 'application/jsonrequest']
# How the body travels. The first column names the class; then the variant used with the aiohttp integration (real HTTP over
# loop-back) and the one used with the WSGI integrations (what a WSGI server presents for such a request).
#   aiohttp variants: 'chunked-generator' (client streams an async generator: Transfer-Encoding: chunked, no Content-Length, two
#   pieces), 'chunked-pieces' (the same in many small pieces), 'chunked-flag' (a bytes body sent chunked), 'expect-100' (headers
#   first, body after the server's 100 Continue), 'raw-chunk-extensions' (hand-written request: chunk extensions, upper-case
#   sizes, a trailer field), 'raw-split-writes' (right Content-Length, body written to the socket in several pieces),
#   'raw-length-shorter' (Content-Length announces fewer bytes than are written: the body IS the announced prefix)
#   WSGI variants: 'terminated' (no CONTENT_LENGTH, wsgi.input_terminated set, HTTP_TRANSFER_ENCODING: chunked),
#   'terminated-short-reads' (the same, the stream hands out at most 7 bytes per read), 'short-reads' (right CONTENT_LENGTH, short
#   reads), 'length-shorter' (CONTENT_LENGTH smaller than what the stream holds), 'expect-header' (an Expect header came along)
FRAMINGS = {
    'plain': ('plain', 'plain'),
    'no-content-length:streamed-in-two-pieces': ('chunked-generator', 'terminated'),
    'no-content-length:streamed-in-many-pieces': ('chunked-pieces', 'terminated-short-reads'),
    'no-content-length:whole-body-as-one-chunk': ('chunked-flag', 'terminated'),
    'no-content-length:chunk-extensions-and-trailer': ('raw-chunk-extensions', 'terminated-short-reads'),
    'content-length:body-arrives-in-pieces': ('raw-split-writes', 'short-reads'),
    'content-length:sent-after-100-continue': ('expect-100', 'expect-header'),
    'content-length:announces-less-than-is-sent': ('raw-length-shorter', 'length-shorter'),
}
SHORTER_BY = 3          # 'announces-less': the announced length is this much smaller than what is written

FLOORS = {'*': {**{f'{i}:{t}': 10 for i in INTEGRATIONS for t in DOCUMENTED},
                **{f'{i}:{t}+params': 10 for i in INTEGRATIONS for t in DOCUMENTED},
                **{f'{i}:refused-type': 30 for i in INTEGRATIONS}, **{f'{i}:empty-reply': 5 for i in INTEGRATIONS},
                **{f'{i}:framing:{f}': 20 for i in INTEGRATIONS for f in FRAMINGS if f != 'plain'},
                'aiohttp:reply-holds-a-mapping-whose-keys-were-not-all-strings': 100, 'flask:reply-holds-a-mapping-whose-keys-were-not-all-strings': 100,
                'werkzeug:reply-holds-a-mapping-whose-keys-were-not-all-strings': 30,
                'aiohttp:request-went-out-without-a-content-length': 60, 'framing:method-executed': 100, 'framing:empty-reply': 10,
                'framing:batch': 20, 'framing:cross-integration-comparisons': 50,
                'status:non-200': 50, 'process-wide-default-content-type-changed': 100, 'body-starts-with-a-byte-order-mark': 10, 'status:without-a-registered-reason-phrase': 30, 'host-application-read-the-body-first': 100, 'endpoint:added': 50, 'endpoint:added-sub': 50, 'endpoint:added-bp': 50, 'endpoint:sub-application': 50, 'charset:non-utf8-declared': 30, 'cross-integration-comparisons': 200, 'non-utf8-bodies': 10}}

STATUS_TABLE = {-32700: 400, -32600: 400, -32601: 404, -32602: 422, -32000: 500, -32603: 500}
# valid HTTP status codes (three digits, classes 2xx / 4xx / 5xx) that no registry assigns a reason phrase to
STATUS_UNASSIGNED = {-32700: 499, -32600: 520, -32601: 599, -32602: 299, -32000: 530, -32603: 521}
# applications built with these status functions also carry a body-reading hook of the hosting application (an audit log)
AUDITED = ('table', 'unassigned')


class StatusFn:
    def __init__(self, kind):
        self.kind = kind
        self.args = []

    def __call__(self, codes):
        self.args.append(codes)
        if self.kind == 'default':
            return 200
        if self.kind == 'any-error-400':
            return 400 if any(codes) else 200
        if self.kind == 'all-errors-400':
            return 400 if all(codes) else 200      # NOT 200 for an empty tuple: the function has no say over an empty reply
        if self.kind == 'unassigned':
            return STATUS_UNASSIGNED.get(codes[0], 200 if codes[0] == 0 else 419) if codes else 200
        return STATUS_TABLE.get(codes[0], 200 if codes[0] == 0 else 418) if codes else 200


def want_status(kind, codes):
    if kind == 'default':
        return 200
    if kind == 'any-error-400':
        return 400 if any(codes) else 200
    if kind == 'all-errors-400':
        return 400 if all(codes) else 200
    if kind == 'unassigned':
        return STATUS_UNASSIGNED.get(codes[0], 200 if codes[0] == 0 else 419) if codes else 200
    return STATUS_TABLE.get(codes[0], 200 if codes[0] == 0 else 418) if codes else 200


NO_REPLY_WAIT = 10.0      # seconds; loop-back requests normally take milliseconds


class App:
    """one integration application + its twin dispatcher"""

    def __init__(self, integration, root, status_kind):
        self.integration = integration
        self.root = root
        self.status = StatusFn(status_kind)
        self.log = world.Log()
        is_async = integration == 'aiohttp'
        self.twins = {}
        for name in ('root', 'added', 'added-sub', 'added-bp', 'sub-application'):
            t = world.World(is_async, 3)
            t.dispatcher.add(self._which(name, is_async), 'which')
            self.twins[name] = t
        self.paths = {'root': root.rstrip('/')}
        if integration == 'aiohttp':
            from pjrpc.server.integration import aiohttp as integ
            from aiohttp import web as _web0
            self.audit = []

            @_web0.middleware
            async def audit(request, handler):
                self.audit.append(len(await request.read()))       # the hosting application reads the body first (it is cached)
                return await handler(request)
            host = _web0.Application(middlewares=[audit] if status_kind in AUDITED else [])
            self.app = integ.Application(root, app=host, status_by_error=self.status, max_batch_size=3)
            self.app.dispatcher.add_methods(world.build_registry(self.log, True))
            self.app.dispatcher.add(self._which('root', True), 'which')
            d2 = self.app.add_endpoint('/sub', max_batch_size=3)
            d2.add_methods(world.build_registry(self.log, True))
            d2.add(self._which('added', True), 'which')
            from aiohttp import web as _web
            d4 = self.app.add_endpoint('/viasub', subapp=_web.Application(), max_batch_size=3)
            d4.add_methods(world.build_registry(self.log, True))
            d4.add(self._which('added-sub', True), 'which')
            self.paths['added-sub'] = (root.rstrip('/') + '/viasub')
            d5 = self.app.add_endpoint('/viabp', subapp=_web.Application(), max_batch_size=3)
            d5.add_methods(world.build_registry(self.log, True))
            d5.add(self._which('added-bp', True), 'which')
            self.paths['added-bp'] = (root.rstrip('/') + '/viabp')
            d3 = self.app.add_endpoint('/last', max_batch_size=3)
            d3.add(self._which('last', True), 'which')
            self.paths['added'] = (root.rstrip('/') + '/sub')
            # a whole pjrpc Application with a path of its own, mounted under a prefix
            subapp = integ.Application('/rpcsub', status_by_error=self.status, max_batch_size=3)
            subapp.dispatcher.add_methods(world.build_registry(self.log, True))
            subapp.dispatcher.add(self._which('sub-application', True), 'which')
            self.app.add_subapp('/v1', subapp)
            self.paths['sub-application'] = root.rstrip('/') + '/v1/rpcsub'
            self._start_aiohttp()
        elif integration == 'flask':
            import flask
            from pjrpc.server.integration import flask as integ
            self.rpc = integ.JsonRPC(root or '/', status_by_error=self.status, max_batch_size=3)
            self.rpc.dispatcher.add_methods(world.build_registry(self.log, False))
            self.rpc.dispatcher.add(self._which('root', False), 'which')
            d2 = self.rpc.add_endpoint('/sub', max_batch_size=3)
            d2.add_methods(world.build_registry(self.log, False))
            d2.add(self._which('added', False), 'which')
            d4 = self.rpc.add_endpoint('/viasub', blueprint=flask.Blueprint('viasub', 'vmon_c18'), max_batch_size=3)
            d4.add_methods(world.build_registry(self.log, False))
            d4.add(self._which('added-sub', False), 'which')
            self.paths['added-sub'] = (root.rstrip('/') + '/viasub')
            # an endpoint served through a blueprint that is mounted under its own url_prefix
            d5 = self.rpc.add_endpoint('/viabp', blueprint=flask.Blueprint('viabp', 'vmon_c18', url_prefix='/bp'), max_batch_size=3)
            d5.add_methods(world.build_registry(self.log, False))
            d5.add(self._which('added-bp', False), 'which')
            self.paths['added-bp'] = '/bp' + (root.rstrip('/') + '/viabp')
            d3 = self.rpc.add_endpoint('/last', max_batch_size=3)
            d3.add(self._which('last', False), 'which')
            self.paths['added'] = (root.rstrip('/') + '/sub')
            self.flask_app = flask.Flask('vmon_c18')
            self.audit = []
            if status_kind in AUDITED:
                @self.flask_app.before_request
                def audit():
                    self.audit.append(len(flask.request.get_data()))       # the hosting application reads the body first (it is cached)
            self.rpc.init_app(self.flask_app)
            self.client = self.flask_app.test_client()
        else:
            import werkzeug.test
            from pjrpc.server.integration import werkzeug as integ
            self.rpc = integ.JsonRPC(root, max_batch_size=3)
            self.rpc.dispatcher.add_methods(world.build_registry(self.log, False))
            self.rpc.dispatcher.add(self._which('root', False), 'which')
            self.client = werkzeug.test.Client(self.rpc)

    @staticmethod
    def _which(name, is_async):
        if is_async:
            async def which():
                return name
        else:
            def which():
                return name
        return which

    def _start_aiohttp(self):
        from aiohttp.test_utils import TestClient, TestServer

        async def start():
            server = TestServer(self.app.app)
            client = TestClient(server)
            await client.start_server()
            return client
        self.client = world.run(start())

    def post(self, path_key, media_type, body: bytes, variant='plain'):
        """-> ('reply', status, content_type, body bytes) | ('exc', exception); variant: see FRAMINGS"""
        path = self.paths.get(path_key, self.paths['root'])
        self.log.clear()
        del self.status.args[:]
        self.sent_headers = None
        try:
            if self.integration == 'aiohttp':
                import aiohttp

                async def go(path=path, media_type=media_type, body=body, variant=variant):
                    headers = {'Content-Type': media_type} if media_type is not None else {}
                    skip = None if media_type is not None else ['Content-Type']
                    if variant.startswith('raw-'):
                        return await self._raw_post(path, media_type, body, variant)
                    data, extra = body, {}
                    if variant in ('chunked-generator', 'chunked-pieces'):
                        data = _pieces(body, 2 if variant == 'chunked-generator' else 9)
                    elif variant == 'chunked-flag':
                        extra['chunked'] = True
                    elif variant == 'expect-100':
                        extra['expect100'] = True
                    # (streamed bodies go over a connection of their own: a reply that arrives before the whole body was written
                    #  must not leave half a request on a connection that the next case would reuse)
                    session = self.client.session if variant == 'plain' else await self._one_shot_session()
                    for attempt in (0, 1):
                        try:
                            async with session.post(self.client.make_url(path), data=data, headers=headers, skip_auto_headers=skip, **extra) as r:
                                self.sent_headers = {k.lower(): v for k, v in r.request_info.headers.items()}
                                return r.status, r.headers.get('Content-Type'), await r.read()
                        except aiohttp.ClientConnectionError:
                            # a streamed body and a server that answers without reading it: the connection may be gone before the
                            # reply was read - tried once more, then it is what was observed
                            if variant == 'plain' or attempt:
                                raise
                            if variant in ('chunked-generator', 'chunked-pieces'):
                                data = _pieces(body, 2 if variant == 'chunked-generator' else 9)

                async def guarded():
                    # a reply that never comes must not stall the run: after a generous wait a CONTROL request (a plain
                    # call) goes to the same application; only if that one is answered is the silence a verdict
                    import asyncio
                    try:
                        return await asyncio.wait_for(go(), NO_REPLY_WAIT)
                    except asyncio.TimeoutError:
                        pass
                    except (asyncio.IncompleteReadError, ConnectionError):
                        # (hand-written requests: the connection was closed, twice, without a complete reply - no reply either)
                        if not variant.startswith('raw-'):
                            raise
                    try:
                        control = json.dumps({'jsonrpc': '2.0', 'id': 'control', 'method': 'which'}).encode()
                        cs, _, cb = await asyncio.wait_for(go(self.paths['root'], 'application/json', control, 'plain'), NO_REPLY_WAIT)
                        return ('noreply', cs, cb)
                    except asyncio.TimeoutError:
                        return ('stalled',)
                got = world.run(guarded())
                if got[0] in ('noreply', 'stalled'):
                    return got
                s, ct, b = got
            elif variant == 'plain':
                r = self.client.post(path, data=body, content_type=media_type)
                s, ct, b = r.status_code, r.headers.get('Content-Type'), r.get_data()
            else:
                # what a WSGI server presents: the input stream, CONTENT_LENGTH or wsgi.input_terminated, the request's header fields
                # (the test clients derive CONTENT_LENGTH from the stream they are given: the environ is written here instead and
                # handed to the WSGI application the way a server does)
                import werkzeug.test
                builder = werkzeug.test.EnvironBuilder(path=path, method='POST', content_type=media_type)
                try:
                    environ = builder.get_environ()
                finally:
                    builder.close()
                environ.pop('CONTENT_LENGTH', None)
                environ['wsgi.input'] = _ShortReads(body) if variant.endswith('short-reads') else io.BytesIO(body)
                if variant.startswith('terminated'):
                    environ.update({'wsgi.input_terminated': True, 'HTTP_TRANSFER_ENCODING': 'chunked'})
                elif variant == 'length-shorter':
                    environ['CONTENT_LENGTH'] = str(max(0, len(body) - SHORTER_BY))
                else:
                    environ['CONTENT_LENGTH'] = str(len(body))
                if variant == 'expect-header':
                    environ['HTTP_EXPECT'] = '100-continue'
                wsgi_app = self.flask_app if self.integration == 'flask' else self.rpc
                app_iter, status_line, hdrs = werkzeug.test.run_wsgi_app(wsgi_app, environ, buffered=True)
                try:
                    b = b''.join(app_iter)
                finally:
                    if hasattr(app_iter, 'close'):
                        app_iter.close()
                s, ct = int(status_line.split(' ', 1)[0]), hdrs.get('Content-Type')
        except Exception as e:
            return ('exc', e)
        return ('reply', s, ct, b)


    async def _one_shot_session(self):
        import aiohttp
        if getattr(self, '_fresh', None) is None:
            self._fresh = aiohttp.ClientSession(connector=aiohttp.TCPConnector(force_close=True))
        return self._fresh

    async def _raw_post(self, path, media_type, body, variant):
        """one hand-written HTTP/1.1 request over a fresh connection to the loop-back server; the (first) reply is parsed here"""
        import asyncio
        server = self.client.server
        head = [f'POST {path} HTTP/1.1', f'Host: {server.host}:{server.port}', 'Connection: close', 'User-Agent: vmon-c18']
        if media_type is not None:
            head.append(f'Content-Type: {media_type}')
        writes = []
        if variant == 'raw-chunk-extensions':
            head += ['Transfer-Encoding: chunked', 'Trailer: X-Probe-Trailer']
            step = max(1, (len(body) + 3) // 4)
            for n, i in enumerate(range(0, len(body), step)):
                piece = body[i:i + step]
                size = ('%X' if n % 2 else '%x') % len(piece)
                writes.append(size.encode() + (b';probe=1' if n % 2 == 0 else b'') + b'\r\n' + piece + b'\r\n')
            writes.append(b'0\r\nX-Probe-Trailer: done\r\n\r\n')
        elif variant == 'raw-split-writes':
            head.append(f'Content-Length: {len(body)}')
            step = max(1, (len(body) + 2) // 3)
            writes = [body[i:i + step] for i in range(0, len(body), step)]
        else:
            head.append(f'Content-Length: {max(0, len(body) - SHORTER_BY)}')
            writes = [body]
        self.sent_headers = {h.split(':', 1)[0].lower(): h.split(':', 1)[1].strip() for h in head[1:]}
        # a server may answer (and close) before it was sent everything - a refusal needs no body -, and what it closes with unread
        # input is reset: the reply is read as far as ITS framing says and no further; a connection lost before that is tried once more
        for attempt in (0, 1):
            try:
                return await self._raw_exchange(server, '\r\n'.join(head).encode('latin-1') + b'\r\n\r\n', writes)
            except (ConnectionError, asyncio.IncompleteReadError):
                if attempt:
                    raise

    @staticmethod
    async def _raw_exchange(server, head, writes):
        import asyncio
        reader, writer = await asyncio.open_connection(server.host, server.port)
        try:
            try:
                writer.write(head)
                await writer.drain()
                for w in writes:
                    await asyncio.sleep(0.001)           # (let the server see the pieces one by one)
                    writer.write(w)
                    await writer.drain()
            except ConnectionError:
                pass                                     # (the reply, if there is one, is still to be read)
            head_ = (await reader.readuntil(b'\r\n\r\n'))[:-4]
            lines = head_.decode('latin-1').split('\r\n')
            status = int(lines[0].split(' ', 2)[1])
            hdrs = {ln.split(':', 1)[0].strip().lower(): ln.split(':', 1)[1].strip() for ln in lines[1:] if ':' in ln}
            if 'content-length' in hdrs:
                rest = await reader.readexactly(int(hdrs['content-length']))
            else:
                rest = await reader.read()
        finally:
            writer.close()
        if 'content-length' not in hdrs and hdrs.get('transfer-encoding', '').lower() == 'chunked':
            out = b''
            while rest:
                size, _, rest = rest.partition(b'\r\n')
                n = int(size.split(b';')[0], 16)
                if n == 0:
                    break
                out, rest = out + rest[:n], rest[n + 2:]
            rest = out
        return status, hdrs.get('content-type'), rest


async def _pieces(body, n):
    """an async generator over the body in (at most) n pieces: the aiohttp client then streams it chunked"""
    step = max(1, (len(body) + n - 1) // n)
    for i in range(0, len(body), step):
        yield body[i:i + step]


class _ShortReads(io.RawIOBase):
    """a WSGI input stream that hands out at most 7 bytes per read (a socket does not deliver a body in one piece)"""

    def __init__(self, body):
        super().__init__()
        self._body, self._pos = body, 0

    def readable(self):
        return True

    def readinto(self, b):
        n = min(7, len(b), len(self._body) - self._pos)
        b[:n] = self._body[self._pos:self._pos + n]
        self._pos += n
        return n


_APPS = {}


def get_app(integration, root, status_kind):
    key = (integration, root, status_kind)
    if key not in _APPS:
        _APPS[key] = App(integration, root, status_kind)
    return _APPS[key]


def declared_charset(mt):
    """the charset parameter of a Content-Type value (parameter names are case-insensitive, values may be quoted)"""
    if mt is None:
        return 'utf-8'
    for part in mt.split(';')[1:]:
        name, _, value = part.partition('=')
        if name.strip().lower() == 'charset':
            return value.strip().strip('"').lower() or 'utf-8'
    return 'utf-8'


def media_class(mt):
    """'documented' | 'documented+params' | 'case-variant' | 'other' | 'missing'"""
    if mt is None:
        return 'missing', None
    main = mt.split(';', 1)[0].strip()
    if main in DOCUMENTED:
        return ('documented+params' if ';' in mt else 'documented'), main
    if main.lower() in DOCUMENTED:
        return 'case-variant', main.lower()
    return 'other', None


def run_post(ctx, root, status_kind, path_key, media_type, body_hex, family, default_ct=None, framing='plain'):
    """default_ct: the serving process has chosen another default content type (pjrpc.set_default_content_type): that is the
    type its replies carry; the documented request types stay the documented request types.
    framing: how the body travels (a key of FRAMINGS)"""
    if default_ct is None:
        return _run_post(ctx, root, status_kind, path_key, media_type, body_hex, family, 'application/json', framing)
    pjrpc.set_default_content_type(default_ct)
    try:
        ctx.hit('process-wide-default-content-type-changed')
        return _run_post(ctx, root, status_kind, path_key, media_type, body_hex, family, default_ct, framing)
    finally:
        pjrpc.set_default_content_type('application/json')


def _run_post(ctx, root, status_kind, path_key, media_type, body_hex, family, reply_ct, framing='plain'):
    sent = bytes.fromhex(body_hex)
    # the request's body is what the framing says it is: with a Content-Length that announces less than is written, the prefix
    body = sent[:max(0, len(sent) - SHORTER_BY)] if framing == 'content-length:announces-less-than-is-sent' else sent
    how = '' if framing == 'plain' else ':body-framing=' + framing

    current = {}

    def viol(mechanism, *a, **k):
        # the finding is named after the framing only if the framing matters: the same body sent once more to the same
        # application as one plain Content-Length body (the control) must then be answered differently
        suffix, app_, rep_ = how, current.get('app'), current.get('rep')
        if how and app_ is not None and rep_[0] in ('reply', 'exc'):
            control = app_.post(path_key, media_type, body, 'plain')
            if control[0] == rep_[0] and (control[1:2] + control[3:] == rep_[1:2] + rep_[3:] if rep_[0] == 'reply' else type(control[1]) is type(rep_[1])):
                suffix = ''
        ctx.violation(mechanism + suffix, *a, **k)
    charset = declared_charset(media_type)
    if charset not in ('utf-8', 'utf8'):
        ctx.hit('charset:non-utf8-declared')
    try:
        text = body.decode(charset)
    except (UnicodeDecodeError, LookupError):
        text = None
    mclass, main = media_class(media_type)
    if body.startswith(b'\xef\xbb\xbf'):
        ctx.hit('body-starts-with-a-byte-order-mark')
    replies = {}
    for integration in INTEGRATIONS:
        if integration == 'werkzeug' and (status_kind != 'default' or path_key != 'root'):
            continue
        if path_key == 'sub-application' and integration != 'aiohttp':
            continue          # mounting a whole pjrpc Application under a prefix exists in the aiohttp integration only
        app = get_app(integration, root, status_kind)
        if getattr(app, 'silent', False):
            ctx.skip('application-already-reported-silent')      # one report per application; every further one would wait again
            continue
        variant = FRAMINGS[framing][0 if integration == 'aiohttp' else 1]
        rep = app.post(path_key, media_type, sent, variant)
        current.update(app=app, rep=rep)
        cls = (integration, root, status_kind, path_key, media_type, body_hex, framing)
        fam = f'{integration}:{mclass}' + (':' + framing.split(':')[0] if framing != 'plain' else '')
        if framing != 'plain':
            ctx.hit(f'{integration}:framing:{framing}')
            if integration == 'aiohttp' and rep[0] == 'reply' and framing.startswith('no-content-length'):
                # (the harness's own part: the request really went out chunked, without a Content-Length)
                h = app.sent_headers or {}
                if 'content-length' in h or h.get('transfer-encoding', '').lower() != 'chunked':
                    ctx.skip('client-did-not-send-the-body-chunked')
                    continue
                ctx.hit('aiohttp:request-went-out-without-a-content-length')
        if rep[0] == 'stalled':
            ctx.skip('loop-back-server-answers-nothing-at-all')         # inconclusive: the machine, not the library
            continue
        if rep[0] == 'noreply':
            app.silent = True
            viol('no-http-reply-while-the-application-answers-other-requests', fam, cls, integration=integration, root_path=root,
                          endpoint=path_key, media_type=media_type, body=text if text is not None else body_hex,
                          waited_seconds=NO_REPLY_WAIT, control_request_status=rep[1], executions=list(app.log.calls))
            continue
        wit = dict(integration=integration, root_path=root, status_function=status_kind, endpoint=path_key, media_type=media_type,
                   body_framing=framing, how_it_was_sent=variant, bytes_written=len(sent),
                   body=text if text is not None else body_hex, reply=list(rep[:3]) + ([rep[3].decode('utf-8', 'replace')] if rep[0] == 'reply' else []),
                   executions=list(app.log.calls), status_function_arguments=list(app.status.args))
        if path_key != 'root':
            ctx.hit('endpoint:' + path_key)
        if rep[0] == 'exc':
            viol(f'exception-escapes-the-framework-entry-point:{type(rep[1]).__name__}:{mclass}', fam, cls, **wit)
            continue
        _, status, ctype, rbody = rep
        if mclass == 'case-variant':
            ctx.unjudge('media-type-case-variant')
            continue
        if mclass in ('other', 'missing'):
            ctx.hit(f'{integration}:refused-type')
            if app.log.calls:
                viol(f'method-executed-for-unsupported-media-type:{mclass}', fam, cls, **wit)
            elif status != 415:
                viol(f'unsupported-media-type-not-refused-with-415:{mclass}' + (':non-utf8-body' if text is None else ''),
                              fam, cls, **wit)
            else:
                ctx.ok(fam, cls, sample=wit)
                replies[integration] = ('415',)
            continue
        ctx.hit(f'{integration}:{main}' + ('+params' if mclass == 'documented+params' else ''))
        if family == 'non-string-keys':
            ctx.hit(f'{integration}:reply-holds-a-mapping-whose-keys-were-not-all-strings')
        if text is None:
            ctx.hit('non-utf8-bodies')
            okish = not app.log.calls and (400 <= status < 500 or _is_parse_error(rbody))
            if not okish:
                viol('non-utf8-body-executed-or-answered-2xx', fam, cls, **wit)
            else:
                ctx.ok(fam + ':non-utf8', cls, sample=wit)
            continue
        # ---- the twin dispatcher's verdict on the same text
        t = serverside.observe(app.twins[path_key if integration != 'werkzeug' else 'root'], text)
        if status == 415:
            viol(f'documented-media-type-refused:{main}' + (':with-parameters' if mclass == 'documented+params' else ''), fam, cls, **wit)
            continue
        if t.status == 'exc':
            ctx.skip('twin-dispatcher-raised')
            continue
        if serverside.normalise_calls(app.log.calls) != serverside.normalise_calls(t.calls):
            viol('executions-differ-from-direct-dispatch', fam, cls, twin_executions=t.calls, **wit)
            continue
        if framing != 'plain':
            if t.calls:
                ctx.hit('framing:method-executed')
            if t.raw is None:
                ctx.hit('framing:empty-reply')
            if isinstance(t.doc, list):
                ctx.hit('framing:batch')
        if t.raw is None:
            ctx.hit(f'{integration}:empty-reply')
            if status != 200 or rbody != b'':
                viol('empty-dispatcher-reply-not-relayed-as-empty-200', fam, cls, **wit)
            else:
                ctx.ok(fam + ':empty', cls, sample=wit)
                replies[integration] = (200, None)
            continue
        twin_text, twin_codes = t.raw
        want = want_status(status_kind if integration != 'werkzeug' else 'default', twin_codes)
        if want != 200:
            ctx.hit('status:non-200')
            if status_kind == 'unassigned':
                ctx.hit('status:without-a-registered-reason-phrase')
        if status_kind in AUDITED and getattr(app, 'audit', None):
            ctx.hit('host-application-read-the-body-first')
        try:
            doc = strictjson.decode(rbody.decode('utf-8'))
        except Exception:
            # (the reply to a body of the non-string-keys family gets a name of its own: another class of input, another finding)
            viol('reply-body-not-json' + (':reply-holds-a-mapping-with-non-string-keys' if family == 'non-string-keys' else ''), fam, cls,
                 twin_reply=twin_text, **wit)
            continue
        if not strictjson.typed_eq(doc, t.doc):
            viol('reply-document-differs-from-dispatcher-response', fam, cls, twin_reply=twin_text, **wit)
            continue
        if integration != 'werkzeug' and (len(app.status.args) != 1 or tuple(app.status.args[0]) != tuple(twin_codes)):
            viol('status-function-not-called-once-with-the-dispatchers-codes', fam, cls, twin_codes=list(twin_codes), **wit)
            continue
        if status != want:
            viol('status-is-not-the-status-functions-choice', fam, cls, expected_status=want, **wit)
            continue
        # (the aiohttp integration always labels its replies application/json, flask / werkzeug use the process-wide default)
        if (ctype or '').split(';', 1)[0].strip() not in ('application/json', reply_ct):
            viol('reply-content-type-not-json', fam, cls, **wit)
            continue
        ctx.ok(fam + ':relayed', cls, sample=wit)
        replies[integration] = (status, json.dumps(doc, sort_keys=True))
    # equivalence between integrations on the same request (default status function: comparable everywhere)
    current.clear()
    if len(replies) > 1:
        ctx.hit('cross-integration-comparisons')
        if framing != 'plain':
            ctx.hit('framing:cross-integration-comparisons')
        vals = list(replies.items())
        ref = vals[0]
        for name, rep in vals[1:]:
            a, b = ref[1], rep
            if status_kind != 'default' and 'werkzeug' in (ref[0], name):
                continue
            if a != b:
                viol('integrations-reply-differently', 'cross', (root, status_kind, path_key, media_type, body_hex, framing),
                              media_type=media_type, body_framing=framing, body=text, a=ref[0], reply_a=a, b=name, reply_b=b)
                break


def _is_parse_error(rbody):
    try:
        d = strictjson.decode(rbody.decode('utf-8'))
        return isinstance(d, dict) and d.get('error', {}).get('code') == -32700
    except Exception:
        return False


MEDIA = ['application/json', 'application/json-rpc', 'application/jsonrequest',
         'application/json; charset=utf-8', 'application/json-rpc; charset=utf-8', 'application/jsonrequest;charset=UTF-8',
         'application/json ; charset=utf-8', 'application/json;charset=utf-8; foo=bar',
         'APPLICATION/JSON', 'Application/Json-Rpc',
         'application/jsonx', 'application/x-json', 'text/json', 'text/plain', 'application/x-www-form-urlencoded',
         'application/xml', 'application', 'json', None,
         # structured-syntax suffixes are other media types, however JSON-ish they look
         'application/vnd.api+json', 'application/problem+json; charset=utf-8', 'application/ld+json', 'application/json+x']


def bodies(rng, full):
    out = []
    fixed = [
        docs.obj(id=1, method='ok', params=['h']), docs.obj(id='s', method='echo', params={'v': {'é': [1, 2.5, None, 10 ** 30]}}),
        docs.obj(method='ok', params=['n']), docs.obj(id=2, method='nope'), docs.obj(id=3, method='ok', params={'zz': 1}),
        docs.obj(id=4, method='rpcerr', params=[1234, 'app', {'d': None}]), docs.obj(id=5, method='typed'),
        docs.obj(id=6, method='boom', params=['ValueError', 'x']), docs.obj(method='boom', params=['KeyError', 'x']),
        [docs.obj(id=1, method='ok', params=['a']), docs.obj(method='ok', params=['b']), docs.obj(id=2, method='nope')],
        [docs.obj(method='ok', params=['a']), docs.obj(method='noargs')],
        [docs.obj(id=1, method='ok', params=['a'])] * 2, [docs.obj(id=i, method='noargs') for i in range(4)], [], {'jsonrpc': '2.0'}, 5,
        docs.obj(id='w', method='which'), [docs.obj(id='w', method='which'), docs.obj(id=1, method='ok', params=['x'])],
        docs.obj(id=7, method='slow', params=['s', 2]), docs.obj(id=0, method='fac2', params=[1, 2]), docs.obj(id='', method='kwonly', params={'a': 1}),
    ]
    for d in fixed:
        out.append(('corpus', json.dumps(d).encode()))
        out.append(('corpus-utf8', json.dumps(d, ensure_ascii=False).encode('utf-8')))
    # results / error data that are mappings whose keys are not all strings (ints, negative ints and strings side by side): the
    # reply is the dispatcher's document - {"200": 7, "total": 8, "404": 1} - from every integration
    for d in (docs.obj(id=1, method='keyed', params=['mixed']), docs.obj(id=2, method='keyed', params=['neg-and-str']),
              docs.obj(id=3, method='keyed', params=['int']), docs.obj(id=4, method='keyed', params={'kind': 'mixed', 'how': 'error'}),
              docs.obj(id='e', method='keyed', params={'kind': 'neg-and-str', 'how': 'error'}),
              [docs.obj(id=1, method='keyed', params=['mixed']), docs.obj(id=2, method='keyed', params=['int', 'error']), docs.obj(method='keyed', params=['mixed'])]):
        out.append(('non-string-keys', json.dumps(d).encode()))
    for t in ('', 'not json', '{"jsonrpc": "2.0", "id": 1, "method": "ok"', '[1,]', 'null', '{"jsonrpc":"2.0","id":1,"method":"echo","params":[1' + '0' * 5000 + ']}'):
        out.append(('garbage', t.encode()))
    # a byte-order mark in front of an otherwise well-formed document: what the dispatcher says about that TEXT is the verdict
    for d in (docs.obj(id=1, method='ok', params=['h']), docs.obj(method='ok', params=['n']), [docs.obj(id=1, method='noargs')]):
        out.append(('bom', b'\xef\xbb\xbf' + json.dumps(d).encode()))
    for b in (b'\xff\xfe{"jsonrpc": "2.0", "id": 1, "method": "noargs"}', b'{"jsonrpc": "2.0", "id": 1, "method": "ok", "params": ["\xe9"]}', b'\x80'):
        out.append(('non-utf8', b))
    if full:
        for fam, text, n in docs.batches(rng, 1, 150, 5):
            out.append(('corpus-batch', text.encode()))
        for fam, text in docs.singles(rng, False):
            if rng.random() < 0.3:
                try:
                    out.append(('corpus-single', text.encode('utf-8')))
                except UnicodeEncodeError:
                    pass
    return out


def gen(ctx):
    rng = ctx.rng
    full = ctx.thorough
    bs = bodies(rng, full)
    yield from framing_cases(bs, full)
    k = 0
    for mt, b in charset_cases(rng, full):
        k += 1
        if full or k % 3 == 0:
            yield 'post', dict(root=('/rpc', '/api')[k % 2], status_kind=('default', 'table')[k % 2],
                               path_key=('root', 'added', 'added-sub', 'added-bp')[k % 4], media_type=mt, body_hex=b.hex(), family='declared-charset')
    for root in ('/rpc', '/api', '/api/v1/'):
        for status_kind in ('default', 'any-error-400', 'table', 'all-errors-400', 'unassigned'):
            for fam, b in bs:
                for mt in MEDIA:
                    k += 1
                    cls_, _ = media_class(mt)
                    if status_kind == 'unassigned' and k % 3:
                        continue
                    if not full:
                        # quick: every body with two documented forms, one refused form, rotating the rest
                        pick = k % 2 == 0 or cls_.startswith('documented') or fam == 'non-utf8'
                        if not pick:
                            continue
                    yield 'post', dict(root=root, status_kind=status_kind, path_key=('added', 'root', 'added-sub', 'root', 'added-bp', 'root', 'sub-application')[k % 7],
                                       media_type=mt, body_hex=b.hex(), family=fam, **({'default_ct': 'application/json-rpc'} if k % 9 == 0 else {}))


def framing_cases(bs, full):
    """the bodies once more, travelling in every other framing: two documented media types and a refused one per body"""
    k = 0
    chosen = [(fam, b) for fam, b in bs if full or fam in ('corpus', 'garbage', 'bom', 'non-utf8', 'non-string-keys')]
    for fam, b in chosen:
        for framing in FRAMINGS:
            if framing == 'plain':
                continue
            for j in range(3 if not full else 5):
                k += 1
                mt = (DOCUMENTED[k % 3], DOCUMENTED[(k + 1) % 3] + '; charset=utf-8', MEDIA[10 + k % 9], 'application/json', MEDIA[3 + k % 5])[j]
                # (the first of a body's cases goes to the configuration all three integrations have: root endpoint, default status)
                yield 'post', dict(root=('/rpc', '/api', '/api/v1/')[k % 3],
                                   status_kind='default' if j == 0 else ('default', 'table', 'all-errors-400', 'any-error-400', 'unassigned')[k % 5],
                                   path_key='root' if j == 0 else ('root', 'added', 'root', 'added-sub', 'sub-application', 'added-bp')[k % 6],
                                   media_type=mt, body_hex=b.hex(), family=fam, framing=framing)


def charset_cases(rng, full):
    """(media type, body bytes) where the body is encoded in the charset the header declares"""
    texts = [json.dumps(d, ensure_ascii=False) for d in (
        docs.obj(id=1, method='echo', params=['é\u20ac']), docs.obj(id='w', method='which'), docs.obj(method='ok', params=['n']),
        [docs.obj(id=1, method='ok', params=['ü']), docs.obj(id=2, method='nope')], docs.obj(id=3, method='ok', params={'zz': 'ß'}))]
    forms = ['{mt}; charset={cs}', '{mt}; Charset={cs}', '{mt};CHARSET="{cs}"', '{mt} ; charset = {cs}'.replace(' = ', '=')]
    for cs in ('utf-16', 'latin-1', 'utf-8', 'UTF-8', 'cp1252'):
        for t in texts:
            try:
                b = t.encode(cs)
            except UnicodeEncodeError:
                continue
            for mt in DOCUMENTED:
                for f in forms:
                    yield f.format(mt=mt, cs=cs), b


def finish(ctx):
    for app in _APPS.values():
        fresh = getattr(app, '_fresh', None)
        if fresh is not None:
            world.run(fresh.close())
            app._fresh = None


KINDS = {'post': run_post}
