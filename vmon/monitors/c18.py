"""C18 - the HTTP integrations (aiohttp, flask, werkzeug) relay the dispatcher's verdict unchanged."""
from __future__ import annotations

import json

import pjrpc
import pjrpc.server

from .. import serverside, strictjson, world
from ..gen import docs
from ..models import server as model

PID = 'C18'
LEVEL = 'exploration'
RULE = ('one case = one HTTP POST (media type header x body from the C01-C03 corpus x endpoint) sent through the framework\'s '
        'own test client (aiohttp TestServer/TestClient over loop-back, flask test client, werkzeug Client) to an application '
        'built by the pjrpc integration with a status-by-error function and a path prefix; judged against a twin dispatcher '
        'with the same probe registry called directly with the same text: status (the recorded argument of the status function '
        'must be the twin\'s codes), body document, JSON content type, empty 200 when the dispatcher returns nothing, 415 and no '
        'execution for any other media type, no exception escaping the framework entry point, and equality of the replies of '
        'the three integrations to the same request. Distinct = distinct (integration, configuration, media type, body).')
ASSUMPTIONS = [
    'bodies that are not UTF-8: only "nothing executed and the reply is 4xx or a -32700 document" is judged',
    'case variants of the media type (APPLICATION/JSON) are generated but not judged',
    'for the empty reply only status and body are judged (frameworks differ on the Content-Type of an empty body)',
    'the werkzeug integration has no status-by-error option: it is judged with the default (200) only',
]
SHARDS = {'quick': 4, 'thorough': 16}
TIMEOUT = {'quick': 600, 'thorough': 3000}
ANCHORS = [
    ('pjrpc/server/integration/aiohttp.py', 'Application._rpc_handle'),
    ('pjrpc/server/integration/flask.py', 'JsonRPC._rpc_handle'),
    ('pjrpc/server/integration/werkzeug.py', 'JsonRPC._rpc_handle'),
    ('pjrpc/server/integration/werkzeug.py', 'JsonRPC.wsgi_app'),
]
INTEGRATIONS = ['aiohttp', 'flask', 'werkzeug']
DOCUMENTED = ['application/json', 'application/json-rpc', 'application/jsonrequest']
FLOORS = {'*': {**{f'{i}:{t}': 10 for i in INTEGRATIONS for t in DOCUMENTED},
                **{f'{i}:{t}+params': 10 for i in INTEGRATIONS for t in DOCUMENTED},
                **{f'{i}:refused-type': 30 for i in INTEGRATIONS}, **{f'{i}:empty-reply': 5 for i in INTEGRATIONS},
                'status:non-200': 50, 'process-wide-default-content-type-changed': 100, 'body-starts-with-a-byte-order-mark': 10, 'status:without-a-registered-reason-phrase': 30, 'host-application-read-the-body-first': 100, 'endpoint:added': 50, 'endpoint:added-sub': 50, 'endpoint:added-bp': 50, 'endpoint:sub-application': 50, 'charset:non-utf8-declared': 30, 'cross-integration-comparisons': 200, 'non-utf8-bodies': 10}}

STATUS_TABLE = {-32700: 400, -32600: 400, -32601: 404, -32602: 422, -32000: 500, -32603: 500}
# valid HTTP status codes (three digits, classes 2xx / 4xx / 5xx) that no registry assigns a reason phrase to
STATUS_UNASSIGNED = {-32700: 499, -32600: 520, -32601: 599, -32602: 299, -32000: 530, -32603: 521}
# applications built with these status functions also carry a body-reading hook of the hosting application (an audit log)
AUDITED = ('table', 'unassigned')


class StatusFn:
    def __init__(self, kind):
        self.kind = kind
        self.args = []

    def __call__(self, codes):
        self.args.append(codes)
        if self.kind == 'default':
            return 200
        if self.kind == 'any-error-400':
            return 400 if any(codes) else 200
        if self.kind == 'all-errors-400':
            return 400 if all(codes) else 200      # NOT 200 for an empty tuple: the function has no say over an empty reply
        if self.kind == 'unassigned':
            return STATUS_UNASSIGNED.get(codes[0], 200 if codes[0] == 0 else 419) if codes else 200
        return STATUS_TABLE.get(codes[0], 200 if codes[0] == 0 else 418) if codes else 200


def want_status(kind, codes):
    if kind == 'default':
        return 200
    if kind == 'any-error-400':
        return 400 if any(codes) else 200
    if kind == 'all-errors-400':
        return 400 if all(codes) else 200
    if kind == 'unassigned':
        return STATUS_UNASSIGNED.get(codes[0], 200 if codes[0] == 0 else 419) if codes else 200
    return STATUS_TABLE.get(codes[0], 200 if codes[0] == 0 else 418) if codes else 200


NO_REPLY_WAIT = 10.0      # seconds; loop-back requests normally take milliseconds


class App:
    """one integration application + its twin dispatcher"""

    def __init__(self, integration, root, status_kind):
        self.integration = integration
        self.root = root
        self.status = StatusFn(status_kind)
        self.log = world.Log()
        is_async = integration == 'aiohttp'
        self.twins = {}
        for name in ('root', 'added', 'added-sub', 'added-bp', 'sub-application'):
            t = world.World(is_async, 3)
            t.dispatcher.add(self._which(name, is_async), 'which')
            self.twins[name] = t
        self.paths = {'root': root.rstrip('/')}
        if integration == 'aiohttp':
            from pjrpc.server.integration import aiohttp as integ
            from aiohttp import web as _web0
            self.audit = []

            @_web0.middleware
            async def audit(request, handler):
                self.audit.append(len(await request.read()))       # the hosting application reads the body first (it is cached)
                return await handler(request)
            host = _web0.Application(middlewares=[audit] if status_kind in AUDITED else [])
            self.app = integ.Application(root, app=host, status_by_error=self.status, max_batch_size=3)
            self.app.dispatcher.add_methods(world.build_registry(self.log, True))
            self.app.dispatcher.add(self._which('root', True), 'which')
            d2 = self.app.add_endpoint('/sub', max_batch_size=3)
            d2.add_methods(world.build_registry(self.log, True))
            d2.add(self._which('added', True), 'which')
            from aiohttp import web as _web
            d4 = self.app.add_endpoint('/viasub', subapp=_web.Application(), max_batch_size=3)
            d4.add_methods(world.build_registry(self.log, True))
            d4.add(self._which('added-sub', True), 'which')
            self.paths['added-sub'] = (root.rstrip('/') + '/viasub')
            d5 = self.app.add_endpoint('/viabp', subapp=_web.Application(), max_batch_size=3)
            d5.add_methods(world.build_registry(self.log, True))
            d5.add(self._which('added-bp', True), 'which')
            self.paths['added-bp'] = (root.rstrip('/') + '/viabp')
            d3 = self.app.add_endpoint('/last', max_batch_size=3)
            d3.add(self._which('last', True), 'which')
            self.paths['added'] = (root.rstrip('/') + '/sub')
            # a whole pjrpc Application with a path of its own, mounted under a prefix
            subapp = integ.Application('/rpcsub', status_by_error=self.status, max_batch_size=3)
            subapp.dispatcher.add_methods(world.build_registry(self.log, True))
            subapp.dispatcher.add(self._which('sub-application', True), 'which')
            self.app.add_subapp('/v1', subapp)
            self.paths['sub-application'] = root.rstrip('/') + '/v1/rpcsub'
            self._start_aiohttp()
        elif integration == 'flask':
            import flask
            from pjrpc.server.integration import flask as integ
            self.rpc = integ.JsonRPC(root or '/', status_by_error=self.status, max_batch_size=3)
            self.rpc.dispatcher.add_methods(world.build_registry(self.log, False))
            self.rpc.dispatcher.add(self._which('root', False), 'which')
            d2 = self.rpc.add_endpoint('/sub', max_batch_size=3)
            d2.add_methods(world.build_registry(self.log, False))
            d2.add(self._which('added', False), 'which')
            d4 = self.rpc.add_endpoint('/viasub', blueprint=flask.Blueprint('viasub', 'vmon_c18'), max_batch_size=3)
            d4.add_methods(world.build_registry(self.log, False))
            d4.add(self._which('added-sub', False), 'which')
            self.paths['added-sub'] = (root.rstrip('/') + '/viasub')
            # an endpoint served through a blueprint that is mounted under its own url_prefix
            d5 = self.rpc.add_endpoint('/viabp', blueprint=flask.Blueprint('viabp', 'vmon_c18', url_prefix='/bp'), max_batch_size=3)
            d5.add_methods(world.build_registry(self.log, False))
            d5.add(self._which('added-bp', False), 'which')
            self.paths['added-bp'] = '/bp' + (root.rstrip('/') + '/viabp')
            d3 = self.rpc.add_endpoint('/last', max_batch_size=3)
            d3.add(self._which('last', False), 'which')
            self.paths['added'] = (root.rstrip('/') + '/sub')
            self.flask_app = flask.Flask('vmon_c18')
            self.audit = []
            if status_kind in AUDITED:
                @self.flask_app.before_request
                def audit():
                    self.audit.append(len(flask.request.get_data()))       # the hosting application reads the body first (it is cached)
            self.rpc.init_app(self.flask_app)
            self.client = self.flask_app.test_client()
        else:
            import werkzeug.test
            from pjrpc.server.integration import werkzeug as integ
            self.rpc = integ.JsonRPC(root, max_batch_size=3)
            self.rpc.dispatcher.add_methods(world.build_registry(self.log, False))
            self.rpc.dispatcher.add(self._which('root', False), 'which')
            self.client = werkzeug.test.Client(self.rpc)

    @staticmethod
    def _which(name, is_async):
        if is_async:
            async def which():
                return name
        else:
            def which():
                return name
        return which

    def _start_aiohttp(self):
        from aiohttp.test_utils import TestClient, TestServer

        async def start():
            server = TestServer(self.app.app)
            client = TestClient(server)
            await client.start_server()
            return client
        self.client = world.run(start())

    def post(self, path_key, media_type, body: bytes):
        """-> ('reply', status, content_type, body bytes) | ('exc', exception)"""
        path = self.paths.get(path_key, self.paths['root'])
        self.log.clear()
        del self.status.args[:]
        try:
            if self.integration == 'aiohttp':
                async def go(path=path, media_type=media_type, body=body):
                    headers = {'Content-Type': media_type} if media_type is not None else {}
                    skip = None if media_type is not None else ['Content-Type']
                    async with self.client.post(path, data=body, headers=headers, skip_auto_headers=skip) as r:
                        return r.status, r.headers.get('Content-Type'), await r.read()

                async def guarded():
                    # a reply that never comes must not stall the run: after a generous wait a CONTROL request (a plain
                    # call) goes to the same application; only if that one is answered is the silence a verdict
                    import asyncio
                    try:
                        return await asyncio.wait_for(go(), NO_REPLY_WAIT)
                    except asyncio.TimeoutError:
                        pass
                    try:
                        control = json.dumps({'jsonrpc': '2.0', 'id': 'control', 'method': 'which'}).encode()
                        cs, _, cb = await asyncio.wait_for(go(self.paths['root'], 'application/json', control), NO_REPLY_WAIT)
                        return ('noreply', cs, cb)
                    except asyncio.TimeoutError:
                        return ('stalled',)
                got = world.run(guarded())
                if got[0] in ('noreply', 'stalled'):
                    return got
                s, ct, b = got
            else:
                r = self.client.post(path, data=body, content_type=media_type)
                s, ct, b = r.status_code, r.headers.get('Content-Type'), r.get_data()
        except Exception as e:
            return ('exc', e)
        return ('reply', s, ct, b)


_APPS = {}


def get_app(integration, root, status_kind):
    key = (integration, root, status_kind)
    if key not in _APPS:
        _APPS[key] = App(integration, root, status_kind)
    return _APPS[key]


def declared_charset(mt):
    """the charset parameter of a Content-Type value (parameter names are case-insensitive, values may be quoted)"""
    if mt is None:
        return 'utf-8'
    for part in mt.split(';')[1:]:
        name, _, value = part.partition('=')
        if name.strip().lower() == 'charset':
            return value.strip().strip('"').lower() or 'utf-8'
    return 'utf-8'


def media_class(mt):
    """'documented' | 'documented+params' | 'case-variant' | 'other' | 'missing'"""
    if mt is None:
        return 'missing', None
    main = mt.split(';', 1)[0].strip()
    if main in DOCUMENTED:
        return ('documented+params' if ';' in mt else 'documented'), main
    if main.lower() in DOCUMENTED:
        return 'case-variant', main.lower()
    return 'other', None


def run_post(ctx, root, status_kind, path_key, media_type, body_hex, family, default_ct=None):
    """default_ct: the serving process has chosen another default content type (pjrpc.set_default_content_type): that is the
    type its replies carry; the documented request types stay the documented request types"""
    if default_ct is None:
        return _run_post(ctx, root, status_kind, path_key, media_type, body_hex, family, 'application/json')
    pjrpc.set_default_content_type(default_ct)
    try:
        ctx.hit('process-wide-default-content-type-changed')
        return _run_post(ctx, root, status_kind, path_key, media_type, body_hex, family, default_ct)
    finally:
        pjrpc.set_default_content_type('application/json')


def _run_post(ctx, root, status_kind, path_key, media_type, body_hex, family, reply_ct):
    body = bytes.fromhex(body_hex)
    charset = declared_charset(media_type)
    if charset not in ('utf-8', 'utf8'):
        ctx.hit('charset:non-utf8-declared')
    try:
        text = body.decode(charset)
    except (UnicodeDecodeError, LookupError):
        text = None
    mclass, main = media_class(media_type)
    if body.startswith(b'\xef\xbb\xbf'):
        ctx.hit('body-starts-with-a-byte-order-mark')
    replies = {}
    for integration in INTEGRATIONS:
        if integration == 'werkzeug' and (status_kind != 'default' or path_key != 'root'):
            continue
        if path_key == 'sub-application' and integration != 'aiohttp':
            continue          # mounting a whole pjrpc Application under a prefix exists in the aiohttp integration only
        app = get_app(integration, root, status_kind)
        if getattr(app, 'silent', False):
            ctx.skip('application-already-reported-silent')      # one report per application; every further one would wait again
            continue
        rep = app.post(path_key, media_type, body)
        cls = (integration, root, status_kind, path_key, media_type, body_hex)
        fam = f'{integration}:{mclass}'
        if rep[0] == 'stalled':
            ctx.skip('loop-back-server-answers-nothing-at-all')         # inconclusive: the machine, not the library
            continue
        if rep[0] == 'noreply':
            app.silent = True
            ctx.violation('no-http-reply-while-the-application-answers-other-requests', fam, cls, integration=integration, root_path=root,
                          endpoint=path_key, media_type=media_type, body=text if text is not None else body_hex,
                          waited_seconds=NO_REPLY_WAIT, control_request_status=rep[1], executions=list(app.log.calls))
            continue
        wit = dict(integration=integration, root_path=root, status_function=status_kind, endpoint=path_key, media_type=media_type,
                   body=text if text is not None else body_hex, reply=list(rep[:3]) + ([rep[3].decode('utf-8', 'replace')] if rep[0] == 'reply' else []),
                   executions=list(app.log.calls), status_function_arguments=list(app.status.args))
        if path_key != 'root':
            ctx.hit('endpoint:' + path_key)
        if rep[0] == 'exc':
            ctx.violation(f'exception-escapes-the-framework-entry-point:{type(rep[1]).__name__}:{mclass}', fam, cls, **wit)
            continue
        _, status, ctype, rbody = rep
        if mclass == 'case-variant':
            ctx.unjudge('media-type-case-variant')
            continue
        if mclass in ('other', 'missing'):
            ctx.hit(f'{integration}:refused-type')
            if app.log.calls:
                ctx.violation(f'method-executed-for-unsupported-media-type:{mclass}', fam, cls, **wit)
            elif status != 415:
                ctx.violation(f'unsupported-media-type-not-refused-with-415:{mclass}' + (':non-utf8-body' if text is None else ''),
                              fam, cls, **wit)
            else:
                ctx.ok(fam, cls, sample=wit)
                replies[integration] = ('415',)
            continue
        ctx.hit(f'{integration}:{main}' + ('+params' if mclass == 'documented+params' else ''))
        if text is None:
            ctx.hit('non-utf8-bodies')
            okish = not app.log.calls and (400 <= status < 500 or _is_parse_error(rbody))
            if not okish:
                ctx.violation('non-utf8-body-executed-or-answered-2xx', fam, cls, **wit)
            else:
                ctx.ok(fam + ':non-utf8', cls, sample=wit)
            continue
        # ---- the twin dispatcher's verdict on the same text
        t = serverside.observe(app.twins[path_key if integration != 'werkzeug' else 'root'], text)
        if status == 415:
            ctx.violation(f'documented-media-type-refused:{main}' + (':with-parameters' if mclass == 'documented+params' else ''), fam, cls, **wit)
            continue
        if t.status == 'exc':
            ctx.skip('twin-dispatcher-raised')
            continue
        if serverside.normalise_calls(app.log.calls) != serverside.normalise_calls(t.calls):
            ctx.violation('executions-differ-from-direct-dispatch', fam, cls, twin_executions=t.calls, **wit)
            continue
        if t.raw is None:
            ctx.hit(f'{integration}:empty-reply')
            if status != 200 or rbody != b'':
                ctx.violation('empty-dispatcher-reply-not-relayed-as-empty-200', fam, cls, **wit)
            else:
                ctx.ok(fam + ':empty', cls, sample=wit)
                replies[integration] = (200, None)
            continue
        twin_text, twin_codes = t.raw
        want = want_status(status_kind if integration != 'werkzeug' else 'default', twin_codes)
        if want != 200:
            ctx.hit('status:non-200')
            if status_kind == 'unassigned':
                ctx.hit('status:without-a-registered-reason-phrase')
        if status_kind in AUDITED and getattr(app, 'audit', None):
            ctx.hit('host-application-read-the-body-first')
        try:
            doc = strictjson.decode(rbody.decode('utf-8'))
        except Exception:
            ctx.violation('reply-body-not-json', fam, cls, twin_reply=twin_text, **wit)
            continue
        if not strictjson.typed_eq(doc, t.doc):
            ctx.violation('reply-document-differs-from-dispatcher-response', fam, cls, twin_reply=twin_text, **wit)
            continue
        if integration != 'werkzeug' and (len(app.status.args) != 1 or tuple(app.status.args[0]) != tuple(twin_codes)):
            ctx.violation('status-function-not-called-once-with-the-dispatchers-codes', fam, cls, twin_codes=list(twin_codes), **wit)
            continue
        if status != want:
            ctx.violation('status-is-not-the-status-functions-choice', fam, cls, expected_status=want, **wit)
            continue
        # (the aiohttp integration always labels its replies application/json, flask / werkzeug use the process-wide default)
        if (ctype or '').split(';', 1)[0].strip() not in ('application/json', reply_ct):
            ctx.violation('reply-content-type-not-json', fam, cls, **wit)
            continue
        ctx.ok(fam + ':relayed', cls, sample=wit)
        replies[integration] = (status, json.dumps(doc, sort_keys=True))
    # equivalence between integrations on the same request (default status function: comparable everywhere)
    if len(replies) > 1:
        ctx.hit('cross-integration-comparisons')
        vals = list(replies.items())
        ref = vals[0]
        for name, rep in vals[1:]:
            a, b = ref[1], rep
            if status_kind != 'default' and 'werkzeug' in (ref[0], name):
                continue
            if a != b:
                ctx.violation('integrations-reply-differently', 'cross', (root, status_kind, path_key, media_type, body_hex),
                              media_type=media_type, body=text, a=ref[0], reply_a=a, b=name, reply_b=b)
                break


def _is_parse_error(rbody):
    try:
        d = strictjson.decode(rbody.decode('utf-8'))
        return isinstance(d, dict) and d.get('error', {}).get('code') == -32700
    except Exception:
        return False


MEDIA = ['application/json', 'application/json-rpc', 'application/jsonrequest',
         'application/json; charset=utf-8', 'application/json-rpc; charset=utf-8', 'application/jsonrequest;charset=UTF-8',
         'application/json ; charset=utf-8', 'application/json;charset=utf-8; foo=bar',
         'APPLICATION/JSON', 'Application/Json-Rpc',
         'application/jsonx', 'application/x-json', 'text/json', 'text/plain', 'application/x-www-form-urlencoded',
         'application/xml', 'application', 'json', None,
         # structured-syntax suffixes are other media types, however JSON-ish they look
         'application/vnd.api+json', 'application/problem+json; charset=utf-8', 'application/ld+json', 'application/json+x']


def bodies(rng, full):
    out = []
    fixed = [
        docs.obj(id=1, method='ok', params=['h']), docs.obj(id='s', method='echo', params={'v': {'é': [1, 2.5, None, 10 ** 30]}}),
        docs.obj(method='ok', params=['n']), docs.obj(id=2, method='nope'), docs.obj(id=3, method='ok', params={'zz': 1}),
        docs.obj(id=4, method='rpcerr', params=[1234, 'app', {'d': None}]), docs.obj(id=5, method='typed'),
        docs.obj(id=6, method='boom', params=['ValueError', 'x']), docs.obj(method='boom', params=['KeyError', 'x']),
        [docs.obj(id=1, method='ok', params=['a']), docs.obj(method='ok', params=['b']), docs.obj(id=2, method='nope')],
        [docs.obj(method='ok', params=['a']), docs.obj(method='noargs')],
        [docs.obj(id=1, method='ok', params=['a'])] * 2, [docs.obj(id=i, method='noargs') for i in range(4)], [], {'jsonrpc': '2.0'}, 5,
        docs.obj(id='w', method='which'), [docs.obj(id='w', method='which'), docs.obj(id=1, method='ok', params=['x'])],
        docs.obj(id=7, method='slow', params=['s', 2]), docs.obj(id=0, method='fac2', params=[1, 2]), docs.obj(id='', method='kwonly', params={'a': 1}),
    ]
    for d in fixed:
        out.append(('corpus', json.dumps(d).encode()))
        out.append(('corpus-utf8', json.dumps(d, ensure_ascii=False).encode('utf-8')))
    for t in ('', 'not json', '{"jsonrpc": "2.0", "id": 1, "method": "ok"', '[1,]', 'null', '{"jsonrpc":"2.0","id":1,"method":"echo","params":[1' + '0' * 5000 + ']}'):
        out.append(('garbage', t.encode()))
    # a byte-order mark in front of an otherwise well-formed document: what the dispatcher says about that TEXT is the verdict
    for d in (docs.obj(id=1, method='ok', params=['h']), docs.obj(method='ok', params=['n']), [docs.obj(id=1, method='noargs')]):
        out.append(('bom', b'\xef\xbb\xbf' + json.dumps(d).encode()))
    for b in (b'\xff\xfe{"jsonrpc": "2.0", "id": 1, "method": "noargs"}', b'{"jsonrpc": "2.0", "id": 1, "method": "ok", "params": ["\xe9"]}', b'\x80'):
        out.append(('non-utf8', b))
    if full:
        for fam, text, n in docs.batches(rng, 1, 150, 5):
            out.append(('corpus-batch', text.encode()))
        for fam, text in docs.singles(rng, False):
            if rng.random() < 0.3:
                try:
                    out.append(('corpus-single', text.encode('utf-8')))
                except UnicodeEncodeError:
                    pass
    return out


def gen(ctx):
    rng = ctx.rng
    full = ctx.thorough
    bs = bodies(rng, full)
    k = 0
    for mt, b in charset_cases(rng, full):
        k += 1
        if full or k % 3 == 0:
            yield 'post', dict(root=('/rpc', '/api')[k % 2], status_kind=('default', 'table')[k % 2],
                               path_key=('root', 'added', 'added-sub', 'added-bp')[k % 4], media_type=mt, body_hex=b.hex(), family='declared-charset')
    for root in ('/rpc', '/api', '/api/v1/'):
        for status_kind in ('default', 'any-error-400', 'table', 'all-errors-400', 'unassigned'):
            for fam, b in bs:
                for mt in MEDIA:
                    k += 1
                    cls_, _ = media_class(mt)
                    if status_kind == 'unassigned' and k % 3:
                        continue
                    if not full:
                        # quick: every body with two documented forms, one refused form, rotating the rest
                        pick = k % 2 == 0 or cls_.startswith('documented') or fam == 'non-utf8'
                        if not pick:
                            continue
                    yield 'post', dict(root=root, status_kind=status_kind, path_key=('added', 'root', 'added-sub', 'root', 'added-bp', 'root', 'sub-application')[k % 7],
                                       media_type=mt, body_hex=b.hex(), family=fam, **({'default_ct': 'application/json-rpc'} if k % 9 == 0 else {}))


def charset_cases(rng, full):
    """(media type, body bytes) where the body is encoded in the charset the header declares"""
    texts = [json.dumps(d, ensure_ascii=False) for d in (
        docs.obj(id=1, method='echo', params=['é\u20ac']), docs.obj(id='w', method='which'), docs.obj(method='ok', params=['n']),
        [docs.obj(id=1, method='ok', params=['ü']), docs.obj(id=2, method='nope')], docs.obj(id=3, method='ok', params={'zz': 'ß'}))]
    forms = ['{mt}; charset={cs}', '{mt}; Charset={cs}', '{mt};CHARSET="{cs}"', '{mt} ; charset = {cs}'.replace(' = ', '=')]
    for cs in ('utf-16', 'latin-1', 'utf-8', 'UTF-8', 'cp1252'):
        for t in texts:
            try:
                b = t.encode(cs)
            except UnicodeEncodeError:
                continue
            for mt in DOCUMENTED:
                for f in forms:
                    yield f.format(mt=mt, cs=cs), b


KINDS = {'post': run_post}
