"""C12 - middlewares and error handlers run once per request element, in the declared order."""
from __future__ import annotations

import asyncio
import collections
import itertools
import json

import pjrpc
from pjrpc.common import UNSET, v20
from pjrpc.common.exceptions import JsonRpcError

from .. import serverside, strictjson, world
from ..gen import docs
from ..models import server as model
from ..strictjson import typed_eq

PID = 'C12'
LEVEL = 'exploration'
EXHAUSTIVE_OVERALL = False
RULE = ('one case = one dispatcher configuration (a stack of 0..3 middlewares over {pass-through, short-circuit, '
        'request-rewriting, response-rewriting} - all 85 stacks - and one of 8 error-handler tables) x one request document '
        '(success, each failure class, notifications, a mixed batch, rejected documents) x {sync, async, async with suspending '
        'middlewares}. Instrumented middlewares / handlers write an event log (enter/exit per middleware and element, handler '
        'key / index / incoming code, the request and context objects they were given); the per-element event sequence, the '
        'method executions and the response sent are compared with a straight-line model of the statement. Also walked, over '
        'narrower products: (a) handler tables in which a generic / per-code handler at the first, a middle or the last position '
        'of its list returns an error object whose TRUTH VALUE IS FALSE (JsonRpcError subclasses with __len__ -> 0 or __bool__ -> '
        'False; a truthy sized error as control), sync and async, and a middleware that answers with such an error: every handler '
        'must be handed what the previous one returned (class, code, message, data are compared) and the last returned error is '
        'sent; (b) the `middlewares` argument (declared Iterable) handed over as a generator expression, filter / map / iter / '
        'reversed / itertools.chain object (one-shot), tuple, deque, dict keys view or a bare Iterable object, to the core '
        'constructors and to the integration entry points that take the dispatcher\'s arguments (aiohttp Application(...) and '
        'add_endpoint(...), flask JsonRPC(...) and add_endpoint(...), werkzeug JsonRPC(...); two of them also reached over HTTP), '
        'with handler lists that are plain lists or list subclasses. Distinct = distinct (stack, table, document, dispatcher '
        'flavour, container kinds).')
ASSUMPTIONS = [
    'probe middlewares and handlers do not raise; short-circuiting middlewares return UNSET for notifications',
    'handlers run for failing notifications as for failing calls (the statement does not exempt them)',
    'events of different batch elements may interleave; only the per-element sequences are compared',
    'handler lists are declared List, not Iterable: they are handed over as lists or list subclasses only (a one-shot iterable there '
    'is outside the declared interface and is not generated); an iterator that can be walked only once is taken to be a legal value of the `middlewares` parameter (declared Iterable)',
    'the second element of dispatch()\'s return value (the tuple of error codes) is not judged here, also not for falsy error objects',
]
SHARDS = {'quick': 8, 'thorough': 16}
TIMEOUT = {'quick': 900, 'thorough': 3600}
ANCHORS = [
    ('pjrpc/server/dispatcher.py', 'Dispatcher.__init__'), ('pjrpc/server/dispatcher.py', 'AsyncDispatcher.__init__'),
    ('pjrpc/server/dispatcher.py', 'Dispatcher._handle_request'), ('pjrpc/server/dispatcher.py', 'AsyncDispatcher._handle_request'),
    ('pjrpc/server/dispatcher.py', 'Dispatcher.dispatch'), ('pjrpc/server/dispatcher.py', 'AsyncDispatcher.dispatch'),
]
MW_KINDS = ['P', 'S', 'Q', 'R', 'A']     # A = answers every request itself, notifications included
# U = returns UNSET for every request, calls included (MiddlewareResponse allows it): nothing is sent for that element
# E = refuses every call itself with an ERROR response that carries the request's id and a protocol-level code
#     (-32600 / -32700 by stack index): an access / policy layer; the chain's response is sent as it is
EXTRA_MW_KINDS = ['U', 'E']
# F = like E, but the error object of the response it answers with is FALSY (a JsonRpcError subclass whose __bool__ says False):
#     what the chain returns is what is sent, whatever the truth value of the objects inside it
NARROW_MW_KINDS = ['F']
E_CODES = [-32600, -32700]
TABLES = ['none', 'generic', 'per-code', 'both', 'two-per-key', 'replace-generic', 'replace-per-code', 'annotate', 'same-callable',
          'codes-declared-before-generic', 'translate-to-protocol-codes', 'handlers-for-rejection-codes']
# handler tables in which a handler RETURNS AN ERROR OBJECT WITH AN UNUSUAL TRUTH VALUE (a JsonRpcError subclass that is a sized
# collection of its field problems and currently has none: __len__ -> 0; one whose __bool__ says False; a truthy sized one as the
# control), generic and per-code, at the first / a middle / the last position of its list. Walked over a narrower set of stacks.
FALSY_TABLES = ['falsy-error-generic-only', 'falsy-error-per-code-only', 'falsy-error-first-of-list', 'falsy-error-middle-of-list',
                'falsy-error-last-of-list', 'falsy-error-from-every-handler', 'sized-error-control']
# what the `middlewares` argument (declared Iterable) is handed over as; the first six can be walked ONCE only
MW_CONTAINERS = ['generator', 'filter', 'map', 'iter', 'reversed', 'chain', 'tuple', 'deque', 'dict-keys', 'iterable-object']
ONE_SHOT = ('generator', 'filter', 'map', 'iter', 'reversed', 'chain')
# entry points that take the dispatcher's arguments: the core constructors and the integration objects / their add_endpoint()
CONTAINER_ENTRIES = ['sync', 'async', 'async-suspending', 'flask-application', 'flask-endpoint', 'werkzeug-application',
                     'aiohttp-application', 'aiohttp-endpoint']
CONTAINER_ENTRIES_HTTP = ['aiohttp-application-http', 'aiohttp-http-mounted']
FLOORS = {'*': {**{f'mw:{k}:depth{d}': 20 for k in MW_KINDS + EXTRA_MW_KINDS for d in range(3)},
                **{f'table:{t}:failing': 20 for t in TABLES + FALSY_TABLES if t != 'none'},
                **{f'table:{t}:batch': 5 for t in TABLES + FALSY_TABLES}, **{f'table:{t}:notification': 5 for t in TABLES + FALSY_TABLES},
                'handler-returns-a-falsy-error': 1000, 'falsy-error-is-handed-to-a-later-handler': 500, 'falsy-error-is-the-one-sent': 300,
                'falsy-error-returned-by-a-generic-handler': 300, 'falsy-error-returned-by-a-per-code-handler': 300,
                'falsy-error-returned-by-an-async-handler': 300, 'falsy-error-returned-by-a-sync-handler': 100,
                'middleware-answers-a-call-with-a-falsy-error': 100,
                **{f'middlewares-handed-over-as:{c}': 100 for c in MW_CONTAINERS},
                **{f'non-list-middlewares-through:{e}': 100 for e in CONTAINER_ENTRIES},
                **{f'non-list-middlewares-through:{e}': 10 for e in CONTAINER_ENTRIES_HTTP},
                'one-shot-middlewares:short-circuit-answer-expected': 100, 'handler-lists-handed-over-as:list-subclass': 100,
                'flavour:flask-application': 100, 'flavour:aiohttp-application': 100, 'flavour:werkzeug-application': 100,
                'flavour:sync': 500, 'flavour:async': 500, 'flavour:async-suspending': 500, 'flavour:async-sequential': 500, 'flavour:async-awaitables': 500,
                'flavour:flask-endpoint': 100, 'flavour:aiohttp-endpoint': 100, 'flavour:aiohttp-http-mounted': 40, 'flavour:sync-own-response-class': 100,
                'flavour:async-own-response-class': 100, 'flavour:async-dict-context': 100, 'flavour:sync-dict-context': 100, 'rejected-documents': 100,
                'short-circuit': 300, 'handler-events': 500, 'middleware-returns-UNSET-for-a-call': 100,
                'middleware-answers-a-call-with-a-protocol-level-error': 100}}

EVENTS = []


def tok(request):
    if request is None:
        return 'no-request'         # (a hook called without a request: recorded, the event checks then say what is wrong)
    return request.id if request.id is not None else f'n:{request.method}'


class SizedError(JsonRpcError):
    """an aggregated validation error: a sized collection of its field problems (falsy while it has none)"""
    code = 4220
    message = 'Unprocessable request'

    def __init__(self, *fields):
        super().__init__(data=list(fields))

    def __len__(self):
        return len(self.data)

    def __iter__(self):
        return iter(self.data)


class QuietError(JsonRpcError):
    """an error object whose truth value is False"""

    def __bool__(self):
        return False


class WithheldError(JsonRpcError):
    """details withheld: no data member at all, length 0"""

    def __len__(self):
        return 0


def describe(error):
    """what an error object says about itself (read without asking for its truth value)"""
    data = getattr(error, 'data', None)
    return (type(error).__name__, getattr(error, 'code', None), getattr(error, 'message', None),
            world.ABSENT if isinstance(data, pjrpc.common.UnsetType) else repr(data))


def make_mw(kind, idx, flavour):
    """probe middleware of a kind at stack index idx"""
    def pre(request, context):
        EVENTS.append(('enter', idx, tok(request), request, context))

    def post(request0):
        EVENTS.append(('exit', idx, tok(request0)))

    def rewrite_request(request):
        if kind == 'Q' and request.method == 'ok' and isinstance(request.params, list) and request.params:
            return v20.Request(request.method, [request.params[0], f'q{idx}'], request.id)
        return request

    def short(request):
        if kind == 'U':
            return UNSET
        if kind == 'E':
            return UNSET if request.id is None else v20.Response(
                id=request.id, error=JsonRpcError(code=E_CODES[idx % 2], message='refused by policy', data=['refused', idx]))
        if kind == 'F':
            return UNSET if request.id is None else v20.Response(
                id=request.id, error=QuietError(code=E_CODES[idx % 2], message='refused quietly', data=['quiet', idx]))
        if kind == 'A':
            return v20.Response(id=request.id, result=['answered', idx])       # "whatever the chain returns is what is sent"
        return UNSET if request.id is None else v20.Response(id=request.id, result=['short', idx])

    def rewrite_response(resp):
        if kind == 'R' and not isinstance(resp, pjrpc.common.UnsetType) and resp.is_success:
            return v20.Response(id=resp.id, result=[f'r{idx}', resp.result])
        return resp

    if flavour == 'sync':
        def mw(request, context, handler):
            pre(request, context)
            if kind in ('S', 'A', 'U', 'E', 'F'):
                out = short(request)
            else:
                out = rewrite_response(handler(rewrite_request(request), context))
            post(request)
            return out
        return mw

    suspend = flavour in ('async-suspending', 'async-sequential', 'async-awaitables')

    if flavour == 'async-awaitables':
        # a middleware that is a plain callable handing out an awaitable which is not a coroutine object
        def awmw(request, context, handler):
            return Awaitable(amw(request, context, handler)) if idx % 2 else asyncio.ensure_future(amw(request, context, handler))

    async def amw(request, context, handler):
        pre(request, context)
        if suspend:
            await asyncio.sleep(0)
        if kind in ('S', 'A', 'U', 'E', 'F'):
            out = short(request)
        else:
            out = rewrite_response(await handler(rewrite_request(request), context))
        if suspend:
            await asyncio.sleep(0)
        post(request)
        return out
    return awmw if flavour == 'async-awaitables' else amw


class Awaitable:
    """an awaitable that is neither a coroutine object nor a future"""

    def __init__(self, coro):
        self._coro = coro

    def __await__(self):
        return self._coro.__await__()


def make_handler(key, j, action, flavour):
    """error handler registered under `key` at list position j"""
    def produce(error):
        if action == 'identity':
            return error
        if action == 'replace':
            return JsonRpcError(code=5000 + (0 if key is None else 1) * 100 + j, message=f'replaced by {key}:{j}', data=error.code)
        if action == 'to-protocol-code':
            return JsonRpcError(code=E_CODES[(j or 0) % 2], message='translated', data=error.code)
        if action == 'falsy-sized':
            return SizedError()                                      # no field problems: len() == 0; code and message of its class
        if action == 'sized-nonempty':
            return SizedError('f1', 'f2')                            # the control: the same class, truthy
        if action == 'falsy-bool':
            return QuietError(code=error.code, message=error.message, data={'quiet': [key, j]})
        if action == 'falsy-withheld':
            return WithheldError(code=error.code, message='details withheld')
        return JsonRpcError(code=error.code, message=error.message, data={'seen_by': [key, j]})

    def work(request, context, error):
        out = produce(error)
        EVENTS.append(('handler', key, j, tok(request), error.code, request, context, describe(error), describe(out),
                       'truthy' if out else 'falsy'))
        return out
    if flavour == 'sync':
        return work

    async def awork(request, context, error):
        if flavour in ('async-suspending', 'async-sequential', 'async-awaitables'):
            await asyncio.sleep(0)
        return work(request, context, error)

    if flavour == 'async-awaitables':
        # what loop.run_in_executor / asyncio.ensure_future / an object with __await__ hand out
        def fwork(request, context, error):
            return asyncio.ensure_future(awork(request, context, error)) if (j or 0) % 2 == 0 else Awaitable(awork(request, context, error))
        return fwork
    return awork


def make_handlers(tspec, flavour):
    """the error_handlers table of a case; the action 'shared' stands for ONE callable object listed at several places"""
    shared = make_handler('shared', 0, 'annotate', flavour)
    return {key: [shared if a == 'shared' else make_handler(key, j, a, flavour) for j, a in enumerate(actions)]
            for key, actions in tspec.items()}


RAISED_CODES = [-32601, -32602, -32000, 1234, world.TYPED_CODE, -32603]


def table_spec(name):
    """{key: [action, ...]}; keys: None (generic) or codes"""
    if name == 'none':
        return {}
    if name == 'generic':
        return {None: ['identity']}
    if name == 'per-code':
        return {c: ['identity'] for c in RAISED_CODES}
    if name == 'both':
        return {None: ['identity'], **{c: ['identity'] for c in RAISED_CODES}}
    if name == 'two-per-key':
        return {None: ['identity', 'annotate'], **{c: ['annotate', 'identity'] for c in RAISED_CODES}}
    if name == 'replace-generic':
        # generic handler swaps the code; handlers exist for the raised codes and for the new code 5000
        return {None: ['replace'], 5000: ['annotate'], **{c: ['annotate'] for c in RAISED_CODES}}
    if name == 'replace-per-code':
        return {c: ['replace', 'annotate'] for c in RAISED_CODES} | {5100: ['identity'], 5101: ['identity']}
    if name == 'codes-declared-before-generic':
        # the mapping lists the per-code entries first: the order of application is generic, then per-code, all the same
        return {**{c: ['annotate'] for c in RAISED_CODES}, None: ['annotate', 'identity']}
    if name == 'translate-to-protocol-codes':
        # handlers that translate application failures into -32600 / -32700 (for requests that DO have an id)
        return {None: ['to-protocol-code'], **{c: ['identity', 'to-protocol-code'] for c in RAISED_CODES[:3]}}
    if name == 'handlers-for-rejection-codes':
        # entries under the codes of documents that are rejected before any request exists: nothing is ever raised with them
        # inside the chain, so they never run (a rejected document reaches neither middlewares nor handlers)
        return {-32600: ['annotate', 'replace'], -32700: ['replace'], None: ['identity'], -32601: ['annotate']}
    if name == 'same-callable':
        # one handler object listed generically and (twice) per code: every listed entry applies, in list order
        return {None: ['shared'], **{c: ['annotate', 'shared', 'shared'] for c in RAISED_CODES}}
    # ---- handlers returning error objects with an unusual truth value (4220 = the code the sized error brings along: handlers
    #      listed under it never run, nothing is RAISED with that code)
    if name == 'falsy-error-generic-only':
        return {None: ['falsy-sized']}
    if name == 'falsy-error-per-code-only':
        return {c: ['falsy-bool'] for c in RAISED_CODES}
    if name == 'falsy-error-first-of-list':
        return {None: ['falsy-bool', 'annotate'], 4220: ['replace'], **{c: ['falsy-sized', 'identity'] for c in RAISED_CODES}}
    if name == 'falsy-error-middle-of-list':
        return {None: ['annotate', 'falsy-sized', 'identity'], **{c: ['identity', 'falsy-withheld', 'annotate'] for c in RAISED_CODES}}
    if name == 'falsy-error-last-of-list':
        return {None: ['annotate', 'falsy-withheld'], 4220: ['replace'], **{c: ['annotate', 'falsy-sized'] for c in RAISED_CODES}}
    if name == 'falsy-error-from-every-handler':
        return {None: ['falsy-sized', 'falsy-bool'], **{c: ['falsy-withheld', 'falsy-bool', 'falsy-sized'] for c in RAISED_CODES}}
    if name == 'sized-error-control':
        return {None: ['sized-nonempty', 'identity'], 4220: ['replace'], **{c: ['annotate', 'sized-nonempty'] for c in RAISED_CODES}}
    assert name == 'annotate', name
    return {None: ['annotate'], **{c: ['annotate', 'annotate'] for c in RAISED_CODES}}


FALSY_ACTIONS = {'falsy-sized': 'falsy', 'falsy-bool': 'falsy', 'falsy-withheld': 'falsy'}


def apply_action(action, key, j, err):
    """model of the handler bodies over (code, message, data)"""
    code, message, data = err
    if action == 'identity':
        return err
    if action == 'falsy-sized':
        return (4220, 'Unprocessable request', [])
    if action == 'sized-nonempty':
        return (4220, 'Unprocessable request', ['f1', 'f2'])
    if action == 'falsy-bool':
        return (code, message, {'quiet': [key, j]})
    if action == 'falsy-withheld':
        return (code, 'details withheld', model.ABSENT_MEMBER)
    if action == 'replace':
        return (5000 + (0 if key is None else 1) * 100 + j, f'replaced by {key}:{j}', code)
    if action == 'to-protocol-code':
        return (E_CODES[(j or 0) % 2], 'translated', code)
    return (code, message, {'seen_by': [key, j]})


DOCS = {
    'call-ok': docs.obj(id=1, method='ok', params=['t0']),
    'call-unknown': docs.obj(id=2, method='nope', params=['t']),
    'call-unbound': docs.obj(id=3, method='ok', params={'zz': 1}),
    'call-rpcerr': docs.obj(id=4, method='rpcerr', params=[1234, 'app', {'d': 1}]),
    'call-typed': docs.obj(id=5, method='typed', params=['td']),
    'call-exc': docs.obj(id=6, method='boom', params=['ValueError', 'x']),
    # handling fails outside the method body (the view cannot be built): an internal error like any other failure
    'call-internal': docs.obj(id=7, method='broken.vm', params=[1]),
    'notify-internal': docs.obj(method='broken.vm'),
    'notify-ok': docs.obj(method='ok', params=['t0']),
    'notify-exc': docs.obj(method='boom', params=['KeyError', 'x']),
    'notify-rpcerr': docs.obj(method='rpcerr', params=[1234, 'app']),
    'batch-mixed': [docs.obj(id=1, method='ok', params=['t0']), docs.obj(method='boom', params=['ValueError', 'x']),
                    docs.obj(id=2, method='rpcerr', params=[1234, 'app', None]), docs.obj(id=3, method='nope'),
                    docs.obj(method='ok', params=['t4']), docs.obj(id='s', method='ok', params={'zz': 0})],
    'batch-ok': [docs.obj(id=1, method='ok', params=['t0']), docs.obj(id=2, method='ok', params=['t1'])],
    'batch-one-ok': [docs.obj(id=9, method='ok', params=['t0'])],
    'batch-one-failing': [docs.obj(id=9, method='rpcerr', params=[1234, 'app'])],
    'batch-one-notify': [docs.obj(method='ok', params=['t0'])],
    'batch-three-notify': [docs.obj(method='ok', params=['t0']), docs.obj(method='boom', params=['ValueError', 'x']), docs.obj(method='noargs')],
    'rejected-not-json': '{"jsonrpc": "2.0", "id": 1, "method": "ok"',
    'rejected-invalid': {'jsonrpc': '2.0', 'id': 1},
    'rejected-empty-batch': [],
    'rejected-dup-ids': [docs.obj(id=1, method='ok', params=['a']), docs.obj(id=1, method='ok', params=['b'])],
    'rejected-bad-element': [docs.obj(id=1, method='ok', params=['a']), 5],
}


def expected_element(el, stack, table, ctx_token):
    """(events, response or None, executions) for one valid request element"""
    is_notif = el.get('id') is None
    t = el['id'] if not is_notif else f"n:{el['method']}"
    events = []
    cur = dict(el)
    short_at = None
    for i, k in enumerate(stack):
        events.append(('enter', i, t))
        if k in ('S', 'A', 'U', 'E', 'F'):
            short_at = i
            break
        if k == 'Q' and cur['method'] == 'ok' and isinstance(cur.get('params'), list) and cur['params']:
            cur = dict(cur, params=[cur['params'][0], f'q{i}'])
    executions = []
    if short_at is not None and stack[short_at] == 'U':
        resp = None
        depth = short_at
    elif short_at is not None and stack[short_at] == 'E':
        resp = None if is_notif else model.err(el['id'], E_CODES[short_at % 2], 'refused by policy', ['refused', short_at])
        depth = short_at
    elif short_at is not None and stack[short_at] == 'F':
        resp = None if is_notif else model.err(el['id'], E_CODES[short_at % 2], 'refused quietly', ['quiet', short_at])
        depth = short_at
    elif short_at is not None and stack[short_at] == 'A':
        resp = {'jsonrpc': '2.0', 'id': el.get('id'), 'result': ['answered', short_at]}
        depth = short_at
    elif short_at is not None:
        resp = None if is_notif else {'jsonrpc': '2.0', 'id': el['id'], 'result': ['short', short_at]}
        depth = short_at
    else:
        exp = model.Expected()
        r, kind = model.element(cur, exp, ctx_token)
        executions = exp.executions
        failing = kind.split('-', 1)[1] != 'ok'
        resp = r
        if failing:
            # recover the raised error even for notifications
            probe = dict(cur, id=cur.get('id') if cur.get('id') is not None else 0)
            rr, _ = model.element(probe, model.Expected(), ctx_token)
            e = rr['error']
            err = (e['code'], e['message'], e.get('data', model.ABSENT_MEMBER))
            raised_code = e['code']
            chain = [(None, j, a) for j, a in enumerate(table.get(None, []))] + \
                    [(raised_code, j, a) for j, a in enumerate(table.get(raised_code, []))]
            for key, j, action in chain:
                if action == 'shared':
                    key, j, action = 'shared', 0, 'annotate'
                events.append(('handler', key, j, t, err[0]))
                err = apply_action(action, key, j, err)
            if not is_notif:
                resp = model.err(el['id'], err[0], err[1], err[2])
        depth = len(stack) - 1
    for i in range(depth, -1, -1):
        events.append(('exit', i, t))
        if stack[i] == 'R' and resp is not None and 'result' in resp and i != short_at:
            resp = {'jsonrpc': '2.0', 'id': resp['id'], 'result': [f'r{i}', resp['result']]}
    return events, resp, executions


class IterableObject:
    """an Iterable and nothing more: no length, no indexing; every iter() starts over"""

    def __init__(self, items):
        self._items = list(items)

    def __iter__(self):
        return iter(self._items)


class HandlerList(list):
    """a list (the declared type of a handler list) of the application's own making"""


def in_container(items, kind):
    """the declared stack `items`, handed over as another kind of Iterable (the declared order is the iteration order)"""
    items = list(items)
    if kind == 'list':
        return items
    if kind == 'generator':
        return (m for m in items)                                        # e.g. (mw for option, mw in candidates if enabled[option])
    if kind == 'filter':
        return filter(None, [None] + [x for m in items for x in (m, None)])
    if kind == 'map':
        return map(lambda m: m, items)
    if kind == 'iter':
        return iter(items)
    if kind == 'reversed':
        return reversed(items[::-1])
    if kind == 'chain':
        return itertools.chain(items[:1], items[1:])
    if kind == 'tuple':
        return tuple(items)
    if kind == 'deque':
        return collections.deque(items)
    if kind == 'dict-keys':
        return dict.fromkeys(items).keys()                                 # (the probe middlewares of a stack are distinct objects)
    if kind == 'iterable-object':
        return IterableObject(items)
    raise ValueError(kind)


def application_factory(flavour):
    """the dispatcher OF an integration object, configured through that object's constructor (which takes the dispatcher's
    arguments); with '-http' it is reached the way its clients reach it"""
    def make(**kwargs):
        if flavour == 'flask-application':
            from pjrpc.server.integration import flask as integ
            return integ.JsonRPC('/rpc', **kwargs).dispatcher
        if flavour == 'werkzeug-application':
            from pjrpc.server.integration import werkzeug as integ
            return integ.JsonRPC('/rpc', **kwargs).dispatcher
        import aiohttp.web
        from pjrpc.server.integration import aiohttp as integ
        rpc = integ.Application('/rpc', app=aiohttp.web.Application(), **kwargs)
        if flavour == 'aiohttp-application-http':
            outer = aiohttp.web.Application()
            outer.add_subapp('/svc', rpc.app)
            return HttpMounted(rpc.dispatcher, outer, '/svc/rpc')
        return rpc.dispatcher
    return make


def endpoint_factory(flavour):
    """a dispatcher obtained through an integration's add_endpoint(); the integration object itself was configured with
    decoy middlewares and error handlers that answer everything / replace every error: they belong to ITS dispatcher"""
    inner = 'sync' if flavour == 'flask-endpoint' else 'async'
    decoy_mw = make_mw('A', 99, inner)
    decoy_eh = make_handler('decoy', 0, 'replace', inner)

    def make(**kwargs):
        kwargs = {k: v for k, v in kwargs.items() if v}          # an endpoint configured with nothing is given nothing
        if flavour == 'flask-endpoint':
            from pjrpc.server.integration import flask as integ
            rpc = integ.JsonRPC('/rpc', middlewares=[decoy_mw], error_handlers={None: [decoy_eh]})
        else:
            import aiohttp.web
            from pjrpc.server.integration import aiohttp as integ
            rpc = integ.Application('/rpc', app=aiohttp.web.Application(), middlewares=[decoy_mw], error_handlers={None: [decoy_eh]})
        return rpc.add_endpoint('/sub', **kwargs)
    return make


class HttpMounted:
    """the endpoint dispatcher of an aiohttp integration application that is served BELOW a prefix of an outer application,
    reached the way its clients reach it: an HTTP POST. Registration calls go to the real endpoint dispatcher."""

    def __init__(self, disp, outer, path):
        self._disp, self._outer, self._path = disp, outer, path
        self.registry = disp.registry

    def add_methods(self, *a, **k):
        return self._disp.add_methods(*a, **k)

    def add(self, *a, **k):
        return self._disp.add(*a, **k)

    def view(self, *a, **k):
        return self._disp.view(*a, **k)

    async def dispatch(self, text, context=None):
        from aiohttp.test_utils import TestClient, TestServer
        client = TestClient(TestServer(self._outer))
        await client.start_server()
        try:
            async with client.post(self._path, data=text.encode(), headers={'Content-Type': 'application/json'}) as r:
                body = (await r.read()).decode()
                if r.status != 200:
                    raise RuntimeError(f'HTTP status {r.status}: {body[:200]}')
        finally:
            await client.close()
        if body == '':
            return None
        doc = json.loads(body)
        elems = doc if isinstance(doc, list) else [doc]
        return body, tuple(e.get('error', {}).get('code', 0) if isinstance(e, dict) else 0 for e in elems)


ANY_CONTEXT = object()       # the flavour whose context object is made by the framework (the HTTP request)


def http_mounted_factory():
    decoy_mw = make_mw('A', 99, 'async')
    decoy_eh = make_handler('decoy', 0, 'replace', 'async')

    def make(**kwargs):
        import aiohttp.web
        from pjrpc.server.integration import aiohttp as integ
        kwargs = {k: v for k, v in kwargs.items() if v}
        rpc = integ.Application('/rpc', app=aiohttp.web.Application(), middlewares=[decoy_mw], error_handlers={None: [decoy_eh]})
        disp = rpc.add_endpoint('/sub', **kwargs)
        outer = aiohttp.web.Application()
        outer.add_subapp('/svc', rpc.app)
        return HttpMounted(disp, outer, '/svc/rpc/sub')
    return make


class SubResponse(v20.Response):
    """the dispatcher is configured with its own response class; a middleware may still answer with a plain Response"""


class SubBatchResponse(v20.BatchResponse):
    pass


def base_flavour(flavour):
    return {'flask-endpoint': 'sync', 'aiohttp-endpoint': 'async', 'aiohttp-http-mounted': 'async', 'sync-own-response-class': 'sync', 'async-own-response-class': 'async',
            'async-dict-context': 'async', 'sync-dict-context': 'sync', 'flask-application': 'sync', 'werkzeug-application': 'sync',
            'aiohttp-application': 'async', 'aiohttp-application-http': 'async'}.get(flavour, flavour)


def run_case(ctx, stack, table, doc_name, flavour, mw_container='list', eh_container='list'):
    del EVENTS[:]
    outer = flavour
    flavour = base_flavour(outer)
    is_async = flavour != 'sync'
    tspec = table_spec(table)
    mws = in_container([make_mw(k, i, flavour) for i, k in enumerate(stack)], mw_container)
    handlers = make_handlers(tspec, flavour)
    if eh_container == 'list-subclass':
        handlers = {key: HandlerList(lst) for key, lst in handlers.items()}
    extra = {'concurrent_batch': False} if flavour == 'async-sequential' else {}
    if outer.endswith('-endpoint'):
        extra['make_dispatcher'] = endpoint_factory(outer)
    if outer == 'aiohttp-http-mounted':
        extra['make_dispatcher'] = http_mounted_factory()
    if outer.endswith('-application') or outer == 'aiohttp-application-http':
        extra['make_dispatcher'] = application_factory(outer)
    if outer.endswith('-own-response-class'):
        extra.update(response_class=SubResponse, batch_response=SubBatchResponse)
    w = world.World(is_async, None, middlewares=mws, error_handlers=handlers, **extra)
    flavour = outer
    doc = DOCS[doc_name]
    text = doc if isinstance(doc, str) else json.dumps(doc)
    # (a plain dict is a perfectly good context object: the hooks get THAT object, not a copy of it)
    CTX = {'token-holder': 'c12'} if outer.endswith('-dict-context') else world.Context('c12')
    if outer in ('aiohttp-http-mounted', 'aiohttp-application-http'):
        CTX = ANY_CONTEXT
    o = serverside.observe(w, text, context=CTX)
    cls = (''.join(stack), table, doc_name, flavour, mw_container, eh_container)
    fam = f'{flavour}:{len(stack)}mw:{table}' + (f':middlewares-as-{mw_container}' if mw_container != 'list' else '')
    ctx.hit('flavour:' + flavour)
    for d, k in enumerate(stack):
        ctx.hit(f'mw:{k}:depth{d}')
    if mw_container != 'list' and stack:
        ctx.hit('middlewares-handed-over-as:' + mw_container)
        ctx.hit('non-list-middlewares-through:' + flavour)
        if mw_container in ONE_SHOT and any(k in ('S', 'A', 'E', 'F') for k in stack):
            ctx.hit('one-shot-middlewares:short-circuit-answer-expected')
    if eh_container != 'list' and tspec:
        ctx.hit('handler-lists-handed-over-as:' + eh_container)
    log = list(EVENTS)
    # (how the class of a finding is named when the stack was not handed over as a list)
    how = '' if mw_container == 'list' or not stack else (
        ':middlewares-handed-over-as-a-one-shot-iterable' if mw_container in ONE_SHOT else ':middlewares-handed-over-as-a-non-list-iterable')
    wit = dict(stack=stack, middlewares_handed_over_as=mw_container, handler_lists_handed_over_as=eh_container,
               handler_table={str(k): v for k, v in tspec.items()}, document=text, flavour=flavour,
               returned=o.raw, exception=o.exc, events=[e[:5] if e[0] == 'handler' else e[:3] for e in log], executions=o.calls)
    if o.status == 'exc':
        ctx.violation(f'dispatch-raises:{type(o.exc).__name__}' + how, fam, cls, **wit)
        return
    info = serverside.TextInfo(text)
    base = model.expected(info.doc, None)
    if doc_name.startswith('rejected'):
        ctx.hit('rejected-documents')
        if log:
            ctx.violation('middleware-or-handler-ran-for-a-rejected-document:' + log[0][0], fam, cls, **wit)
            return
        if o.calls:
            ctx.violation('rejected-document-executed-a-method', fam, cls, **wit)
            return
        if model.match(base.response, o.doc):
            ctx.violation('rejected-document-answer-differs', fam, cls, **wit)
            return
        ctx.ok(fam + ':rejected', cls, sample=wit)
        return
    elements = info.doc if isinstance(info.doc, list) else [info.doc]
    want_events, want_resps, want_exec = {}, [], []
    any_failing = False
    for el in elements:
        ev, resp, ex = expected_element(el, stack, tspec, None if (outer.endswith('-dict-context') or CTX is ANY_CONTEXT) else 'c12')
        t = el['id'] if el.get('id') is not None else f"n:{el['method']}"
        want_events[t] = ev
        if resp is not None:
            want_resps.append(resp)
        want_exec.extend(ex)
        if any(e[0] == 'handler' for e in ev):
            any_failing = True
            ctx.hit('handler-events')
        if 'S' in stack or 'A' in stack:
            ctx.hit('short-circuit')
        if 'U' in stack:
            ctx.hit('middleware-returns-UNSET-for-a-call')
        if 'E' in stack and el.get('id') is not None:
            ctx.hit('middleware-answers-a-call-with-a-protocol-level-error')
        if 'F' in stack and el.get('id') is not None:
            ctx.hit('middleware-answers-a-call-with-a-falsy-error')
        # handlers that return an error object whose truth value is False: where in the chain, and what becomes of it
        hs = [e for e in ev if e[0] == 'handler']
        current_is_falsy = False
        for n, e in enumerate(hs):
            action = 'annotate' if e[1] == 'shared' else tspec[e[1]][e[2]]
            if action in FALSY_ACTIONS:
                current_is_falsy = True
                ctx.hit('handler-returns-a-falsy-error')
                ctx.hit('falsy-error-returned-by-a-generic-handler' if e[1] is None else 'falsy-error-returned-by-a-per-code-handler')
                ctx.hit('falsy-error-returned-by-an-async-handler' if is_async else 'falsy-error-returned-by-a-sync-handler')
                if n + 1 < len(hs):
                    ctx.hit('falsy-error-is-handed-to-a-later-handler')
            elif action != 'identity':
                current_is_falsy = False
        if current_is_falsy and el.get('id') is not None:
            ctx.hit('falsy-error-is-the-one-sent')
    if any_failing:
        ctx.hit(f'table:{table}:failing')
    if isinstance(info.doc, list):
        ctx.hit(f'table:{table}:batch')
    if any(el.get('id') is None for el in elements):
        ctx.hit(f'table:{table}:notification')
    # ---- per-element event sequences (+ objects handed to middlewares / handlers)
    got_events, got_handlers = {}, {}
    for e in log:
        t = e[2] if e[0] in ('enter', 'exit') else e[3]
        simple = e[:3] if e[0] in ('enter', 'exit') else e[:5]
        got_events.setdefault(t, []).append(simple)
        if e[0] == 'handler':
            got_handlers.setdefault(t, []).append(e)
        if e[0] == 'enter':
            if not isinstance(e[3], v20.Request):
                ctx.violation('middleware-not-given-the-parsed-request', fam, cls, **wit)
                return
            if CTX is not ANY_CONTEXT and e[4] is not CTX:
                ctx.violation('middleware-not-given-the-context-object', fam, cls, **wit)
                return
        if e[0] == 'handler':
            if not isinstance(e[5], v20.Request) or (CTX is not ANY_CONTEXT and e[6] is not CTX):
                ctx.violation('error-handler-not-given-request-and-context', fam, cls, **wit)
                return
    for t, want in want_events.items():
        got = got_events.get(t, [])
        if got != want:
            n_enter_w = sum(1 for e in want if e[0] == 'enter')
            n_enter_g = sum(1 for e in got if e[0] == 'enter')
            wh = [e for e in want if e[0] == 'handler']
            gh = [e for e in got if e[0] == 'handler']
            if n_enter_g != n_enter_w:
                mech = 'middleware-pass-count-wrong:' + ('none' if n_enter_g == 0 else ('more' if n_enter_g > n_enter_w else 'fewer')) + how
            elif [e for e in got if e[0] != 'handler'] != [e for e in want if e[0] != 'handler']:
                mech = 'middleware-nesting-order-wrong' + how
            elif not wh and gh:
                mech = 'handler-ran-for-a-successful-element'
            elif len(gh) != len(wh):
                mech = 'handler-count-wrong'
            elif [(e[1], e[2]) for e in gh] != [(e[1], e[2]) for e in wh]:
                mech = 'handlers-selected-or-ordered-wrongly'
            else:
                mech = 'handler-did-not-receive-the-previous-handlers-error'
                first = next(n for n in range(len(gh)) if gh[n] != wh[n])
                if first and got_handlers[t][first - 1][9] == 'falsy':
                    mech += ':the-previous-handler-returned-a-falsy-error'
            ctx.violation(mech, fam, cls, element=t, expected_events=want, got_events=got, **wit)
            return
    # ---- each handler receives the error RETURNED by the previous one (class, code, message, data), whatever kind of object it is
    for t, hs in got_handlers.items():
        for n in range(1, len(hs)):
            if hs[n][7] != hs[n - 1][8]:
                mech = 'handler-did-not-receive-the-previous-handlers-error'
                if hs[n - 1][9] == 'falsy':
                    mech += ':the-previous-handler-returned-a-falsy-error'
                ctx.violation(mech, fam, cls, element=t, handler=[hs[n][1], hs[n][2]], received=hs[n][7], previous_handler_returned=hs[n - 1][8], **wit)
                return
    extra = [t for t in got_events if t not in want_events]
    if extra:
        ctx.violation('events-for-an-element-that-was-not-requested', fam, cls, **wit)
        return
    if serverside.normalise_calls(o.calls) != sorted(repr(model.normalise(c)) for c in want_exec):
        ctx.violation('method-executions-differ', fam, cls, expected_executions=want_exec, **wit)
        return
    # ---- the response sent is what the outermost middleware returned
    want_doc = (want_resps if want_resps else None) if isinstance(info.doc, list) else (want_resps[0] if want_resps else None)
    if want_doc is None:
        if o.raw is not None:
            ctx.violation('response-sent-although-chain-returned-nothing', fam, cls, expected=None, **wit)
            return
    else:
        if o.raw is None or o.doc is None:
            ctx.violation('nothing-sent-although-chain-returned-a-response', fam, cls, expected=model.render(want_doc), **wit)
            return
        r = model.match(want_doc, o.doc)
        if r:
            mech = 'response-sent-differs-from-chain-result'
            if any(hs[-1][9] == 'falsy' for hs in got_handlers.values()):
                mech += ':the-last-returned-error-is-a-falsy-object'
            elif 'F' in stack:
                mech += ':a-middleware-answered-with-a-falsy-error'
            ctx.violation(mech, fam, cls, expected=model.render(want_doc), difference=r, **wit)
            return
    ctx.ok(fam, cls, sample=wit)


def gen(ctx):
    deep = ctx.thorough
    full = True
    stacks = [[]]
    for n in (1, 2, 3) + ((4,) if deep else ()):
        stacks += [list(s) for s in itertools.product(MW_KINDS, repeat=n)]
    # the UNSET-returning kind: alone, and next to pass-through / response-rewriting middlewares at every depth
    stacks += [['U']] + [list(s) for n in (2, 3) for s in itertools.product(['P', 'R', 'U'], repeat=n) if s.count('U') == 1]
    stacks += [['E']] + [list(s) for n in (2, 3) for s in itertools.product(['P', 'R', 'E'], repeat=n) if s.count('E') == 1]
    k = 0
    names = list(DOCS)
    for stack in stacks:
        for table in TABLES:
            flavours = ['sync', 'async', 'async-suspending', 'async-sequential', 'async-awaitables']
            if len(stack) <= 2:
                flavours += ['sync-own-response-class', 'async-own-response-class', 'async-dict-context', 'sync-dict-context']
            if len(stack) <= 1 or (len(stack) == 2 and table in ('none', 'generic', 'both')):
                flavours += ['flask-endpoint', 'aiohttp-endpoint']
            if len(stack) <= 1 and (table in ('none', 'generic', 'per-code') or stack):
                flavours += ['aiohttp-http-mounted']
            for flavour in flavours:
                if full:
                    chosen = names
                else:
                    k += 1
                    chosen = [names[(k * 5 + i * 7) % len(names)] for i in range(4)] + ['batch-mixed', names[names.index('batch-one-ok') + k % 4]]
                for d in dict.fromkeys(chosen):
                    yield 'case', dict(stack=stack, table=table, doc_name=d, flavour=flavour)
    # ---- handlers returning errors with an unusual truth value (and the middleware that answers with one): every flavour,
    #      stacks of 0..1 (thorough: 0..2) middlewares plus the F kind at depths 0..2
    all_flavours = ['sync', 'async', 'async-suspending', 'async-sequential', 'async-awaitables', 'flask-endpoint', 'aiohttp-endpoint',
                    'flask-application', 'aiohttp-application', 'werkzeug-application']
    if deep:
        all_flavours += ['sync-own-response-class', 'async-own-response-class', 'async-dict-context', 'sync-dict-context']
    narrow = [[], ['P'], ['R'], ['S'], ['F'], ['P', 'F'], ['Q', 'R', 'F']]
    f_docs = ['call-ok', 'call-unknown', 'call-unbound', 'call-rpcerr', 'call-typed', 'call-exc', 'call-internal', 'notify-exc',
              'notify-rpcerr', 'batch-mixed', 'batch-one-failing', 'batch-three-notify', 'rejected-invalid']
    if deep:
        narrow += [['Q'], ['A'], ['R', 'F', 'P']] + [list(s_) for s_ in itertools.product(MW_KINDS, repeat=2)] + [['F', 'P'], ['R', 'P', 'F']]
        f_docs = names
    for stack in narrow:
        for table in FALSY_TABLES:
            for flavour in all_flavours + (['aiohttp-http-mounted', 'aiohttp-application-http'] if not stack else []):
                http = flavour.endswith('-http') or flavour.endswith('-http-mounted')
                if 'F' in stack and table not in FALSY_TABLES[:2]:
                    continue
                for d in f_docs:
                    if http and d not in ('call-rpcerr', 'call-unknown', 'batch-mixed', 'notify-exc', 'call-ok'):
                        continue
                    yield 'case', dict(stack=stack, table=table, doc_name=d, flavour=flavour)
    # ---- the middleware stack handed over as something else than a list (one-shot iterables first), at every entry point that
    #      takes the dispatcher's arguments; half of the cases with handler lists that are list subclasses
    c_stacks = [['P'], ['S'], ['Q', 'R'], ['R', 'P', 'S'], ['E']]
    c_tables = ['none', 'both']
    c_docs = ['call-ok', 'call-rpcerr', 'notify-exc', 'batch-mixed', 'rejected-invalid']
    if deep:
        c_stacks = [list(s_) for n in (1, 2) for s_ in itertools.product(MW_KINDS, repeat=n)] + [['R', 'P', 'S'], ['Q', 'P', 'R'], ['E'], ['U', 'P']]
        c_tables += ['two-per-key', 'replace-generic']
        c_docs += ['notify-ok', 'call-unknown', 'batch-one-ok', 'batch-three-notify', 'call-internal', 'rejected-dup-ids', 'call-exc']
    for container in MW_CONTAINERS:
        for flavour in CONTAINER_ENTRIES + CONTAINER_ENTRIES_HTTP:
            http = flavour in CONTAINER_ENTRIES_HTTP
            for stack in (c_stacks[:3] if http else c_stacks):
                for table in (['both'] if http else c_tables):
                    for d in (['call-ok', 'notify-exc', 'batch-mixed'] if http else c_docs):
                        k += 1
                        yield 'case', dict(stack=stack, table=table, doc_name=d, flavour=flavour, mw_container=container,
                                           eh_container=('list', 'list-subclass')[k % 2])
    ctx.exhaustive['middleware-stacks-0..3-over-4-kinds'] = True


KINDS = {'case': run_case}
