"""C16, served documents: the specification as an APPLICATION publishes it - a specification object handed to a web
integration (`Application(path, spec=...)` / `JsonRPC(path, spec=...)`), methods registered on its endpoint dispatchers,
the document fetched over HTTP from the route the integration adds. It must be the document `schema()` yields for those
endpoints and methods (judged against a fresh, equally configured specification object used directly)."""
from __future__ import annotations

import json

from pjrpc.server import specs

from .. import specworld, world
from ..strictjson import typed_eq

INTEGRATIONS = ('flask', 'aiohttp')


def _fetch_flask(base, spec, mobjs, prefixes):
    import flask

    from pjrpc.server.integration import flask as integ
    rpc = integ.JsonRPC(base, spec=spec)
    disp = {'': rpc.dispatcher}
    for p in prefixes:
        if p not in disp:
            disp[p] = rpc.add_endpoint(p)
    for m, p in zip(mobjs, prefixes):
        disp[p].add_methods(m)
    app = flask.Flask('vmon_c16_served')
    rpc.init_app(app)
    r = app.test_client().get(base.rstrip('/') + spec.path)
    return r.status_code, r.headers.get('Content-Type', ''), r.get_data()


def _fetch_aiohttp(base, spec, mobjs, prefixes):
    from aiohttp.test_utils import TestClient, TestServer

    from pjrpc.server.integration import aiohttp as integ

    async def go():
        rpc = integ.Application(base, spec=spec)
        disp = {'': rpc.dispatcher}
        for p in prefixes:
            if p not in disp:
                disp[p] = rpc.add_endpoint(p)
        for m, p in zip(mobjs, prefixes):
            disp[p].add_methods(m)
        client = TestClient(TestServer(rpc.app))
        await client.start_server()
        try:
            r = await client.get(base.rstrip('/') + spec.path)
            return r.status, r.headers.get('Content-Type', ''), await r.read()
        finally:
            await client.close()
    return world.run(go())


def run_served(ctx, kind, stack, methods, prefixes, integration, base, status_map):
    cls = ('served', kind, stack, json.dumps(methods, sort_keys=True), tuple(prefixes), integration, base, status_map)
    fam = f'served:{integration}:{kind}'
    wit = dict(kind=kind, extractors=stack, methods=methods, endpoint_prefixes=prefixes, integration=integration, base_path=base)
    shared = {'errors_list': [specworld.SpecErrA, specworld.SpecErrB], 'singular_extractor_kw': True, 'no_documented_base': True}
    try:
        mobjs, funcs = specworld.build_methods(methods, shared)
        spec = specworld.make_spec(kind, stack, shared, status_map)
        status, ctype, body = (_fetch_flask if integration == 'flask' else _fetch_aiohttp)(base, spec, mobjs, prefixes)
    except Exception as e:
        ctx.violation(f'serving-the-document-raises:{type(e).__name__}', fam, cls, exception=e, **wit)
        return
    ctx.hit(f'served:{integration}')
    ctx.hit(f'served:{kind}')
    if len(set(prefixes)) > 1:
        ctx.hit('served:several-endpoints')
    if status != 200:
        ctx.violation(f'served-document-status-{status}', fam, cls, body=body[:300], **wit)
        return
    if ctype.split(';')[0].strip().lower() != 'application/json':
        ctx.violation('served-document-not-labelled-json', fam, cls, content_type=ctype, **wit)
        return
    try:
        served = json.loads(body.decode('utf-8'))
    except Exception as e:
        ctx.violation('served-document-not-json', fam, cls, body=body[:300], **wit)
        return
    # the reference: a fresh specification object, configured the same way, used directly for the same endpoints / methods
    shared2 = dict(shared)
    ref_spec = specworld.make_spec(kind, stack, shared2, status_map)
    mm = {'': []}
    for m, p in zip(mobjs, prefixes):
        mm.setdefault(p, []).append(m)
    ref = json.loads(json.dumps(ref_spec.schema(path=base.rstrip('/'), methods_map=mm), cls=specs.JSONEncoder))
    if not typed_eq(served, ref):
        from .c16 import _first_diff
        ctx.violation('served-document-differs-from-schema()-for-the-same-endpoints', fam, cls, difference=_first_diff(served, ref), **wit)
        return
    ctx.ok(fam, cls, sample={'integration': integration, 'kind': kind, 'route': base.rstrip('/') + spec.path,
                              'methods': [m['name'] for m in methods], 'endpoints': sorted(set(prefixes))})
