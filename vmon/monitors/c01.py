"""C01 - every request text gets nothing or a well-formed JSON-RPC 2.0 response document + agreeing codes."""
from __future__ import annotations

from .. import serverside
from ..gen import docs

PID = 'C01'
LEVEL = 'exploration'
RULE = ('one case = one request text dispatched on one (dispatcher kind, max_batch_size) configuration; cases come '
        'from the member-alphabet product of request objects, batches over 15 element kinds (exhaustive up to the '
        'stated length, sampled above), prefixes / single-character edits of valid documents, fixed and random '
        'non-JSON texts, integer literals of 1..20000 digits, floats, containers nested 1..64 deep. A case is '
        'distinct by (generator family, dispatcher kind, max_batch_size, text); all are non-trivial (each is a '
        'different input to the real dispatcher). The oracle is the RFC 8259 recogniser in vmon/strictjson.py '
        'plus the structural response-document checker in vmon/models/wire.py.')
ASSUMPTIONS = [
    'probe methods return JSON-encodable values; no user middleware or error handler is installed (statement precondition)',
    'texts that only the lenient Python parser accepts (NaN, Infinity, floats overflowing to inf) are judged for totality only',
    'nesting deeper than 64 levels is outside the quantifier and not generated',
]
SHARDS = {'quick': 8, 'thorough': 16}
TIMEOUT = {'quick': 900, 'thorough': 3600}
ANCHORS = [
    ('pjrpc/server/dispatcher.py', 'Dispatcher.dispatch'),
    ('pjrpc/server/dispatcher.py', 'AsyncDispatcher.dispatch'),
    ('pjrpc/server/dispatcher.py', 'Dispatcher._handle_request'),
    ('pjrpc/server/dispatcher.py', 'AsyncDispatcher._handle_request'),
    ('pjrpc/server/dispatcher.py', 'extract_error_codes'),
    ('pjrpc/common/v20.py', 'Response.to_json'),
    ('pjrpc/common/v20.py', 'BatchResponse.to_json'),
    ('pjrpc/common/v20.py', 'BatchRequest.from_json'),
]
FLOORS = {'*': {
    'cfg:sync:None': 100, 'cfg:sync:0': 20, 'cfg:sync:1': 20, 'cfg:sync:3': 20,
    'cfg:async:None': 100, 'cfg:async:0': 20, 'cfg:async:1': 20, 'cfg:async:3': 20,
    'flavour:async-plain': 300, 'flavour:sync-inert': 300, 'flavour:async-inert': 300, 'flavour:sync-debuglog': 300, 'flavour:async-debuglog': 300, 'flavour:async-sequential': 300, 'flavour:sync-warnerr': 200, 'flavour:async-warnerr': 200, 'branch:none-return': 10, 'branch:-32700': 50, 'branch:-32600': 50, 'branch:batch-response': 50,
    'branch:single-response': 50, 'ambient:dispatch-wrapper': 20, 'ambient:extract_error_codes-ensure': 20, 'input:not-json': 50, 'input:batch': 50, 'input:bigint': 4, 'input:depth>=32': 4,
}}

CONFIGS = [(a, m) for a in (False, True) for m in (None, 0, 1, 3)]


def gen(ctx):
    rng = ctx.rng
    full = True          # quick walks what used to be the thorough corpus; thorough goes deeper (below)
    deep = ctx.thorough
    k = 0

    def configs_for(is_batch: bool):
        nonlocal k
        k += 1
        if full:
            return CONFIGS if is_batch else [(False, None), (True, None), CONFIGS[k % 8]]
        # quick: both dispatcher kinds, batch limit rotating
        m = (None, 0, 1, 3)[k % 4] if is_batch else None
        return [(False, m), (True, m)]

    def emit(family, text, is_batch=None):
        if is_batch is None:
            is_batch = text.lstrip().startswith('[')
        for is_async, mb in configs_for(is_batch):
            yield 'text', {'family': family, 'text': text, 'is_async': is_async, 'max_batch': mb}
        if k % 4 == 0:
            fl = serverside.TOTALITY_FLAVOURS[(k // 4) % len(serverside.TOTALITY_FLAVOURS)]
            yield 'text', {'family': family, 'text': text, 'is_async': fl.startswith('async'), 'max_batch': None, 'flavour': fl}

    yield 'ambient_suite', {}
    for fam, text in docs.object_product(rng, exhaustive=full, samples=2500):
        yield from emit(fam, text, False)
    for fam, text in docs.singles(rng, full):
        yield from emit(fam, text, False)
    for fam, text, n in docs.batches(rng, max_exhaustive_len=3, sampled=60000 if deep else 4000):
        yield from emit(fam, text, True)
    for fam, text in docs.nonjson(rng, per_doc=10 ** 6, random_texts=400000 if deep else 20000):
        yield from emit(fam, text)
    for fam, text in docs.numbers(full):
        yield from emit(fam, text)
    for fam, text in docs.nesting(range(1, 65) if full else (1, 2, 3, 8, 16, 31, 32, 33, 48, 63, 64)):
        yield from emit(fam, text)


def run_text(ctx, family, text, is_async, max_batch, flavour=None):
    info = serverside.TextInfo(text)
    w = serverside.world_for(flavour, max_batch) if flavour else serverside.get_world(is_async, max_batch)
    o = serverside.observe(w, text)
    kind = flavour or ('async' if is_async else 'sync')
    ctx.hit(f'cfg:{kind}:{max_batch}' if not flavour else f'flavour:{flavour}')
    ctx.hit('input:not-json' if not info.is_json else ('input:batch' if isinstance(info.doc, list) else 'input:object-or-scalar'))
    if info.bigint:
        ctx.hit('input:bigint')
    if info.depth >= 32:
        ctx.hit('input:depth>=32')
    cls = (kind, max_batch, text)
    problem = serverside.wellformed_problem(o)
    if o.status == 'ret':
        if o.raw is None:
            ctx.hit('branch:none-return')
        elif o.doc is not None:
            ctx.hit('branch:batch-response' if isinstance(o.doc, list) else 'branch:single-response')
            for c in (o.codes or ()):
                if c in (-32700, -32600, -32601, -32602, -32000):
                    ctx.hit(f'branch:{c}')
    if o.ctor_failed:
        # the probe could not raise the error it was asked for (judged by C03 / C05); the response is still judged
        ctx.hit('probe:ctor-failed')
    if problem is None:
        ctx.ok(family, cls, sample={'text': text, 'dispatcher': kind, 'max_batch_size': max_batch,
                                    'returned': o.raw if o.raw is None else [o.text, list(o.codes)]})
        return
    if info.gap and not problem.startswith('dispatch-raises'):
        ctx.unjudge('lenient-parser-gap:' + problem)
        return
    mech = problem
    if problem.startswith('dispatch-raises'):
        mech += ':' + info.features
    elif problem == 'malformed-response:empty-array':
        mech += ':all-notification-batch' if _all_notifications(info.doc) else ''
    ctx.violation(mech, family, cls, text=text, dispatcher=kind, max_batch_size=max_batch,
                  returned=o.raw, exception=o.exc, text_features=info.features)


def run_ambient_suite(ctx):
    """the repository's own test-suite as an extra workload, watched by the ambient contracts (vmon/ambient.py)"""
    import json as _json
    import os
    import subprocess
    import tempfile
    from ..core import REPO, VERIF
    fd, path = tempfile.mkstemp(suffix='.json', dir='/var/tmp')
    os.close(fd)
    env = dict(os.environ, VMON_AMBIENT_REPORT=path, PYTHONPATH=os.pathsep.join([REPO, VERIF]), PYTHONDONTWRITEBYTECODE='1')
    env.pop('PJRPC_VERIF', None)
    try:
        r = subprocess.run([os.environ.get('VERIF_PY', '/venv/bin/python'), '-m', 'pytest', '-q', '-p', 'no:cacheprovider', '-p',
                            'vmon.pytest_ambient', '--timeout=900'], cwd=REPO, env=env, capture_output=True, text=True, timeout=1200)
        rep = _json.load(open(path))
    except Exception as e:
        ctx.note('ambient_suite_failure', repr(e))
        return
    finally:
        try:
            os.unlink(path)
        except OSError:
            pass
    ctx.note('ambient_suite', {'evaluations': rep['evaluations'], 'installed': rep['installed'], 'pytest_tail': r.stdout.strip().splitlines()[-1:]})
    for name, n in rep['evaluations'].items():
        ctx.hit('ambient:' + name, n)
    for v in rep['violations']:
        ctx.violation(f"ambient:{v['contract']}:{v.get('what', '')[:60]}", 'ambient-suite', (v['contract'], v.get('what')), **v)
    if not rep['violations']:
        ctx.ok('ambient-suite', ('ambient-suite',), sample={'workload': 'tests/ of the repository under vmon.pytest_ambient', 'evaluations': rep['evaluations']})


def _all_notifications(doc):
    return isinstance(doc, list) and bool(doc) and all(isinstance(e, dict) and e.get('id') is None for e in doc)


KINDS = {'text': run_text, 'ambient_suite': run_ambient_suite}
