"""C15 - methods are reachable under exactly their registered names, private ones never."""
from __future__ import annotations

import enum
import itertools
import json

import pjrpc
import pjrpc.server

from .. import strictjson, world

PID = 'C15'
LEVEL = 'exploration'
RULE = ('one case = one registration history (add, add with an explicit name, add_methods with a function or a pre-built '
        'Method, class-based view with / without view prefix, merge of one registry into another, attach to the dispatcher, '
        'dispatcher.add / dispatcher.view) over three registries with prefixes None, "a", "a.b" and a sync or async dispatcher; '
        'histories of <= 3 operations are enumerated over a reduced alphabet, longer ones (<= 6, incl. three-level merges) '
        'sampled. After the history the dispatcher is probed by real requests with every name of the name model, every name '
        'one edit away (dropped / added / replaced character, dropped or added dot segment) and every private / dunder / '
        'non-callable member name under every prefix in play; each probe function returns its own token, so "which target '
        'does this name reach" is observed directly. The registry key set is compared as well. Two further dimensions are '
        'sampled and crafted on top: (1) WHAT is registered - besides plain functions, callable objects (with or without a '
        '__name__ of their own) whose truth value is false at registration time (__len__ -> 0, __bool__ -> False; a truthy '
        'callable object as control) and view classes whose metaclass gives the CLASS a false truth value, through every '
        'entry point (registry.add bare / decorator form / name=, add_methods, view bare / decorator form, dispatcher.add / '
        'add_methods / view); (2) HOW the parts are spelled - explicit names, registry prefixes (alternative prefix triples) '
        'and view prefixes that start or end with the separator or contain it doubled (".hidden", "trailing.", "a..b", '
        'prefix "v."), at every nesting level: the reachable name is the verbatim dot-join of the given non-empty parts. '
        'Distinct = distinct (history, dispatcher kind, prefix triple).')
ASSUMPTIONS = [
    'add_methods(Method(...)) on a registry that has a prefix: a pre-built Method carries its full name already; not judged',
    'nested classes as view members are not generated (calling them returns a non-JSON value)',
    'empty-string names and prefixes are not generated (whether "" is a part to be joined or "no part" is left open by the statement)',
    'callable objects are hashable ones (an unhashable callable, e.g. an empty list subclass with __call__, registers but cannot be '
    'called: the validator caches signatures by callable; reported, not generated)',
]
SHARDS = {'quick': 4, 'thorough': 16}
TIMEOUT = {'quick': 900, 'thorough': 3600}
ANCHORS = [
    ('pjrpc/server/dispatcher.py', 'MethodRegistry.add'), ('pjrpc/server/dispatcher.py', 'MethodRegistry.add_methods'),
    ('pjrpc/server/dispatcher.py', 'MethodRegistry.view'), ('pjrpc/server/dispatcher.py', 'MethodRegistry.merge'),
    ('pjrpc/server/dispatcher.py', 'MethodRegistry._add_method'), ('pjrpc/server/dispatcher.py', 'ViewMixin.__methods__'),
    ('pjrpc/server/dispatcher.py', 'BaseDispatcher.add'), ('pjrpc/server/dispatcher.py', 'BaseDispatcher.add_methods'),
    ('pjrpc/server/dispatcher.py', 'BaseDispatcher.view'), ('pjrpc/server/dispatcher.py', 'ViewMethod.copy'),
    ('pjrpc/server/dispatcher.py', 'Method.copy'),
]
FLOORS = {'*': {'op:add': 300, 'op:add_named': 200, 'op:add_methods_fn': 100, 'op:add_methods_method': 50, 'op:view': 300,
                'op:merge': 300, 'op:attach': 500, 'op:dadd': 100, 'op:dview': 50, 'three-level-merge': 20,
                're-registration': 100, 'probe:registered-name': 2000, 'probe:near-miss': 5000, 'probe:private-member': 1000,
                'dispatcher:sync': 300, 'dispatcher:async': 300, 'view:static-member': 100, 'view:inherited-member': 100,
                'same-prefix-merge': 20, 'view:derived-view': 50, 'probe:underscore-name': 100, 'name-given-as-str-subclass-object': 100,
                'view:constructor-raises-KeyError': 50, 'op:add_deco_multi': 100,
                'registered:falsy-callable-object': 400, 'registered:truthy-callable-object': 60, 'registered:falsy-view-class': 150,
                'falsy-registration:registry.add': 120, 'falsy-registration:registry.add(name=)': 150, 'falsy-registration:add_methods': 60,
                'falsy-registration:registry.view': 150, 'falsy-registration:dispatcher.add': 50, 'falsy-registration:dispatcher.view': 20,
                'falsy-registration:dispatcher.add_methods': 20,
                'separator-at-edge:explicit-name': 300, 'separator-at-edge:registry-prefix': 800, 'separator-at-edge:view-prefix': 120,
                'separator-at-edge:carried-through-merge': 120, 'separator-at-edge:dispatcher.add': 60, 'prefix-triple:alternative': 400}}

PREFIXES = [None, 'a', 'a.b']
# fn 0 and fn 2 collide on purpose; an own name may start with '_'. 4.. are callable OBJECTS (see make_objs): 4 and 5 have a false
# truth value (5 collides with fn 1 by name), 6 is a truthy callable object, 7 is falsy and has no __name__ (explicit names only)
FN_NAMES = ['alpha', 'beta', 'alpha', '_gamma', 'sig', 'beta', 'obj', None]
N_PLAIN = 4
FALSY_FNS = (4, 5, 7)
FALSY_VIEWS = (4, 5)
# alternative prefix triples: the separator at the edge of a prefix or doubled inside it (a part is joined verbatim)
PREFIX_SETS = [[None, 'a', 'a.b'], [None, 'a.', 'a..b'], ['.p', 'a', 'b.'], ['v.', None, '.a.b'], ['a', 'a.', '.a']]
SEP_NAMES = ['.hidden', 'trailing.', 'a..b', '.x.', '..z', 'ns..', 'v.']
SEP_VIEW_PREFIXES = ['v.', '.v', 'v..w', 'a.']
EXPLICIT = ['alpha', 'x.y', 'a', '_x', 'ns._y']


class Names(str, enum.Enum):
    """explicit names kept in a str-mixin enumeration: as a string such a member IS its value"""
    PING = 'ping'
    STATUS = 'sys.status'


class StrSub(str):
    """a str subclass whose textual renderings are not its value"""

    def __str__(self):
        return 'rendered-by-__str__'

    def __repr__(self):
        return 'rendered-by-__repr__'

    def __format__(self, spec):
        return 'rendered-by-__format__'


NAME_OBJECTS = {'enum:ping': Names.PING, 'enum:status': Names.STATUS, 'strsub:sub.name': StrSub('sub.name')}


def name_of(nm):
    """(object handed to the library, the name it stands for)"""
    if isinstance(nm, str) and nm in NAME_OBJECTS:
        obj = NAME_OBJECTS[nm]
        return obj, str.__str__(obj) if not isinstance(obj, enum.Enum) else obj.value
    return nm, nm


def make_fn(token, name, is_async, wrapped=False):
    if is_async:
        async def fn():
            return token
    else:
        def fn():
            return token
    fn.__name__ = name
    fn.__qualname__ = name
    if wrapped:
        # an alias: a functools.wraps wrapper around an implementation function, given its own name afterwards (what a
        # decorator factory producing get_v1 / get_v2 from one implementation does). Its name is ITS __name__.
        import functools
        fn.__name__ = fn.__qualname__ = 'impl'

        @functools.wraps(fn)
        def alias(*a, **k):
            return fn(*a, **k)
        alias.__name__ = alias.__qualname__ = name
        return alias
    return fn


class EmptySignal:
    """a callable hook list (event signal, pipeline) without receivers: len() is 0, so its truth value is False"""

    def __init__(self, token, name=None, receivers=0):
        self.token = token
        self.receivers = receivers
        if name is not None:
            self.__name__ = self.__qualname__ = name

    def __len__(self):
        return self.receivers

    def __call__(self):
        return self.token


class OffSwitch:
    """a callable feature toggle that is switched off: __bool__ says False"""

    def __init__(self, token, name):
        self.token = token
        self.__name__ = self.__qualname__ = name

    def __bool__(self):
        return False

    def __call__(self):
        return self.token


# REPORTED: an UNHASHABLE callable (class Pipe(list) with __call__, or any class defining __eq__ without __hash__) registers under
# its name but every call answers -32603: validators.base.BaseValidator.signature is an lru_cache keyed by the callable. Left out.
def make_objs():
    return [EmptySignal('fn4', 'sig'), OffSwitch('fn5', 'beta'), EmptySignal('fn6', 'obj', receivers=1), EmptySignal('fn7')]


class CountedMeta(type):
    """views that keep track of their live instances: len(View) is their number - 0 when the view is registered"""

    def __len__(cls):
        return len(cls.__dict__.get('instances', ()))


class DisabledMeta(type):
    """classes that report False while a feature flag is off"""

    def __bool__(cls):
        return False


def sep_odd(name):
    return isinstance(name, str) and (name.startswith('.') or name.endswith('.') or '..' in name)


def make_views(is_async):
    class Base(pjrpc.server.ViewMixin):
        def inherited(self):
            return 'view:inherited'

    class Mix0:
        # plain helper classes AFTER ViewMixin in the MRO: their public callables belong to the view like any inherited one
        def mixed(self):
            return 'mix0:mixed'

        def _mixpriv(self):
            return 'mix0:_mixpriv'

    class Mix1:
        def helper(self):
            return 'mix1:helper'

        @staticmethod
        def shelper():
            return 'mix1:shelper'

        helper_data = 7

    class V0(Base, Mix0):
        data = 5
        names = ['x']

        def pm(self):
            return 'V0.pm'

        def alpha(self):
            return 'V0.alpha'

        @staticmethod
        def st():
            return 'V0.st'

        @classmethod
        def cm(cls):
            return 'V0.cm'

        def _priv(self):
            return 'V0._priv'

        # a trailing underscore (the customary way around keywords / builtins) is part of the name
        def list_(self):
            return 'V0.list_'

        def import_(self):
            return 'V0.import_'

        def __dd__(self):
            return 'V0.__dd__'

    class V1(pjrpc.server.ViewMixin, Mix1):
        def pm(self):
            return type(self).__name__ + '.pm'

        def _hidden(self):
            return 'V1._hidden'

        # public methods named like words of the library's own vocabulary are public methods
        def context(self):
            return type(self).__name__ + '.context'

        def method(self):
            return type(self).__name__ + '.method'

    if is_async:
        async def apm(self):
            return type(self).__name__ + '.pm'
        apm.__name__ = 'pm'
        V1.pm = apm

    class V2(V1):
        # a derived view registered later under the same names: it replaces the base view also for what it inherits unchanged
        def helper(self):
            return 'V2.helper'

        # a public name that is a plain attribute in a base (Mix1.helper_data = 7) and a method here: it is a public callable
        # of THIS view
        def helper_data(self):
            return 'V2.helper_data'

    class V3(pjrpc.server.ViewMixin):
        # a registered view that cannot be built for this request (a key the context lacks): the name IS registered, so the
        # answer is anything but "method not found"
        def __init__(self):
            super().__init__()
            raise KeyError('db')

        def km(self):
            return 'V3.km'

    class V4(pjrpc.server.ViewMixin, metaclass=CountedMeta):
        instances = ()

        def status(self):
            return 'V4.status'

        @staticmethod
        def count():
            return 'V4.count'

        def _secret(self):
            return 'V4._secret'

    class V5(pjrpc.server.ViewMixin, metaclass=DisabledMeta):
        # collides with the other views on `pm`: a re-registration through a class that is false
        def pm(self):
            return 'V5.pm'

        def toggle(self):
            return 'V5.toggle'
    return [V0, V1, V2, V3, V4, V5]


VIEW_PUBLIC = [{'pm': 'V0.pm', 'alpha': 'V0.alpha', 'st': 'V0.st', 'cm': 'V0.cm', 'inherited': 'view:inherited', 'mixed': 'mix0:mixed',
                'list_': 'V0.list_', 'import_': 'V0.import_'},
               {'pm': 'V1.pm', 'helper': 'mix1:helper', 'shelper': 'mix1:shelper', 'context': 'V1.context', 'method': 'V1.method'},
               {'pm': 'V2.pm', 'helper': 'V2.helper', 'shelper': 'mix1:shelper', 'helper_data': 'V2.helper_data', 'context': 'V2.context',
                'method': 'V2.method'},
               {'km': 'registered-but-fails:-32603'},
               {'status': 'V4.status', 'count': 'V4.count'},
               {'pm': 'V5.pm', 'toggle': 'V5.toggle'}]
FALSY_TOKENS = {f'fn{i}' for i in FALSY_FNS} | {t for v in FALSY_VIEWS for t in VIEW_PUBLIC[v].values()}
VIEW_PRIVATE_FALSY = ['_secret', 'instances']         # members of the views whose class is false
VIEW_PRIVATE = ['_priv', '__dd__', 'data', 'names', '_hidden', '_mixpriv', 'helper_data', '__init__', '__methods__', '__class__', '__dict__', '__doc__']


def join(*parts):
    return '.'.join(p for p in parts if p)


def run_history(ctx, ops, is_async, prefixes=None):
    PREFIXES = prefixes if prefixes is not None else PREFIX_SETS[0]
    cls = (json.dumps(ops), is_async) if prefixes is None else (json.dumps(ops), is_async, json.dumps(prefixes))
    dk = 'async' if is_async else 'sync'
    ctx.hit('dispatcher:' + dk)
    if prefixes is not None and prefixes != PREFIX_SETS[0]:
        ctx.hit('prefix-triple:alternative')
    fns = [make_fn(f'fn{i}', FN_NAMES[i], is_async and i != 1, wrapped=(i in (1, 3))) for i in range(N_PLAIN)] + make_objs()
    views = make_views(is_async)
    regs = [pjrpc.server.MethodRegistry(prefix=p) for p in PREFIXES]
    carries_sep = [False, False, False]     # the registry holds a name with the separator at the edge of one of its parts
    disp = (pjrpc.server.AsyncDispatcher if is_async else pjrpc.server.Dispatcher)()
    model = [dict() for _ in PREFIXES]     # name -> token
    dmodel = {}
    prefixes_in_play = {''}
    depth = [0, 0, 0]                      # merge nesting depth reached by each registry's content
    rereg = False
    unjudged = False

    def put(m, name, token):
        nonlocal rereg
        if name in m and m[name] != token:
            rereg = True
        m.pop(name, None)
        m[name] = token

    def what(f, entry):
        # reach counters of the "what is registered" dimension
        if f in FALSY_FNS:
            ctx.hit('registered:falsy-callable-object')
            ctx.hit('falsy-registration:' + entry)
        elif f >= N_PLAIN:
            ctx.hit('registered:truthy-callable-object')

    def spelled(r, nm=None, vp=None):
        # reach counters of the "how the parts are spelled" dimension
        if sep_odd(nm):
            ctx.hit('separator-at-edge:explicit-name')
        if sep_odd(vp):
            ctx.hit('separator-at-edge:view-prefix')
        if r is not None and sep_odd(PREFIXES[r]):
            ctx.hit('separator-at-edge:registry-prefix')
        if r is not None and (sep_odd(nm) or sep_odd(vp) or sep_odd(PREFIXES[r])):
            carries_sep[r] = True

    wit = dict(history=ops, dispatcher=dk, prefixes=PREFIXES)
    for step, op in enumerate(ops):
        name = op[0]
        ctx.hit('op:' + name)
        try:
            if name == 'add':
                _, r, f = op
                if step % 2:
                    regs[r].add()(fns[f])            # the `@registry.add()` decorator-factory form
                else:
                    regs[r].add(fns[f])              # the bare `@registry.add` form
                put(model[r], join(PREFIXES[r], FN_NAMES[f]), f'fn{f}')
                what(f, 'registry.add')
                spelled(r)
            elif name == 'add_named':
                _, r, f, nm = op
                nm_obj, nm = name_of(nm)
                if nm_obj is not nm:
                    ctx.hit('name-given-as-str-subclass-object')
                if step % 2:
                    regs[r].add(name=nm_obj)(fns[f])     # `@registry.add(name=...)`
                else:
                    regs[r].add(fns[f], nm_obj)
                put(model[r], join(PREFIXES[r], nm), f'fn{f}')
                what(f, 'registry.add(name=)')
                spelled(r, nm=nm)
            elif name == 'add_deco_multi':
                # ONE decorator object obtained from registry.add(...) applied to several functions
                _, r, fs = op
                deco = regs[r].add()
                for f in fs:
                    deco(fns[f])
                    put(model[r], join(PREFIXES[r], FN_NAMES[f]), f'fn{f}')
                    what(f, 'registry.add')
                spelled(r)
            elif name == 'add_methods_fn':
                _, r, f = op
                regs[r].add_methods(fns[f])
                put(model[r], join(PREFIXES[r], FN_NAMES[f]), f'fn{f}')
                what(f, 'add_methods')
                spelled(r)
            elif name == 'add_methods_method':
                _, r, f, nm = op
                regs[r].add_methods(pjrpc.server.Method(fns[f], nm))
                if PREFIXES[r]:
                    unjudged = True
                    break
                put(model[r], nm, f'fn{f}')
            elif name == 'view':
                _, r, v, vp = op
                if step % 2:
                    regs[r].view(prefix=vp)(views[v])    # `@registry.view(prefix=...)`
                else:
                    regs[r].view(views[v], prefix=vp)
                for m, token in VIEW_PUBLIC[v].items():
                    put(model[r], join(PREFIXES[r], vp, m), token)
                prefixes_in_play.add(join(PREFIXES[r], vp))
                spelled(r, vp=vp)
                if v in FALSY_VIEWS:
                    ctx.hit('registered:falsy-view-class')
                    ctx.hit('falsy-registration:registry.view')
                if v == 0:
                    ctx.hit('view:static-member')
                    ctx.hit('view:inherited-member')
                if v == 2:
                    ctx.hit('view:derived-view')
                if v == 3:
                    ctx.hit('view:constructor-raises-KeyError')
            elif name == 'merge':
                _, t, s = op
                regs[t].merge(regs[s])
                for nm, token in list(model[s].items()):
                    put(model[t], join(PREFIXES[t], nm), token)
                for pfx in list(prefixes_in_play):
                    prefixes_in_play.add(join(PREFIXES[t], pfx))
                depth[t] = max(depth[t], depth[s] + 1)
                if carries_sep[s] and model[s]:
                    ctx.hit('separator-at-edge:carried-through-merge')
                    carries_sep[t] = True
                spelled(t)
                if PREFIXES[t] and PREFIXES[s] and PREFIXES[s].startswith(PREFIXES[t]):
                    ctx.hit('same-prefix-merge')
            elif name == 'attach':
                _, r = op
                disp.add_methods(regs[r])
                for nm, token in model[r].items():
                    put(dmodel, nm, token)
                if depth[r] >= 2:
                    ctx.hit('three-level-merge')
                if carries_sep[r] and model[r]:
                    ctx.hit('separator-at-edge:carried-through-merge')
            elif name == 'dadd':
                _, f, nm = op
                disp.add(fns[f], nm)
                put(dmodel, nm or FN_NAMES[f], f'fn{f}')
                what(f, 'dispatcher.add')
                if sep_odd(nm):
                    ctx.hit('separator-at-edge:explicit-name')
                    ctx.hit('separator-at-edge:dispatcher.add')
            elif name == 'dadd_methods':
                # dispatcher.add_methods with a bare callable (registered under its own name)
                _, f = op
                disp.add_methods(fns[f])
                put(dmodel, FN_NAMES[f], f'fn{f}')
                what(f, 'dispatcher.add_methods')
            elif name == 'dview':
                _, v = op
                disp.view(views[v])
                for m, token in VIEW_PUBLIC[v].items():
                    put(dmodel, m, token)
                if v in FALSY_VIEWS:
                    ctx.hit('registered:falsy-view-class')
                    ctx.hit('falsy-registration:dispatcher.view')
            else:
                raise KeyError(name)
        except Exception as e:
            ctx.violation(f'{name}-raises:{type(e).__name__}', 'registration', cls, step=step, exception=e, **wit)
            return
    if unjudged:
        ctx.unjudge('add_methods(Method)-under-a-prefix')
        return
    if rereg:
        ctx.hit('re-registration')
    for r in range(3):
        prefixes_in_play.add(PREFIXES[r] or '')
        prefixes_in_play.add((PREFIXES[r] or '').strip('.'))
    # ---- registry key set
    def klass(names):
        # which class of the what / how dimensions the names in question belong to (part of the mechanism key)
        out = ''
        if any(dmodel.get(n) in FALSY_TOKENS for n in names):
            out += ':registered-object-or-view-class-with-a-false-truth-value'
        if any(sep_odd(n) for n in names):
            out += ':separator-at-an-edge-of-or-doubled-in-the-name'
        return out

    keys = set(disp.registry.keys())
    if keys != set(dmodel):
        missing = set(dmodel) - keys
        ctx.violation('registry-key-set-differs:' + ('missing' + klass(missing) if missing else 'unexpected'), 'keys', cls,
                      expected=sorted(dmodel), got=sorted(keys), **wit)
        return
    # ---- probes
    falsy_view_in_play = any(o[0] in ('view', 'dview') and o[2 if o[0] == 'view' else 1] in FALSY_VIEWS for o in ops)
    valid = set(dmodel)
    near = set()
    for n in valid:
        near.update({n[:-1], n + 'x', 'x' + n, n[1:], n + '.', '.' + n, n.upper(), n.replace('.', '', 1), n.replace('.', '..', 1)})
        near.update({n.strip('.'), n.lstrip('.'), n.rstrip('.'), n.replace('..', '.'), '.'.join(x for x in n.split('.') if x)})
        near.update({n + ' ', ' ' + n, n + '\n', '\t' + n, n + '\u00a0', n.replace('.', ' . ', 1), n.replace('.', '. ', 1)})     # white space is part of a name
        segs = n.split('.')
        for i in range(len(segs)):
            near.add('.'.join(segs[:i] + segs[i + 1:]))
            near.add('.'.join(segs[:i] + ['zz'] + segs[i:]))
        near.add('.'.join(segs[:-1]))
        for p in ('a', 'a.b', 'v', 'a.a', 'a.b.a'):
            near.add(p + '.' + n)
    private = set()
    for pfx in prefixes_in_play:
        for m in VIEW_PRIVATE + (VIEW_PRIVATE_FALSY if falsy_view_in_play else []):
            private.add(join(pfx, m))
    for bare in FN_NAMES[:N_PLAIN] + ['pm', 'st', 'inherited'] + EXPLICIT + (['status', 'toggle'] if falsy_view_in_play else []) + \
            ([x for x in FN_NAMES[N_PLAIN:] if x] if any(t in FALSY_TOKENS or t == 'fn6' for t in dmodel.values()) else []):
        for pfx in prefixes_in_play:
            near.add(join(pfx, bare))
    near = {n for n in near if n and n not in valid} | {''}      # the empty string is a name like any other that nobody registered
    private = {n for n in private if n not in valid}

    def ask(method):
        text = json.dumps({'jsonrpc': '2.0', 'id': 1, 'method': method})
        out = world.run(disp.dispatch(text)) if is_async else disp.dispatch(text)
        return strictjson.decode(out[0])

    for n in sorted(valid):
        ctx.hit('probe:registered-name')
        if n.rsplit('.', 1)[-1].startswith('_'):
            ctx.hit('probe:underscore-name')
        try:
            doc = ask(n)
        except Exception as e:
            ctx.violation(f'dispatch-raises:{type(e).__name__}', 'probe', cls, method=n, exception=e, **wit)
            return
        if isinstance(dmodel[n], str) and dmodel[n].startswith('registered-but-fails:'):
            code = doc.get('error', {}).get('code')
            if code != -32603:
                ctx.violation('registered-name-not-reachable' if code == -32601 else 'failing-view-answered-unexpectedly', 'probe', cls,
                              method=n, expected_code=-32603, got=doc, **wit)
                return
            continue
        if doc.get('result') != dmodel[n]:
            got = doc.get('result', doc.get('error', {}).get('code'))
            mech = ('registered-name-not-reachable' if 'error' in doc else 'name-reaches-another-target') + klass([n])
            ctx.violation(mech, 'probe', cls, method=n, expected_target=dmodel[n], got=got, **wit)
            return
    for group, names in (('near-miss', near), ('private-member', private)):
        for n in sorted(names):
            ctx.hit('probe:' + group)
            try:
                doc = ask(n)
            except Exception as e:
                ctx.violation(f'dispatch-raises:{type(e).__name__}', 'probe', cls, method=n, exception=e, **wit)
                return
            if 'error' not in doc or doc['error'].get('code') != -32601:
                ctx.violation(f'unregistered-name-reaches-a-target:{group}', 'probe', cls, method=n, response=doc, **wit)
                return
    ctx.ok(f'history:{dk}:len{min(len(ops), 6)}', cls, sample={'history': ops, 'dispatcher': dk, 'reachable': dmodel,
                                                                'prefixes': PREFIXES, 'probed_unregistered': len(near) + len(private)})


def alphabet(reduced):
    ops = []
    R = [0, 1] if reduced else [0, 1, 2]
    for r in R:
        for f in ((0, 2) if reduced else (0, 1, 2)):
            ops.append(['add', r, f])
        ops.append(['add_named', r, 1, 'x.y'])
        ops.append(['add', r, 3])
        ops.append(['add_deco_multi', r, [1, 3, 0]])
        ops.append(['view', r, 2, 'v'])
        ops.append(['view', r, 3, 'k'])
        if not reduced:
            ops.append(['add_named', r, 1, '_x'])
            ops.append(['add_named', r, 0, 'ns._y'])
            ops.append(['add_named', r, 1, 'enum:ping'])
            ops.append(['add_named', r, 2, 'enum:status'])
            ops.append(['add_named', r, 0, 'strsub:sub.name'])
            ops.append(['add_named', r, 0, 'alpha'])
            ops.append(['add_named', r, 2, 'a'])
            ops.append(['add_methods_fn', r, 1])
        ops.append(['view', r, 0, None])
        ops.append(['view', r, 1, 'v'])
        if not reduced:
            ops.append(['view', r, 0, 'v'])
        ops.append(['attach', r])
    ops.append(['add_methods_method', 0, 1, 'm.n'])
    if not reduced:
        ops.append(['add_methods_method', 1, 1, 'm.n'])
    for t in R:
        for s in R:
            if t != s:
                ops.append(['merge', t, s])
    ops += [['dadd', 0, None], ['dadd', 2, 'beta'], ['dview', 0], ['dadd', 3, None]]
    if not reduced:
        ops += [['dadd', 1, 'x.y'], ['dview', 1], ['dview', 2], ['dadd', 1, '_z']]
    return ops


def alphabet_wide():
    """operations of the two added dimensions: WHAT is registered (callable objects / view classes with a false truth value, a
    truthy callable object as control) and HOW the parts are spelled (separator at the edge of / doubled inside a name part)"""
    ops = []
    for r in (0, 1, 2):
        ops += [['add', r, 4], ['add', r, 5], ['add', r, 6], ['add_named', r, 4, 'emit'], ['add_named', r, 7, 'emit'],
                ['add_named', r, 5, 'x.y'], ['add_named', r, 6, 'emit'], ['add_methods_fn', r, 4], ['add_methods_fn', r, 5],
                ['add_deco_multi', r, [4, 0, 5]], ['view', r, 4, 'v'], ['view', r, 4, None], ['view', r, 5, 'v'], ['view', r, 5, None]]
        for i, nm in enumerate(SEP_NAMES):
            ops.append(['add_named', r, (0, 1, 2, 7)[(i + r) % 4], nm])
        for i, vp in enumerate(SEP_VIEW_PREFIXES):
            ops.append(['view', r, (1, 0, 4, 2)[(i + r) % 4], vp])
    ops += [['dadd', 4, None], ['dadd', 5, None], ['dadd', 7, 'emit'], ['dadd', 4, 'x.y'], ['dadd', 6, None], ['dadd_methods', 4],
            ['dadd_methods', 5], ['dadd_methods', 0], ['dview', 4], ['dview', 5], ['dadd', 5, '.hidden']]
    ops += [['dadd', i % 3, nm] for i, nm in enumerate(SEP_NAMES[:5])]
    return ops


def gen(ctx):
    rng = ctx.rng
    full = ctx.thorough
    red = alphabet(True)
    allops = alphabet(False)
    k = 0

    def emit(ops, prefixes=None):
        nonlocal k
        k += 1
        if not any(o[0] in ('attach', 'dadd', 'dview', 'dadd_methods') for o in ops):
            ops = ops + [['attach', 0]]
        extra = {} if prefixes is None or prefixes == PREFIX_SETS[0] else {'prefixes': prefixes}
        if full:
            yield 'history', dict(ops=ops, is_async=False, **extra)
            yield 'history', dict(ops=ops, is_async=True, **extra)
        else:
            yield 'history', dict(ops=ops, is_async=bool(k % 2), **extra)

    for n in (1, 2, 3):
        for seq in itertools.product(range(len(red)), repeat=n):
            if n == 3 and not full and (seq[0] * 37 + seq[1] * 11 + seq[2]) % 4:
                continue
            yield from emit([red[i] for i in seq])
    for _ in range(150000 if full else 4000):
        n = rng.randint(4, 6)
        yield from emit([rng.choice(allops) for _ in range(n)])
    # crafted: three-level merges, same-prefix merges, re-registration through every path
    for fa, fb in ((0, 2), (2, 0)):
        yield from emit([['add', 2, fa], ['merge', 1, 2], ['merge', 0, 1], ['attach', 0]])
        yield from emit([['view', 2, 0, 'v'], ['merge', 1, 2], ['merge', 0, 1], ['attach', 0], ['dadd', fb, None]])
        yield from emit([['add', 1, fa], ['add', 2, fb], ['merge', 1, 2], ['attach', 1]])
        yield from emit([['add', 0, fa], ['add', 0, fb], ['attach', 0]])
        yield from emit([['add', 0, fa], ['attach', 0], ['dadd', fb, None]])
        yield from emit([['dadd', fa, None], ['add', 0, fb], ['attach', 0]])
        yield from emit([['view', 0, 0, None], ['add', 0, fa], ['attach', 0]])
        yield from emit([['add', 0, fa], ['view', 0, 0, None], ['attach', 0]])
        yield from emit([['view', 1, 0, 'v'], ['view', 1, 1, 'v'], ['attach', 1]])
        yield from emit([['add', 1, fa], ['merge', 2, 1], ['merge', 1, 2], ['attach', 1]])
        yield from emit([['add_named', 1, fa, 'a'], ['add_named', 2, fb, 'a'], ['merge', 1, 2], ['merge', 0, 1], ['attach', 0]])
    yield from gen_wide(ctx, emit)



def gen_wide(ctx, emit):
    """the two added dimensions: sampled histories mixing the wide alphabet with the ordinary one under every prefix triple, and
    crafted ones that take each class through every registration entry point and nesting level"""
    rng = ctx.rng
    wide = alphabet_wide()
    allops = alphabet(False)
    for _ in range(ctx.pick(1000, 40000)):
        n = rng.randint(3, 6)
        ops = [rng.choice(wide) if rng.random() < 0.55 else rng.choice(allops) for _ in range(n)]
        yield from emit(ops, rng.choice(PREFIX_SETS))
    crafted = [
        # false truth value at registration time; the direct forms sit at even steps, the decorator forms at odd ones
        [['add_named', 1, 7, 'emit'], ['add', 1, 0], ['view', 1, 4, 'v'], ['add', 2, 1], ['add', 1, 5], ['attach', 1]],
        [['add_methods_fn', 2, 4], ['merge', 1, 2], ['merge', 0, 1], ['attach', 0]],
        [['dadd', 7, 'emit'], ['dadd', 4, None], ['dview', 4], ['dview', 5], ['dadd_methods', 5]],
        [['view', 2, 5, None], ['add', 2, 0], ['add_named', 2, 5, 'x.y'], ['merge', 0, 2], ['attach', 0]],
        [['add', 0, 0], ['add_named', 1, 4, 'emit'], ['add', 0, 2], ['view', 1, 5, 'v'], ['attach', 0], ['attach', 1]],
        [['add', 0, 1], ['attach', 0], ['add', 1, 5], ['attach', 1], ['dadd', 5, None]],
        # separator at the edge of a name part
        [['dadd', 0, '.hidden'], ['dadd', 1, 'trailing.'], ['dadd', 2, 'a..b'], ['dadd', 3, None]],
        [['add_named', 2, 0, '.hidden'], ['add', 2, 1], ['view', 2, 1, 'v.'], ['merge', 1, 2], ['add_named', 1, 2, 'trailing.'], ['attach', 1]],
        [['add_named', 2, 1, 'a..b'], ['merge', 1, 2], ['merge', 0, 1], ['attach', 0]],
        [['view', 0, 0, '.v'], ['add_named', 0, 0, '..z'], ['attach', 0]],
        [['add', 1, 0], ['add', 2, 1], ['merge', 0, 1], ['merge', 0, 2], ['attach', 0]],
        [['add', 0, 0], ['add_named', 0, 1, 'trailing.'], ['add', 0, 3], ['view', 0, 4, 'v..w'], ['attach', 0]],
    ]
    for pf in PREFIX_SETS:
        for ops in crafted:
            yield from emit(ops, pf)


KINDS = {'history': run_history}
