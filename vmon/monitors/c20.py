"""C20 - the pytest mocker answers as configured: round-robin, once, recorded, element-wise, passthrough/refusal."""
from __future__ import annotations

import itertools
import json

import pjrpc
from pjrpc.client.integrations.pytest import PjRpcMocker
from pjrpc.common import UNSET

from .. import clientside, strictjson, world
from ..strictjson import typed_eq

PID = 'C20'
LEVEL = 'exploration'
RULE = ('one case = one history of mocker operations (add result / error / callback, once on/off, replace at a valid index, '
        'remove method / endpoint, reset) and client calls (single or batch of 1..3 elements, positional or named params, '
        'request ids 1, 7, 0, "x", "") over 2 endpoints x 2 methods, with passthrough on or off, through the patched '
        '`_request` of a harness-defined sync or async client class. After every call the reply text (strict-decoded), the '
        'ConnectionRefusedError, the passthrough invocation and mocker.calls are compared with a list model of the '
        'statement (rotating per-pair patch lists). Histories of length <= 3 are enumerated over a reduced alphabet, longer '
        'ones sampled. A further dimension puts SEVERAL mocker objects into one history (2..3 mockers alive at the same '
        'time, each patching the `_request` of a client class of its own - sync and async ones, entered as with-blocks or '
        'by start(), stopped in nested or in any other order; also the two fixtures\' mockers for the requests and the '
        'aiohttp backend): adds / removes / resets / restarts and calls through each of them over the same and over '
        'different (endpoint, method) pairs; after EVERY operation the answers of each call and the `calls` records of '
        'every active mocker are compared with that mocker\'s own model. Distinct = distinct (history, passthrough, client '
        'kind) resp. (mocker set-up, history).')
ASSUMPTIONS = [
    'notifications are not generated (the statement speaks of replies carrying the request id)',
    'calls to a method that is not patched are not required to be recorded; only patched calls are compared with mocker.calls',
    'remove / replace are only generated for existing patches and valid indexes',
    'several mockers at the same time: each patches a client class of its own (two mockers stacked on the SAME target are not '
    'generated - which of them answers is left open); the records of a mocker that is not active are not judged',
]
SHARDS = {'quick': 4, 'thorough': 16}
TIMEOUT = {'quick': 900, 'thorough': 3600}
ANCHORS = [
    ('pjrpc/client/integrations/pytest.py', 'PjRpcMocker.add'), ('pjrpc/client/integrations/pytest.py', 'PjRpcMocker.replace'),
    ('pjrpc/client/integrations/pytest.py', 'PjRpcMocker.remove'), ('pjrpc/client/integrations/pytest.py', 'PjRpcMocker.reset'),
    ('pjrpc/client/integrations/pytest.py', 'PjRpcMocker._on_request'),
    ('pjrpc/client/integrations/pytest.py', 'PjRpcMocker._match_request'),
    ('pjrpc/client/integrations/pytest.py', 'PjRpcMocker._cleanup_matches'),
]
FLOORS = {'*': {'fixtures:sessions': 4, 'op:add': 500, 'op:replace': 50, 'op:remove-method': 50, 'op:remove-endpoint': 30, 'op:reset': 30,
                'op:call': 500, 'op:batch': 200, 'op:batch-of-one': 50, 'op:replace-negative-index': 20, 'op:restart': 50, 'backend:runs': 12, 'backend:passthrough': 4, 'once-exhausted-inside-batch': 10, 'passthrough': 50, 'refused': 50,
                'unpatched-method': 50, 'client:sync': 200, 'client:async': 200, 'round-robin>=3': 30, 'callback': 50,
                'id:falsy': 30, 'configured-error-through-the-client-api': 300, 'calls-through-client-notations': 60, 'notation:batch-getitem': 8, 'configured-error:code-with-a-class-of-its-own': 150,
                'concurrent:histories': 500, 'concurrent:two-mockers-active-at-a-call': 1000, 'concurrent:three-mockers-active-at-a-call': 100,
                'concurrent:same-pair-patched-on-two-active-mockers': 500, 'concurrent:call-while-same-pair-patched-elsewhere': 300,
                'concurrent:stop-while-another-active': 200, 'concurrent:reset-while-another-active': 100,
                'concurrent:records-checked-after-another-mocker-stopped-or-reset': 150, 'concurrent:sync+async': 150,
                'concurrent:with-block': 200, 'concurrent:non-nested-stop-order': 50, 'concurrent:library-backends': 8}}

ENDPOINTS = ['ep1', 'ep2']
METHODS = ['ma', 'mb']


class MSync(clientside.SyncClient):
    pass


class MAsync(clientside.AsyncClient):
    pass


class MSync2(clientside.SyncClient):
    pass


class MAsync2(clientside.AsyncClient):
    pass


CLIENT_CLASSES = {'MSync': MSync, 'MAsync': MAsync, 'MSync2': MSync2, 'MAsync2': MAsync2}


def patch_value(kind, tag):
    if kind == 'result':
        # every third result patch is configured with the (rarely used) id= argument: the reply to a request that HAS an id
        # still carries the request's id
        return dict(result={'tag': tag}, **({'id': 9000 + tag} if tag % 3 == 0 else {}))
    if kind == 'error':
        return dict(error=pjrpc.exc.JsonRpcError(code=4000 + tag, message=f'err{tag}', data=[tag]))
    return dict(callback=lambda *a, **k: {'cb': tag, 'a': list(a), 'k': k})


def expected_reply(patch, rid, params):
    kind, tag = patch['kind'], patch['tag']
    if kind == 'result':
        return {'jsonrpc': '2.0', 'id': rid, 'result': {'tag': tag}}
    if kind == 'error':
        return {'jsonrpc': '2.0', 'id': rid, 'error': {'code': 4000 + tag, 'message': f'err{tag}', 'data': [tag]}}
    a, k = (params, {}) if isinstance(params, list) else ([], params)
    return {'jsonrpc': '2.0', 'id': rid, 'result': {'cb': tag, 'a': a, 'k': k}}


def run_history(ctx, ops, passthrough, is_async):
    ck = 'async' if is_async else 'sync'
    target = f'{__name__}.{"MAsync" if is_async else "MSync"}._request'
    real_log = []

    def real_transport(text, is_notification, kwargs):
        real_log.append(text)
        return json.dumps({'real': len(real_log)})

    clients = {ep: (MAsync if is_async else MSync)(real_transport, endpoint=ep) for ep in ENDPOINTS}
    model = {ep: {} for ep in ENDPOINTS}          # endpoint -> {method: [patch, ...]} (rotating)
    calls = {ep: {} for ep in ENDPOINTS}          # endpoint -> {method: [(args, kwargs), ...]}
    tag = 0
    cls = (json.dumps(ops), passthrough, ck)
    ctx.hit('client:' + ck)
    mocker = PjRpcMocker(target, passthrough=passthrough)
    try:
        mocker.start()
    except Exception as e:
        ctx.violation(f'mocker-start-raises:{type(e).__name__}', 'start', cls, exception=e)
        return
    try:
        for step, op in enumerate(ops):
            name = op[0]
            wit = dict(history=ops, step=step, passthrough=passthrough, client=ck)
            try:
                if name == 'add':
                    _, ep, m, kind, once = op
                    tag += 1
                    mocker.add(ep, m, once=once, **patch_value(kind, tag))
                    model[ep].setdefault(m, []).append({'kind': kind, 'tag': tag, 'once': once})
                    ctx.hit('op:add')
                    continue
                if name == 'replace':
                    _, ep, m, kind, once, idx = op
                    lst = model[ep].get(m) or []
                    if not -len(lst) <= idx < len(lst):
                        ctx.skip('replace-at-invalid-index')
                        continue
                    if idx < 0:
                        ctx.hit('op:replace-negative-index')        # list semantics: counted from the end
                    tag += 1
                    mocker.replace(ep, m, once=once, idx=idx, **patch_value(kind, tag))
                    lst[idx] = {'kind': kind, 'tag': tag, 'once': once}
                    ctx.hit('op:replace')
                    continue
                if name == 'remove':
                    _, ep, m = op
                    if m is None:
                        if not any(model[ep].values()):
                            ctx.skip('remove-of-unpatched-endpoint')
                            continue
                        mocker.remove(ep)
                        model[ep] = {}
                        ctx.hit('op:remove-endpoint')
                    else:
                        if not model[ep].get(m):
                            ctx.skip('remove-of-unpatched-method')
                            continue
                        mocker.remove(ep, m)
                        model[ep].pop(m, None)
                        ctx.hit('op:remove-method')
                    continue
                if name == 'reset':
                    mocker.reset()
                    model = {ep: {} for ep in ENDPOINTS}
                    calls = {ep: {} for ep in ENDPOINTS}
                    ctx.hit('op:reset')
                    continue
                if name == 'restart':
                    # the same mocker object stopped and started again (a module-level mocker shared by tests): stop() drops
                    # the patches and the recorded calls, like leaving the `with` block does
                    mocker.stop()
                    mocker.start()
                    model = {ep: {} for ep in ENDPOINTS}
                    calls = {ep: {} for ep in ENDPOINTS}
                    ctx.hit('op:restart')
                    continue
            except Exception as e:
                ctx.violation(f'{name}-raises:{type(e).__name__}', 'op:' + name, cls, exception=e, **wit)
                return
            # ---- a client call: ['call', ep, [[method, params, id], ...]]  (one element = single request)
            _, ep, elems = op
            single = len(elems) == 1 and op[0] == 'call'
            reqs = [{'jsonrpc': '2.0', 'id': rid, 'method': m, **({'params': p} if p else {})} for m, p, rid in elems]
            text = json.dumps(reqs[0] if single else reqs)
            ctx.hit('op:call' if single else 'op:batch')
            if len(elems) == 1 and not single:
                ctx.hit('op:batch-of-one')
            if any(rid in (0, '') for _, _, rid in elems):
                ctx.hit('id:falsy')
            n_real = len(real_log)
            st, out = clientside.outcome_of(lambda: clients[ep]._request(text, False), is_async)
            wit.update(request=text, outcome=[st, out])
            patched_endpoint = any(model[ep].values())
            if not patched_endpoint:
                if passthrough:
                    ctx.hit('passthrough')
                    if st != 'ret' or len(real_log) != n_real + 1 or real_log[-1] != text or out != json.dumps({'real': len(real_log)}):
                        ctx.violation('unpatched-endpoint-not-passed-through', 'passthrough', cls, model_patches=model[ep], **wit)
                        return
                else:
                    ctx.hit('refused')
                    if st != 'exc' or not isinstance(out, ConnectionRefusedError):
                        ctx.violation('unpatched-endpoint-not-refused', 'refusal', cls, model_patches=model[ep], **wit)
                        return
                continue
            if len(real_log) != n_real:
                ctx.violation('patched-endpoint-reached-the-real-transport', 'reply', cls, **wit)
                return
            if st != 'ret' or not isinstance(out, str):
                ctx.violation(f'patched-call-raised:{type(out).__name__}', 'reply', cls, **wit)
                return
            try:
                doc = strictjson.decode(out)
            except strictjson.NotJson:
                ctx.violation('reply-not-json', 'reply', cls, **wit)
                return
            want = []
            exhausted_in_batch = False
            for m, p, rid in elems:
                lst = model[ep].get(m)
                if not lst:
                    ctx.hit('unpatched-method')
                    want.append({'jsonrpc': '2.0', 'id': rid, 'error': {'code': -32601}})
                    continue
                if len(lst) >= 3:
                    ctx.hit('round-robin>=3')
                patch = lst.pop(0)
                if not patch['once']:
                    lst.append(patch)
                elif not single and not any(model[ep].values()):
                    exhausted_in_batch = True
                if patch['kind'] == 'callback':
                    ctx.hit('callback')
                want.append(expected_reply(patch, rid, p))
                a, k = (list(p), {}) if isinstance(p, list) else ([], dict(p))
                calls[ep].setdefault(m, []).append((a, k))
            if exhausted_in_batch:
                ctx.hit('once-exhausted-inside-batch')
            got = [doc] if single else doc
            if single != isinstance(doc, dict) or not isinstance(got, list) or len(got) != len(want):
                ctx.violation('reply-shape-wrong', 'reply', cls, expected=want, **wit)
                return
            for pos, (w, g) in enumerate(zip(want, got)):
                prob = None
                if not isinstance(g, dict) or g.get('jsonrpc') != '2.0':
                    prob = 'reply-element-malformed'
                elif 'id' not in g or not typed_eq(g['id'], w['id']):
                    prob = 'reply-id-is-not-the-request-id' + (':falsy-id' if w['id'] in (0, '') else '')
                elif 'error' in w and w['error'].get('code') == -32601:
                    if not isinstance(g.get('error'), dict) or g['error'].get('code') != -32601 or 'result' in g:
                        prob = 'unpatched-method-not-answered-with-32601'
                elif not typed_eq({k: v for k, v in g.items() if k != 'id'}, {k: v for k, v in w.items() if k != 'id'}):
                    prob = 'reply-is-not-the-configured-patch' + (':batch-element' if not single else '')
                if prob:
                    ctx.violation(prob, 'reply', cls, expected=want, position=pos, **wit)
                    return
            # recorded calls
            for e in ENDPOINTS:
                for m in METHODS:
                    want_calls = calls[e].get(m, [])
                    stub = mocker.calls.get(e, {}).get(('2.0', m))
                    got_calls = [(list(c.args), dict(c.kwargs)) for c in stub.call_args_list] if stub is not None else []
                    if got_calls != want_calls:
                        ctx.violation('recorded-calls-differ', 'calls', cls, endpoint=e, method=m, expected=want_calls,
                                      recorded=got_calls, **wit)
                        return
        ctx.ok(f'history:{ck}:{"passthrough" if passthrough else "refuse"}:len{min(len(ops), 6)}', cls,
               sample={'history': ops, 'passthrough': passthrough, 'client': ck})
    finally:
        try:
            mocker.stop()
        except Exception:
            pass


# ---- generation -----------------------------------------------------------------------------------------

URLS = ['http://localhost/api/v1', 'https://rpc.example.com:443/api/v1', 'http://EXAMPLE.com/Api', 'http://h/a b?q=ü', 'http://h:80/',
        'https://h/%7Euser/x', 'http://h/a/../b']


def run_backend_passthrough(ctx, backend):
    """passthrough on, a library backend, an endpoint without patches: the call reaches the backend's real transport (here:
    a connection attempt to a port nobody listens on), whatever that then does"""
    import importlib
    url = 'http://127.0.0.1:9/rpc'
    is_async = backend in ('httpx-async', 'aiohttp')
    try:
        if backend == 'requests':
            import requests
            mod, target, reached = importlib.import_module('pjrpc.client.backend.requests'), 'pjrpc.client.backend.requests.Client._request', requests.exceptions.RequestException
            make = lambda: mod.Client(url)
        elif backend == 'httpx':
            import httpx
            mod, target, reached = importlib.import_module('pjrpc.client.backend.httpx'), 'pjrpc.client.backend.httpx.Client._request', httpx.HTTPError
            make = lambda: mod.Client(url)
        elif backend == 'httpx-async':
            import httpx
            mod, target, reached = importlib.import_module('pjrpc.client.backend.httpx'), 'pjrpc.client.backend.httpx.AsyncClient._request', httpx.HTTPError
            make = lambda: mod.AsyncClient(url)
        else:
            import aiohttp
            mod, target, reached = importlib.import_module('pjrpc.client.backend.aiohttp'), 'pjrpc.client.backend.aiohttp.Client._request', aiohttp.ClientError
            make = lambda: mod.Client(url)
    except Exception as e:
        ctx.skip(f'backend-not-importable:{type(e).__name__}')
        return
    cls = ('backend-passthrough', backend)
    mocker = PjRpcMocker(target, passthrough=True)
    mocker.start()
    try:
        mocker.add('http://elsewhere/rpc', 'ma', result='patched')       # some OTHER endpoint is patched

        async def adrive():
            client = make()
            try:
                return await client.call('ma', 1)
            finally:
                close = getattr(client, 'close', None)
                if close is not None:
                    res = close()
                    if hasattr(res, '__await__'):
                        await res
        st, out = clientside.outcome_of(adrive if is_async else (lambda: make().call('ma', 1)), is_async)
        ctx.hit('backend:passthrough')
        if st == 'exc' and isinstance(out, (reached, OSError)):
            ctx.ok(f'backend-passthrough:{backend}', cls, sample={'backend': backend, 'reached_the_real_transport_which_raised': type(out).__name__})
        else:
            ctx.violation('unpatched-endpoint-not-passed-through:library-backend' + (f':raises-{type(out).__name__}' if st == 'exc' else ''),
                          'passthrough', cls, backend=backend, outcome=[st, out])
    finally:
        try:
            mocker.stop()
        except Exception:
            pass


def run_backend(ctx, backend, url, passthrough_probe):
    """the library's own client backends under the mocker: the endpoint a patch is added for is the URL string the client was
    built with, however the backend spells it internally"""
    import importlib
    is_async = backend in ('httpx-async', 'aiohttp')
    try:
        if backend == 'requests':
            mod, target = importlib.import_module('pjrpc.client.backend.requests'), 'pjrpc.client.backend.requests.Client._request'
            make = lambda: mod.Client(url)
        elif backend == 'httpx':
            mod, target = importlib.import_module('pjrpc.client.backend.httpx'), 'pjrpc.client.backend.httpx.Client._request'
            make = lambda: mod.Client(url)
        elif backend == 'httpx-async':
            mod, target = importlib.import_module('pjrpc.client.backend.httpx'), 'pjrpc.client.backend.httpx.AsyncClient._request'
            make = lambda: mod.AsyncClient(url)
        else:
            mod, target = importlib.import_module('pjrpc.client.backend.aiohttp'), 'pjrpc.client.backend.aiohttp.Client._request'
            make = None
    except Exception as e:
        ctx.skip(f'backend-not-importable:{type(e).__name__}')
        return
    cls = ('backend', backend, url)
    wit = dict(backend=backend, url=url)
    mocker = PjRpcMocker(target, passthrough=False)
    mocker.start()
    try:
        mocker.add(url, 'ma', result='patched')
        mocker.add(url, 'mb', error=pjrpc.exceptions.JsonRpcError(code=5, message='m'), once=True)

        async def adrive():
            client = make() if make else mod.Client(url)
            try:
                r1 = await client.call('ma', 1)
                b = await client.batch.add('ma', 2).add('ma', k=3).call()
                try:
                    await client.call('mb')
                    e = None
                except pjrpc.exceptions.JsonRpcError as ex:
                    e = ex.code
                return r1, list(b), e
            finally:
                close = getattr(client, 'close', None)
                if close is not None:
                    res = close()
                    if hasattr(res, '__await__'):
                        await res

        def drive():
            client = make()
            r1 = client.call('ma', 1)
            b = client.batch.add('ma', 2).add('ma', k=3).call()
            try:
                client.call('mb')
                e = None
            except pjrpc.exceptions.JsonRpcError as ex:
                e = ex.code
            return r1, list(b), e
        st, out = clientside.outcome_of(adrive if is_async else drive, is_async)
        ctx.hit('backend:runs')
        if st != 'ret' or out != ('patched', ['patched', 'patched'], 5):
            ctx.violation('patched-endpoint-of-a-library-backend-not-answered-by-its-patches' + (f':raises-{type(out).__name__}' if st == 'exc' else ''),
                          'backend', cls, outcome=[st, out], **wit)
            return
        stub = mocker.calls.get(url, {}).get(('2.0', 'ma'))
        n = stub.call_count if stub is not None else 0
        if n != 3:
            ctx.violation('recorded-calls-differ:library-backend', 'backend', cls, recorded=n, expected=3, **wit)
            return
        ctx.ok(f'backend:{backend}', cls, sample=wit)
    finally:
        try:
            mocker.stop()
        except Exception:
            pass


# ---- several mockers alive at the same time ------------------------------------------------------------------

class _Model:
    """list model of ONE mocker: rotating patch lists and the calls it answered"""

    def __init__(self):
        self.clear()

    def clear(self):
        self.patches = {ep: {} for ep in ENDPOINTS}
        self.calls = {ep: {} for ep in ENDPOINTS}

    def patched(self, ep):
        return any(self.patches[ep].values())

    def answer(self, ep, elems):
        want = []
        for m, p, rid in elems:
            lst = self.patches[ep].get(m)
            if not lst:
                want.append({'jsonrpc': '2.0', 'id': rid, 'error': {'code': -32601}})
                continue
            patch = lst.pop(0)
            if not patch['once']:
                lst.append(patch)
            want.append(expected_reply(patch, rid, p))
            a, k = (list(p), {}) if isinstance(p, list) else ([], dict(p))
            self.calls[ep].setdefault(m, []).append((a, k))
        return want


def _reply_problem(want, doc, single):
    got = [doc] if single else doc
    if single != isinstance(doc, dict) or not isinstance(got, list) or len(got) != len(want):
        return 'reply-shape-wrong'
    for w, g in zip(want, got):
        if not isinstance(g, dict) or g.get('jsonrpc') != '2.0':
            return 'reply-element-malformed'
        if 'id' not in g or not typed_eq(g['id'], w['id']):
            return 'reply-id-is-not-the-request-id'
        if 'error' in w and w['error'].get('code') == -32601:
            if not isinstance(g.get('error'), dict) or g['error'].get('code') != -32601 or 'result' in g:
                return 'unpatched-method-not-answered-with-32601'
        elif not typed_eq({k: v for k, v in g.items() if k != 'id'}, {k: v for k, v in w.items() if k != 'id'}):
            return 'reply-is-not-the-configured-patch'
    return None


def run_concurrent(ctx, setup, ops):
    """setup: [[client class name, passthrough], ...] - one mocker per entry; ops address a mocker by its index"""
    cls = ('concurrent', json.dumps(setup), json.dumps(ops))
    ctx.hit('concurrent:histories')
    n = len(setup)
    real_logs = [[] for _ in range(n)]

    def transport_of(i):
        def real_transport(text, is_notification, kwargs):
            real_logs[i].append(text)
            return json.dumps({'real': [i, len(real_logs[i])]})
        return real_transport

    is_async = [issubclass(CLIENT_CLASSES[c], clientside.AsyncClient) for c, _ in setup]
    if len(set(is_async)) == 2:
        ctx.hit('concurrent:sync+async')
    clients = [{ep: CLIENT_CLASSES[c](transport_of(i), endpoint=ep) for ep in ENDPOINTS} for i, (c, _) in enumerate(setup)]
    mockers = [PjRpcMocker(f'{__name__}.{c}._request', passthrough=pt) for c, pt in setup]
    models = [_Model() for _ in range(n)]
    active = [False] * n
    entered = [False] * n             # activated as a with-block (left through __exit__)
    order = []                        # activation order of the active mockers
    tag = 0
    try:
        for step, op in enumerate(ops):
            name, i = op[0], op[1]
            wit = dict(setup=setup, history=ops, step=step)
            disturbed = None           # what this operation did to ANOTHER mocker's surroundings
            try:
                if name == 'start':
                    if active[i]:
                        ctx.skip('start-of-an-active-mocker')
                        continue
                    if op[2] == 'with':
                        mockers[i].__enter__()
                        ctx.hit('concurrent:with-block')
                    else:
                        mockers[i].start()
                    active[i], entered[i] = True, op[2] == 'with'
                    order.append(i)         # (patches added while the mocker was not active stay: only stop / reset drop them)
                elif name == 'stop':
                    if not active[i]:
                        ctx.skip('stop-of-an-inactive-mocker')
                        continue
                    if sum(active) > 1:
                        ctx.hit('concurrent:stop-while-another-active')
                        disturbed = 'another-mocker-was-stopped'
                        if order[-1] != i:
                            ctx.hit('concurrent:non-nested-stop-order')
                    if entered[i]:
                        mockers[i].__exit__(None, None, None)
                    else:
                        mockers[i].stop()
                    active[i] = False
                    order.remove(i)
                    models[i].clear()
                elif name == 'reset':
                    mockers[i].reset()
                    models[i].clear()
                    if sum(active) - active[i] >= 1:
                        ctx.hit('concurrent:reset-while-another-active')
                        disturbed = 'another-mocker-was-reset'
                elif name == 'add':
                    _, _, ep, m, kind, once = op
                    tag += 1
                    mockers[i].add(ep, m, once=once, **patch_value(kind, tag))
                    models[i].patches[ep].setdefault(m, []).append({'kind': kind, 'tag': tag, 'once': once})
                    if any(active[j] and j != i and models[j].patches[ep].get(m) for j in range(n)) and active[i]:
                        ctx.hit('concurrent:same-pair-patched-on-two-active-mockers')
                elif name == 'remove':
                    _, _, ep, m = op
                    if not models[i].patches[ep].get(m):
                        ctx.skip('remove-of-unpatched-method')
                        continue
                    mockers[i].remove(ep, m)
                    models[i].patches[ep].pop(m, None)
                elif name != 'call':
                    raise KeyError(name)
            except Exception as e:
                ctx.violation(f'{name}-raises:{type(e).__name__}:concurrent-mockers', 'concurrent:' + name, cls, exception=e, **wit)
                return
            if name == 'call':
                _, _, ep, elems = op
                if not active[i]:
                    ctx.skip('call-through-an-inactive-mocker')
                    continue
                if sum(active) >= 2:
                    ctx.hit('concurrent:two-mockers-active-at-a-call')
                if sum(active) >= 3:
                    ctx.hit('concurrent:three-mockers-active-at-a-call')
                if any(active[j] and j != i and models[j].patches[ep].get(m) and models[i].patches[ep].get(m)
                       for j in range(n) for m, _, _ in elems):
                    ctx.hit('concurrent:call-while-same-pair-patched-elsewhere')
                    disturbed = 'a-call-went-through-another-mocker'
                single = len(elems) == 1
                reqs = [{'jsonrpc': '2.0', 'id': rid, 'method': m, **({'params': p} if p else {})} for m, p, rid in elems]
                text = json.dumps(reqs[0] if single else reqs)
                n_real = [len(x) for x in real_logs]
                st, out = clientside.outcome_of(lambda: clients[i][ep]._request(text, False), is_async[i])
                wit.update(request=text, through_mocker=i, outcome=[st, out])
                others_reached = [j for j in range(n) if j != i and len(real_logs[j]) != n_real[j]]
                if others_reached:
                    ctx.violation('call-reached-the-transport-of-another-mocker\'s-client', 'concurrent:reply', cls, **wit)
                    return
                if not models[i].patched(ep):
                    if setup[i][1]:
                        if st != 'ret' or len(real_logs[i]) != n_real[i] + 1 or real_logs[i][-1] != text \
                                or out != json.dumps({'real': [i, len(real_logs[i])]}):
                            ctx.violation('unpatched-endpoint-not-passed-through:concurrent-mockers', 'concurrent:passthrough', cls,
                                          patches_of_every_mocker=[x.patches for x in models], **wit)
                            return
                    elif st != 'exc' or not isinstance(out, ConnectionRefusedError):
                        ctx.violation('unpatched-endpoint-not-refused:concurrent-mockers', 'concurrent:refusal', cls,
                                      patches_of_every_mocker=[x.patches for x in models], **wit)
                        return
                else:
                    if len(real_logs[i]) != n_real[i]:
                        ctx.violation('patched-endpoint-reached-the-real-transport:concurrent-mockers', 'concurrent:reply', cls, **wit)
                        return
                    if st != 'ret' or not isinstance(out, str):
                        ctx.violation(f'patched-call-raised:{type(out).__name__}:concurrent-mockers', 'concurrent:reply', cls, **wit)
                        return
                    try:
                        doc = strictjson.decode(out)
                    except strictjson.NotJson:
                        ctx.violation('reply-not-json:concurrent-mockers', 'concurrent:reply', cls, **wit)
                        return
                    want = models[i].answer(ep, elems)
                    prob = _reply_problem(want, doc, single)
                    if prob:
                        ctx.violation(prob + ':concurrent-mockers', 'concurrent:reply', cls, expected=want,
                                      patches_of_every_mocker=[x.patches for x in models], **wit)
                        return
            # ---- after EVERY operation: the records of every active mocker are its own
            for j in range(n):
                if not active[j]:
                    continue
                if disturbed in ('another-mocker-was-stopped', 'another-mocker-was-reset') and j != i:
                    ctx.hit('concurrent:records-checked-after-another-mocker-stopped-or-reset')
                for e in ENDPOINTS:
                    for m in METHODS:
                        want_calls = models[j].calls[e].get(m, [])
                        stub = mockers[j].calls.get(e, {}).get(('2.0', m))
                        got_calls = [(list(c.args), dict(c.kwargs)) for c in stub.call_args_list] if stub is not None else []
                        if got_calls != want_calls:
                            how = 'records-lost' if len(got_calls) < len(want_calls) else \
                                'foreign-calls-recorded' if len(got_calls) > len(want_calls) else 'other-arguments'
                            ctx.violation(f'recorded-calls-differ:concurrent-mockers:{how}' + (f':after-{disturbed}' if disturbed and j != i else ''),
                                          'concurrent:calls', cls, mocker=j, endpoint=e, method=m, expected=want_calls, recorded=got_calls,
                                          answered_by_every_mocker=[x.calls for x in models], **wit)
                            return
        ctx.ok(f'concurrent:{n}-mockers:len{min(len(ops), 10)}', cls, sample={'setup': setup, 'history': ops})
    finally:
        for i in reversed(order):
            try:
                mockers[i].stop()
            except Exception:
                pass


def run_concurrent_backends(ctx, outer, same_pair, stop_first, url):
    """the two fixtures' mockers (requests and aiohttp backend, built the way pjrpc_requests_mocker / pjrpc_aiohttp_mocker
    build them) active in one test: calls through either real client are answered and recorded by ITS mocker only"""
    import importlib
    try:
        from pjrpc.client.integrations.pytest import PjRpcAiohttpMocker, PjRpcRequestsMocker
        rq = importlib.import_module('pjrpc.client.backend.requests')
        ah = importlib.import_module('pjrpc.client.backend.aiohttp')
    except Exception as e:
        ctx.skip(f'backend-not-importable:{type(e).__name__}')
        return
    cls = ('concurrent-backends', outer, same_pair, stop_first, url)
    wit = dict(outer=outer, same_pair=same_pair, stopped_first=stop_first, url=url)
    ctx.hit('concurrent:library-backends')
    mk = {'requests': PjRpcRequestsMocker(), 'aiohttp': PjRpcAiohttpMocker()}
    inner = 'aiohttp' if outer == 'requests' else 'requests'
    meth = {'requests': 'ma', 'aiohttp': 'ma' if same_pair else 'mb'}
    want = {'requests': [], 'aiohttp': []}
    live = []

    def call(which, *args):
        if which == 'requests':
            st, out = clientside.outcome_of(lambda: rq.Client(url).call(meth[which], *args), False)
        else:
            async def adrive():
                client = ah.Client(url)
                try:
                    return await client.call(meth[which], *args)
                finally:
                    await client.close()
            st, out = clientside.outcome_of(adrive, True)
        want[which].append((list(args), {}))
        if st != 'ret' or out != f'{which}-answer':
            ctx.violation('patched-endpoint-of-a-library-backend-not-answered-by-its-patches:concurrent-mockers'
                          + (f':raises-{type(out).__name__}' if st == 'exc' else ''), 'concurrent-backends', cls, through=which,
                          outcome=[st, out], **wit)
            return False
        return True

    def records_ok(after):
        for which in live:
            stub = mk[which].calls.get(url, {}).get(('2.0', meth[which]))
            got = [(list(c.args), dict(c.kwargs)) for c in stub.call_args_list] if stub is not None else []
            if got != want[which]:
                how = 'records-lost' if len(got) < len(want[which]) else 'foreign-calls-recorded' if len(got) > len(want[which]) else 'other-arguments'
                ctx.violation(f'recorded-calls-differ:concurrent-mockers:{how}:library-backends', 'concurrent-backends', cls, mocker=which,
                              expected=want[which], recorded=got, after=after, **wit)
                return False
        return True

    try:
        for which in (outer, inner):
            mk[which].__enter__()
            live.append(which)
            mk[which].add(url, meth[which], result=f'{which}-answer')
        ok = call(outer, 1) and call(inner, 2) and records_ok('one call each') and call(outer, 3, 'x') and records_ok('three calls')
        if not ok:
            return
        first = outer if stop_first == 'outer' else inner
        mk[first].__exit__(None, None, None)
        live.remove(first)
        if not records_ok(f'the {first} mocker left its with-block'):
            return
        if not (call(live[0], 4) and records_ok('a call after the other mocker had gone')):
            return
        ctx.ok('concurrent-backends', cls, sample=wit)
    finally:
        for which in reversed(live):
            try:
                mk[which].stop()
            except Exception:
                pass


ERROR_CODES = [-32700, -32600, -32601, -32602, -32603, -32000, 4001, 0, -32050]
ERROR_MESSAGES = ['age must be positive', '', 'Invalid params', 'm\u00e9ssage']
ERROR_DATA = ['__absent__', None, {'field': 'age'}, [1]]


def run_client_error(ctx, code, message, data, how, is_async):
    """the configured error of a patch, as the code under test sees it: through the real client API (send / call / batch
    element). Code, message and data are the configured ones, whether or not the code has an error class of its own."""
    ck = 'async' if is_async else 'sync'
    target = f'{__name__}.{"MAsync" if is_async else "MSync"}._request'

    def real_transport(text, is_notification, kwargs):
        raise AssertionError('real transport reached')
    client = (MAsync if is_async else MSync)(real_transport, endpoint='ep1')
    cls = ('client-error', code, message, json.dumps(data), how, ck)
    wit = dict(configured_error={'code': code, 'message': message, 'data': data}, through=how, client=ck)
    kw = {} if data == '__absent__' else {'data': data}
    configured = pjrpc.exc.JsonRpcError(code=code, message=message, **kw)
    mocker = PjRpcMocker(target, passthrough=False)
    mocker.start()
    try:
        mocker.add('ep1', 'ma', error=configured)
        mocker.add('ep1', 'ok', result='fine')
        if how == 'send':
            st, out = clientside.outcome_of(lambda: client.send(pjrpc.Request('ma', [1], id=3)), is_async)
            err = out.error if st == 'ret' and out is not None and not out.is_success else None
        elif how == 'call':
            st, out = clientside.outcome_of(lambda: client.call('ma', 1), is_async)
            err = out if st == 'exc' and isinstance(out, pjrpc.exc.JsonRpcError) else None
        else:
            st, out = clientside.outcome_of(lambda: client.batch.send(pjrpc.BatchRequest(
                pjrpc.Request('ok', id=1), pjrpc.Request('ma', [1], id=2))), is_async)
            err = out[1].error if st == 'ret' and out is not None and len(out) == 2 and not out[1].is_success else None
        ctx.hit('configured-error-through-the-client-api')
        if code in (-32700, -32600, -32601, -32602, -32603, -32000):
            ctx.hit('configured-error:code-with-a-class-of-its-own')
        if err is None:
            ctx.violation('configured-error-does-not-reach-the-caller', 'client-error', cls, outcome=[st, out], **wit)
            return
        got = {'code': err.code, 'message': err.message, 'data': '__absent__' if err.data is pjrpc.common.UNSET else err.data}
        if not typed_eq(got, wit['configured_error']):
            what = next(k for k in ('code', 'message', 'data') if not typed_eq(got[k], wit['configured_error'][k]))
            ctx.violation(f'caller-sees-another-error-than-the-configured-one:{what}', 'client-error', cls, seen=got, **wit)
            return
        ctx.ok('client-error:' + how, cls, sample=wit)
    finally:
        try:
            mocker.stop()
        except Exception:
            pass


ARG_SHAPES = [([{'name': 'bob'}], {}), ([{'a': 1, 'b': [2]}], {}), ([1, {'k': 2}], {}), ([[1, 2]], {}), ([], {'name': 'bob'}), ([None], {}),
              ([{}], {}), (['s'], {})]


def run_client_calls(ctx, notation, shape, is_async):
    """calls made through the real client's notations: the mocker records every call with ITS arguments (a dict handed over as
    the single positional argument is a positional argument) and the callback is invoked with them"""
    ck = 'async' if is_async else 'sync'
    target = f'{__name__}.{"MAsync" if is_async else "MSync"}._request'
    args, kwargs = ARG_SHAPES[shape]

    def real_transport(text, is_notification, kw):
        raise AssertionError('real transport reached')
    client = (MAsync if is_async else MSync)(real_transport, endpoint='ep1')
    seen = []

    def cb(*a, **k):
        seen.append((list(a), dict(k)))
        return 'cb'
    cls = ('client-calls', notation, shape, ck)
    wit = dict(notation=notation, arguments=[args, kwargs], client=ck)
    mocker = PjRpcMocker(target, passthrough=False)
    mocker.start()
    try:
        mocker.add('ep1', 'ma', callback=cb)
        if notation == 'call':
            op = lambda: client.call('ma', *args, **kwargs)
        elif notation == 'proxy':
            op = lambda: client.proxy.ma(*args, **kwargs)
        elif notation == 'batch-add':
            op = lambda: client.batch.add('ma', *args, **kwargs).call()
        elif notation == 'batch-call':
            op = lambda: client.batch('ma', *args, **kwargs).call()
        elif notation == 'batch-proxy':
            op = lambda: client.batch.proxy.ma(*args, **kwargs).call()
        else:
            op = lambda: client.batch[('ma', *args),]       # (a one-element tuple of calls)
        st, out = clientside.outcome_of(op, is_async)
        ctx.hit('calls-through-client-notations')
        ctx.hit('notation:' + notation)
        want_out = 'cb' if notation in ('call', 'proxy') else ('cb',)
        if st != 'ret' or (tuple(out) if isinstance(out, (list, tuple)) else out) != want_out:
            ctx.violation('patched-call-through-the-client-not-answered-by-the-callback', 'client-calls', cls, outcome=[st, out], **wit)
            return
        if seen != [(args, kwargs)]:
            ctx.violation('callback-invoked-with-other-arguments-than-the-call', 'client-calls', cls, callback_saw=seen, **wit)
            return
        stub = mocker.calls.get('ep1', {}).get(('2.0', 'ma'))
        got = [(list(c.args), dict(c.kwargs)) for c in (stub.call_args_list if stub is not None else [])]
        if got != [(args, kwargs)]:
            ctx.violation('recorded-calls-differ:arguments', 'client-calls', cls, recorded=got, **wit)
            return
        ctx.ok('client-calls:' + notation, cls, sample=wit)
    finally:
        try:
            mocker.stop()
        except Exception:
            pass


def call_ops(rng, rich):
    ids = [1, 7, 0, 'x', '']
    out = []
    for ep in ENDPOINTS:
        for m in METHODS:
            out.append(['call', ep, [[m, [1, 'a'], ids[len(out) % 5]]]])
            out.append(['call', ep, [[m, {'k': 1}, ids[(len(out) + 2) % 5]]]])
            # named params spelled like parameters of the mocker's own functions
            out.append(['call', ep, [[m, [{'version': 2}, {'endpoint': 'x', 'method_name': 'y'}, {'self': 1, 'args': [1], 'kwargs': {}},
                                          {'result': 1, 'error': 2, 'callback': 3, 'once': True, 'idx': 0}][len(out) % 4], 5]]])
        out.append(['call', ep, [['ma', [1], 1], ['ma', [2], 2]]])
        # a batch of exactly one element is still a batch: the reply is a one-element array
        out.append(['batch', ep, [['ma', [1], 1]]])
        out.append(['batch', ep, [['mb', {'k': 1}, 0]]])
        out.append(['call', ep, [['ma', [1], 0], ['mb', {'z': 2}, 'x']]])
        out.append(['call', ep, [['ma', [], 1], ['ma', [5], 7], ['mb', [6], 3]]])
        if rich:
            out.append(['call', ep, [['mb', [], ''], ['ma', [1], 2], ['ma', [2], 3]]])
    return out


def mut_ops():
    out = []
    for ep in ENDPOINTS:
        for m in METHODS:
            for kind in ('result', 'error', 'callback'):
                for once in (False, True):
                    out.append(['add', ep, m, kind, once])
            out.append(['replace', ep, m, 'result', False, 0])
            out.append(['replace', ep, m, 'error', True, 1])
            out.append(['replace', ep, m, 'callback', False, 2])
            out.append(['replace', ep, m, 'result', True, 0])
            out.append(['replace', ep, m, 'error', False, -1])
            out.append(['replace', ep, m, 'result', True, -2])
            out.append(['remove', ep, m])
        out.append(['remove', ep, None])
    out.append(['reset'])
    out.append(['restart'])
    return out


def gen(ctx):
    rng = ctx.rng
    full = ctx.thorough
    calls = call_ops(rng, True)
    muts = mut_ops()
    reduced_m = [o for o in muts if o[0] in ('reset', 'restart') or (o[1] == 'ep1' and (len(o) < 3 or o[2] in ('ma', None)))]
    reduced_c = [o for o in calls if o[1] == 'ep1']
    k = 0

    def emit(ops):
        nonlocal k
        k += 1
        if full:
            for pt in (False, True):
                for a in (False, True):
                    yield 'history', dict(ops=ops, passthrough=pt, is_async=a)
        else:
            yield 'history', dict(ops=ops, passthrough=bool(k % 2), is_async=bool((k // 2) % 2))

    # exhaustive short histories over the reduced alphabet (one endpoint, one method + calls touching both methods)
    alpha = reduced_m + reduced_c
    for n in (1, 2, 3):
        for seq in itertools.product(range(len(alpha)), repeat=n):
            if n == 3 and not full and (seq[0] * 31 + seq[1] * 7 + seq[2]) % 3:
                continue
            ops = [alpha[i] for i in seq]
            if not any(o[0] in ('call', 'batch') for o in ops):
                continue
            yield from emit(ops)
    # sampled longer histories over the full alphabet, biased towards adds first
    for _ in range(300000 if full else 8000):
        n = rng.randint(3, 6)
        ops = []
        for i in range(n):
            r = rng.random()
            if i == 0 or r < 0.4:
                ops.append(rng.choice([o for o in muts if o[0] == 'add']))
            elif r < 0.5:
                ops.append(rng.choice([o for o in muts if o[0] != 'add']))
            else:
                ops.append(rng.choice(calls))
        if ops[-1][0] not in ('call', 'batch'):
            ops.append(rng.choice(calls))
        yield from emit(ops)
    for code in ERROR_CODES:
        for message in ERROR_MESSAGES:
            for data in ERROR_DATA:
                for how in ('send', 'call', 'batch'):
                    k += 1
                    yield 'client_error', dict(code=code, message=message, data=data, how=how, is_async=bool(k % 2))
    for notation in ('call', 'proxy', 'batch-add', 'batch-call', 'batch-proxy', 'batch-getitem'):
        for shape, (a_, k_) in enumerate(ARG_SHAPES):
            if notation == 'batch-getitem' and k_:
                continue          # the subscription notation is positional
            for is_async in (False, True):
                yield 'client_calls', dict(notation=notation, shape=shape, is_async=is_async)
    for backend in ('requests', 'httpx', 'httpx-async', 'aiohttp'):
        yield 'backend_passthrough', dict(backend=backend)
        for url in URLS:
            yield 'backend', dict(backend=backend, url=url, passthrough_probe=False)
    # round-robin over >= 3 patches, once patches consumed inside batches, then further documents
    for ep in ENDPOINTS:
        base = [['add', ep, 'ma', 'result', False], ['add', ep, 'ma', 'error', False], ['add', ep, 'ma', 'callback', False],
                ['add', ep, 'ma', 'result', True]]
        tail = [['call', ep, [['ma', [i], i + 1]]] for i in range(7)]
        yield from emit(base + tail)
        yield from emit(base + [['call', ep, [['ma', [1], 1], ['ma', [2], 2], ['ma', [3], 3]]]] * 3)
        once = [['add', ep, 'ma', 'result', True]]
        yield from emit(once + [['call', ep, [['ma', [1], 1], ['ma', [2], 2]]], ['call', ep, [['ma', [3], 3]]]])
        yield from emit(once + [['call', ep, [['ma', [1], 1], ['mb', [2], 2]]], ['call', ep, [['mb', [3], 3]]], ['call', ep, [['ma', [3], 4]]]])
        yield from emit(once + [['call', ep, [['ma', [1], 1]]], ['call', ep, [['ma', [3], 3]]]])
        yield from emit(once + [['call', ep, [['mb', [1], 1]]], ['remove', ep, 'ma'], ['call', ep, [['ma', [3], 3]]]])
    yield from gen_concurrent(ctx)
    for value, ecode in ((1, 4001), ('s', 0), (None, -5), ([], 70), ({'k': [1]}, 2 ** 33)) + (((0, 1), (False, -32001)) if full else ()):
        yield 'fixtures', dict(value=value, ecode=ecode)


CONCURRENT_SETUPS = [[['MSync', False], ['MAsync', False]], [['MSync', True], ['MSync2', False]], [['MAsync', False], ['MAsync2', True]],
                     [['MAsync', True], ['MSync', True]], [['MSync', False], ['MAsync', False], ['MSync2', False]],
                     [['MAsync2', False], ['MSync2', True], ['MAsync', False]]]


def gen_concurrent(ctx):
    rng = ctx.rng
    ids = [1, 7, 0, 'x']

    def a_call(i):
        ep = 'ep1' if rng.random() < 0.7 else 'ep2'
        r = rng.random()
        if r < 0.6:
            elems = [[rng.choice(METHODS) if rng.random() < 0.4 else 'ma', rng.choice([[1, 'a'], {'k': 1}, [], [i]]), rng.choice(ids)]]
        else:
            elems = [[rng.choice(METHODS), rng.choice([[1], {'z': 2}, [i, 5]]), q + 1] for q in range(rng.randint(2, 3))]
        return ['call', i, ep, elems]

    def an_add(i):
        ep = 'ep1' if rng.random() < 0.7 else 'ep2'
        return ['add', i, ep, 'ma' if rng.random() < 0.6 else 'mb', rng.choice(['result', 'error', 'callback']), rng.random() < 0.25]

    for _ in range(ctx.pick(1200, 60000)):
        setup = rng.choice(CONCURRENT_SETUPS)
        n = len(setup)
        first = list(range(n))
        rng.shuffle(first)
        ops = [['start', i, rng.choice(['with', 'start'])] for i in first]
        for i in range(n):
            if rng.random() < 0.8:
                ops.append(an_add(i))
        for _ in range(rng.randint(3, 9)):
            i = rng.randrange(n)
            r = rng.random()
            if r < 0.5:
                ops.append(a_call(i))
            elif r < 0.72:
                ops.append(an_add(i))
            elif r < 0.82:
                ops.append(['stop', i])
            elif r < 0.90:
                ops.append(['reset', i])
            elif r < 0.95:
                ops.append(['start', i, rng.choice(['with', 'start'])])
            else:
                ops.append(['remove', i, rng.choice(ENDPOINTS), rng.choice(METHODS)])
        if ops[-1][0] != 'call':
            ops.append(a_call(rng.randrange(n)))
        yield 'concurrent', dict(setup=setup, ops=ops)
    # crafted: the same pair patched on every mocker, calls through each, one stopped / reset / restarted while the others go on
    for setup in CONCURRENT_SETUPS:
        n = len(setup)
        for form in ('with', 'start'):
            for ender in ('stop', 'reset'):
                for victim in range(n):
                    other = (victim + 1) % n
                    ops = [['start', i, form] for i in range(n)] + [['add', i, 'ep1', 'ma', 'result', False] for i in range(n)]
                    ops += [['call', i, 'ep1', [['ma', [i, 'p'], i + 1]]] for i in range(n)] + [['call', other, 'ep1', [['ma', {'k': 9}, 7]]]]
                    ops += [[ender, victim], ['call', other, 'ep1', [['ma', [5], 5]]]]
                    if ender == 'stop':
                        ops += [['start', victim, form], ['add', victim, 'ep1', 'ma', 'callback', False],
                                ['call', victim, 'ep1', [['ma', [6], 6], ['ma', [7], 7]]], ['call', other, 'ep1', [['ma', [8], 8]]]]
                    yield 'concurrent', dict(setup=setup, ops=ops)
        # different pairs on each mocker: nothing is shared to begin with
        ops = [['start', i, 'with'] for i in range(n)] + [['add', i, ENDPOINTS[i % 2], METHODS[(i // 2) % 2], 'result', False] for i in range(n)]
        ops += [['call', i, ENDPOINTS[i % 2], [[METHODS[(i // 2) % 2], [i], 1]]] for i in range(n)]
        ops += [['stop', i] for i in reversed(range(n))]
        yield 'concurrent', dict(setup=setup, ops=ops)
    for outer in ('requests', 'aiohttp'):
        for same_pair in (True, False):
            for stop_first in ('inner', 'outer'):
                for url in URLS[:ctx.pick(2, 4)]:
                    yield 'concurrent_backends', dict(outer=outer, same_pair=same_pair, stop_first=stop_first, url=url)


FIXTURE_SESSION = r'''
import json, os
import pytest
import pjrpc
from pjrpc.client.backend import requests as rq

REPORT = os.environ['VMON_C20_REPORT']
URL = 'http://zq7-no-such-host.invalid/rpc'


def note(key, value):
    data = json.load(open(REPORT)) if os.path.exists(REPORT) else {}
    data[key] = value
    json.dump(data, open(REPORT, 'w'))


def outcome(fn):
    try:
        return ['ret', fn()]
    except pjrpc.exceptions.JsonRpcError as e:
        return ['rpc-error', e.code, e.message]
    except BaseException as e:
        return ['exc', type(e).__name__]


def test_1_requests_fixture(pjrpc_requests_mocker):
    m = pjrpc_requests_mocker
    m.add(URL, 'ma', result={'v': VALUE})
    m.add(URL, 'mb', error=pjrpc.exceptions.JsonRpcError(code=ECODE, message='cfg'))
    c = rq.Client(URL)
    note('r.call', outcome(lambda: c.call('ma', 1, 2)))
    note('r.error', outcome(lambda: c.call('mb')))
    note('r.unpatched-method', outcome(lambda: c.call('mz')))
    note('r.batch', outcome(lambda: list(c.batch.add('ma', 3).add('ma', x=4).call())))
    calls = m.calls[URL][('2.0', 'ma')]
    note('r.recorded', [[list(c_.args), dict(c_.kwargs)] for c_ in calls.call_args_list])


def test_2_after_the_fixture_is_gone():
    # the fixture of the previous test has been torn down: nothing is patched any more, the real transport is used
    c = rq.Client(URL)
    note('after.call', outcome(lambda: c.call('ma', 1)))


def test_3_aiohttp_fixture(pjrpc_aiohttp_mocker):
    import asyncio
    from pjrpc.client.backend import aiohttp as ah
    m = pjrpc_aiohttp_mocker
    m.add(URL, 'ma', result=[VALUE])

    async def go():
        c = ah.Client(URL)
        try:
            return await c.call('ma', 5)
        finally:
            await c.close()
    note('a.call', outcome(lambda: asyncio.new_event_loop().run_until_complete(go())))
    note('a.recorded', [[list(c_.args), dict(c_.kwargs)] for c_ in m.calls[URL][('2.0', 'ma')].call_args_list])


def test_4_both_fixtures(pjrpc_requests_mocker, pjrpc_aiohttp_mocker):
    pjrpc_requests_mocker.add(URL, 'ma', result='from-requests-mocker')
    pjrpc_aiohttp_mocker.add(URL, 'ma', result='from-aiohttp-mocker')
    note('both.requests', outcome(lambda: rq.Client(URL).call('ma')))
    note('both.requests-recorded-by-aiohttp-mocker', len(pjrpc_aiohttp_mocker.calls.get(URL, {})))
'''


def run_fixtures(ctx, value, ecode):
    """the plugin's pytest fixtures in a real pytest session (a subprocess): what the tests inside it observed comes back
    through a report file and is judged here"""
    import os
    import subprocess
    import tempfile
    from ..core import REPO
    d = tempfile.mkdtemp(prefix='vmon-c20-', dir='/var/tmp')
    try:
        with open(os.path.join(d, 'test_fixture_session.py'), 'w') as f:
            f.write(FIXTURE_SESSION.replace('VALUE', repr(value)).replace('ECODE', repr(ecode)))
        report = os.path.join(d, 'report.json')
        env = dict(os.environ, VMON_C20_REPORT=report, PYTHONPATH=REPO, PYTHONDONTWRITEBYTECODE='1')
        r = subprocess.run([os.environ.get('VERIF_PY', '/venv/bin/python'), '-m', 'pytest', '-q', '-p', 'no:cacheprovider', '-p',
                            'pjrpc.client.integrations.pytest', '--timeout=120', 'test_fixture_session.py'], cwd=d, env=env,
                           capture_output=True, text=True, timeout=300)
        rep = json.load(open(report)) if os.path.exists(report) else {}
    except Exception as e:
        ctx.skip(f'fixture-session-could-not-run:{type(e).__name__}')
        return
    finally:
        import shutil
        shutil.rmtree(d, ignore_errors=True)
    ctx.hit('fixtures:sessions')
    cls = ('fixtures', json.dumps(value), ecode)
    want = {
        'r.call': ['ret', {'v': value}], 'r.error': ['rpc-error', ecode, 'cfg'], 'r.unpatched-method': ['rpc-error', -32601, 'Method not found'],
        'r.batch': ['ret', [{'v': value}, {'v': value}]], 'r.recorded': [[[1, 2], {}], [[3], {}], [[], {'x': 4}]],
        'a.call': ['ret', [value]], 'a.recorded': [[[5], {}]],
        'both.requests': ['ret', 'from-requests-mocker'], 'both.requests-recorded-by-aiohttp-mocker': 0,
    }
    tail = r.stdout.strip().splitlines()[-3:]
    for key, w in want.items():
        if key not in rep:
            ctx.violation(f'fixture-session:nothing-observed:{key.split(".")[0]}', 'fixtures', cls, missing=key, pytest_tail=tail, report=rep)
            return
        if rep[key] != w:
            ctx.violation(f'fixture-session:{key}-differs-from-the-configured-answer', 'fixtures', cls, expected=w, observed=rep[key], pytest_tail=tail)
            return
    after = rep.get('after.call')
    if after is None or after[0] != 'exc':
        # no patch is alive any more: the call has to go to the real transport (and fail to resolve the host)
        ctx.violation('fixture-session:mocker-still-answers-after-the-fixture-was-torn-down', 'fixtures', cls, observed=after, pytest_tail=tail)
        return
    ctx.ok('fixtures', cls, sample={'session': 'pytest -p pjrpc.client.integrations.pytest (4 tests)', 'observed': rep})


KINDS = {'fixtures': run_fixtures, 'history': run_history, 'backend': run_backend, 'backend_passthrough': run_backend_passthrough, 'client_error': run_client_error, 'client_calls': run_client_calls,
         'concurrent': run_concurrent, 'concurrent_backends': run_concurrent_backends}
