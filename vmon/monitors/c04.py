"""C04 - methods receive exactly the caller's arguments plus the server-side context.

Python itself is the oracle: for every generated signature a twin `g` (same signature minus the context
parameter) is called directly with the positional list / named mapping; what `g` binds (or its TypeError) is what the
real dispatcher must make of the same params for the instrumented `f`.
"""
from __future__ import annotations

import itertools
import json

import pjrpc
import pjrpc.server

from .. import strictjson, world
from ..strictjson import typed_eq

PID = 'C04'
LEVEL = 'exploration'
RULE = ('one case = one generated program: a signature of <= 3 (thorough 4) parameters over positional-only / '
        'positional-or-keyword / keyword-only / *args / **kw with or without defaults, a context parameter at one position '
        '(or none) passed by name, as first positional argument or through a view constructor, as def / async def / view '
        'method; every program is driven with all positional lists of length 0..5 and all named mappings over subsets of '
        '(parameter names + an unknown name + the context name). Each (program, params) pair is one evaluation; distinct '
        '= distinct (signature, context placement, mode, style, params); non-trivial = all of them (every pair is a '
        'different binding problem). All generated functions share one __module__ and __qualname__ on purpose. The object '
        'the server hands to dispatch(context=...) varies per call (a function of the program, so replayable): half of the '
        'calls the customary truthy request object, 7 in 16 a real but FALSY object ({}, [], (), set(), "", b"", 0, 0.0, '
        'False, an object whose __len__ is 0, an object whose __bool__ is False - fresh per call, checked by identity), '
        '1 in 16 None.')
ASSUMPTIONS = [
    'admissibility (is there any Python call that passes the context in the configured mode and binds like the twin?) is a '
    'syntactic rule independent of pjrpc; inadmissible (program, params) pairs are skipped and counted',
    'when the client names the context parameter and the signature has **kw only "never runs with a foreign context" is judged',
    'argument values are JSON scalars/containers; the twin is called with the values json.loads yields',
    'whether None is a context object or the absence of one is left open by the statement: with context=None only "never a '
    'foreign context" (and no exception / readable response) is judged for methods that designate a context, counted as unjudged',
    'a violation seen with a falsy / None context is re-evaluated once with the truthy object for its NAME only (prefix '
    '"only-when-server-context-is-falsy:" when the truthy run does not show the same mechanism); the verdict is the first run\'s',
]
SHARDS = {'quick': 4, 'thorough': 16}
TIMEOUT = {'quick': 900, 'thorough': 3600}
ANCHORS = [
    ('pjrpc/server/dispatcher.py', 'Method.bind'),
    ('pjrpc/server/dispatcher.py', 'ViewMethod.bind'),
    ('pjrpc/server/validators/base.py', 'BaseValidator.validate_method'),
    ('pjrpc/server/validators/base.py', 'BaseValidator.bind'),
    ('pjrpc/server/validators/base.py', 'BaseValidator.signature'),
]
FLOORS = {'*': {
    'accepted:PO': 50, 'accepted:PK': 500, 'accepted:KO': 100, 'accepted:VA': 50, 'accepted:VK': 50,
    'refused:PO': 50, 'refused:PK': 500, 'refused:KO': 100, 'refused:VA': 20, 'refused:VK': 20,
    'mode:none': 100, 'mode:name': 100, 'mode:positional': 50, 'mode:view': 100, 'mode:view-classmethod': 100,
    'mode:view-staticmethod': 100, 'annotations-for-the-type-checker-only': 300, 'parameter-names-the-library-uses-itself': 300,
    'style:async-wrapped': 100, 'validator:pydantic': 50, 'validator:pydantic:ignore': 20, 'validator:pydantic:allow': 20, 'validator:base-with-exclude_param': 300, 'validator:jsonschema-permissive': 300,
    'style:def': 300, 'style:async': 300, 'style:async-plain': 300, 'client-names-context': 100,
    'context-identity-checked': 500, 'dual-registration-calls': 500,
    # the kind of object the server hands over as the context (half of the calls: a real but FALSY object)
    'server-context:object': 100000, 'server-context:falsy': 50000, 'server-context:none': 5000,
    'server-context:empty-dict': 5000, 'server-context:empty-list': 5000, 'server-context:empty-tuple': 5000,
    'server-context:empty-set': 5000, 'server-context:empty-str': 5000, 'server-context:empty-bytes': 5000,
    'server-context:zero': 5000, 'server-context:zero-float': 5000, 'server-context:false': 5000,
    'server-context:len-0-object': 5000, 'server-context:bool-false-object': 5000,
    'falsy-context-identity-checked:name': 1000, 'falsy-context-identity-checked:positional': 500,
    'falsy-context-identity-checked:view': 20000,
}}

KINDS_ = ('PO', 'PK', 'KO', 'VA', 'VK')
MODULE_NAME = 'vmon_c04_programs'


class _Len0:
    """e.g. a per-connection session store nobody has written to yet: a real object whose len() is 0"""

    def __len__(self):
        return 0


class _BoolFalse:
    """e.g. a request wrapper that answers `bool(request)` with `is it authenticated`"""

    def __bool__(self):
        return False


# The server-side context is whatever object the integration hands to dispatch(): nothing says it is truthy. Every flavour
# builds a fresh object per call (identity is what is checked); 'object' is the customary truthy request object.
CONTEXT_FLAVOURS = {
    'empty-dict': dict, 'empty-list': list, 'empty-tuple': tuple, 'empty-set': set, 'empty-str': str, 'empty-bytes': bytes,
    'zero': int, 'zero-float': float, 'false': bool, 'len-0-object': _Len0, 'bool-false-object': _BoolFalse,
}
FALSY_FLAVOURS = sorted(CONTEXT_FLAVOURS)


def make_context(flavour, token):
    if flavour == 'object':
        return world.Context(token)
    if flavour == 'none':
        return None
    return CONTEXT_FLAVOURS[flavour]()


def flavour_stream(*program_args):
    """the context flavour of each successive call of one program: a function of the (replayable) case arguments only.
    Half of the calls keep the truthy object, 1 in 16 hands over None, the rest is spread over the falsy-but-real objects."""
    import random
    import zlib
    rng = random.Random(zlib.crc32(repr(program_args).encode()))
    while True:
        r = rng.randrange(16)
        yield 'object' if r < 8 else ('none' if r == 8 else rng.choice(FALSY_FLAVOURS))


def signatures(max_params):
    """all parameter lists Python accepts: PO* PK* [VA] KO* [VK]; defaults suffix-closed over PO+PK"""
    out = []
    for n_po in range(max_params + 1):
        for n_pk in range(max_params + 1 - n_po):
            for va in (0, 1):
                for n_ko in range(max_params + 1 - n_po - n_pk - va):
                    for vk in (0, 1):
                        total = n_po + n_pk + va + n_ko + vk
                        if total == 0 or total > max_params:
                            continue
                        n_pos = n_po + n_pk
                        for first_default in range(n_pos + 1):          # positions >= first_default have defaults
                            for ko_mask in range(2 ** n_ko):
                                sig = []
                                for i in range(n_pos):
                                    sig.append(['PO' if i < n_po else 'PK', i >= first_default])
                                if va:
                                    sig.append(['VA', False])
                                for j in range(n_ko):
                                    sig.append(['KO', bool(ko_mask >> j & 1)])
                                if vk:
                                    sig.append(['VK', False])
                                out.append(sig)
    out.append([])
    return out


NAME_SETS = [
    ('c', 'tx', 'x', 'ct', 'ctx_'),                           # collide textually with the context name 'ctx'
    ('method', 'context', 'params', 'request', 'name'),       # names the library uses for its own parameters
    ('self', 'cls', 'func', 'validator', 'handler'),          # (plain functions only) likewise
]


def name_params(sig, ctx_at, names=0):
    """[(name, kind, has_default, is_ctx)] ; ctx_at indexes into sig (the context is one of its parameters)"""
    out, k = [], 0
    for i, (kind, dflt) in enumerate(sig):
        if i == ctx_at:
            out.append(('ctx', kind, False, True))
        elif kind == 'VA':
            out.append(('args', kind, False, False))
        elif kind == 'VK':
            out.append(('kw', kind, False, False))
        else:
            # names chosen to collide textually with the context name 'ctx' (sub- and super-strings)
            out.append((NAME_SETS[names][k], kind, dflt, False))
            k += 1
    return out


def render(params, with_ctx, is_async, as_method, fname, first='self', annot=False):
    """annot: every parameter and the return value carry a string annotation naming something that exists for the type
    checker only (`if TYPE_CHECKING: from x import T`): binding must never need to evaluate it"""
    src = _render(params, with_ctx, is_async, as_method, fname, first)
    if not annot:
        return src
    head, body = src.split('\n', 1)
    inner = head[head.index('(') + 1:head.rindex(')')]
    parts = []
    for part in inner.split(', ') if inner else []:
        if part in ('/', '*') or (as_method and first and part == first):
            parts.append(part)
        elif '=' in part:
            n, d = part.split('=', 1)
            parts.append(f"{n}: 'Xq9OnlyForTheTypeChecker' = {d}")
        else:
            parts.append(f"{part}: 'Xq9OnlyForTheTypeChecker'")
    return f"{head[:head.index('(')]}({', '.join(parts)}) -> 'Xq9Result':\n{body}"


def _render(params, with_ctx, is_async, as_method, fname, first='self'):
    parts, star = [], False
    plist = [p for p in params if with_ctx or not p[3]]
    n_po = sum(1 for p in plist if p[1] == 'PO')
    if as_method and first:
        parts.append(first)
    po_seen = 0
    for name, kind, dflt, is_ctx in plist:
        if kind == 'PO':
            parts.append(name + (f"='d_{name}'" if dflt else ''))
            po_seen += 1
            if po_seen == n_po:
                parts.append('/')
        elif kind == 'PK':
            parts.append(name + (f"='d_{name}'" if dflt else ''))
        elif kind == 'VA':
            parts.append('*' + name)
            star = True
        elif kind == 'KO':
            if not star:
                parts.append('*')
                star = True
            parts.append(name + (f"='d_{name}'" if dflt else ''))
        else:
            parts.append('**' + name)
    # 'self' is positional-or-keyword and precedes '/', which is fine: def f(self, p0, /, ...)
    names = [p[0] for p in plist]
    rec = ', '.join(f"{n!r}: {n}" for n in names)
    ret = ', '.join(f"[{n!r}, {'list(' + n + ')' if k == 'VA' else n}]" for n, k, _, c in plist if not c)
    head = f"{'async ' if is_async else ''}def {fname}({', '.join(parts)}):"
    body = f"    LOG.append(({fname!r}, {{{rec}}}))\n    return [{ret}]"
    return head + '\n' + body


def _none_defaults(src):
    """the pydantic variant: every defaulted parameter is annotated Union[int, str] and defaults to None - a default that is not
    an instance of the annotation, as in the customary `limit: int = None`; a direct call binds it all the same"""
    import re
    head, body = src.split('\n', 1)
    head = re.sub(r"(\w+)='d_\1'", r"\1: typing.Union[int, str] = None", head)
    return head + '\n' + body


def build_program(sig, ctx_at, mode, style, annot=False, names=0, validator=None):
    """returns (namespace with f / g / LOG / View, source)"""
    params = name_params(sig, ctx_at if mode in ('name', 'positional') else -1, names)
    is_async = style in ('async', 'async-wrapped')
    src_g = render(params, False, False, False, 'g')
    if mode == 'name':
        # the same function object is also registered without a context designation: there `ctx` is an ordinary parameter
        src_g += '\n\n' + render(params, True, False, False, 'g2')
    if mode.startswith('view'):
        deco, first = {'view': ('', 'self'), 'view-classmethod': ('@classmethod', 'cls'), 'view-staticmethod': ('@staticmethod', '')}[mode]
        meth = render(params, False, is_async, True, 'f', first, annot=annot)
        if deco:
            meth = deco + '\n' + meth
        src_f = ('class View(ViewMixin):\n    def __init__(self, context=None):\n        super().__init__()\n'
                 '        VIEWS.append((self, context))\n' + '\n'.join('    ' + l for l in meth.splitlines()))
    else:
        src_f = render(params, True, is_async, False, 'f', annot=annot)
        if style == 'async-wrapped':
            # an `async def` behind an ordinary decorator: a plain callable (same signature via __wrapped__) that hands
            # out the coroutine
            src_f += ('\n\n_f_inner = f\n\ndef f(*a, **k):\n    return _f_inner(*a, **k)\n\n'
                      'f = functools.wraps(_f_inner)(f)')
    import functools
    import typing
    ns = {'LOG': [], 'VIEWS': [], 'ViewMixin': pjrpc.server.ViewMixin, '__name__': MODULE_NAME, 'functools': functools, 'typing': typing}
    if (validator or '').startswith('pydantic'):
        src_g = '\n\n'.join(_none_defaults(part) for part in src_g.split('\n\n'))
        src_f = _none_defaults(src_f)
    src = src_g + '\n\n' + src_f + '\n'
    exec(compile(src, f'<{MODULE_NAME}>', 'exec', dont_inherit=True), ns)
    return ns, src, params


def param_cases(params):
    """positional lists of length 0..5 and named mappings over every subset of names + unknown + ctx"""
    for n in range(6):
        yield [10 + i for i in range(n)]
    names = [p[0] for p in params if not p[3]] + ['ctxx', 'ctx']
    names = list(dict.fromkeys(names))
    # by-name arguments wrapped as the only element of an array: an array is positional whatever it holds
    yield [{n: f'v_{n}' for n in names[:-2]}]
    # positional VALUES that are spelled like parameter names (the context parameter's among them): values are just values
    for n in (1, 2, 3):
        yield (['ctx'] + names)[:n]
        yield list(reversed(names))[:n]
    for r in range(len(names) + 1):
        for sub in itertools.combinations(names, r):
            if not sub:
                continue          # {} is the same request as []
            yield {n: f'v_{n}' for n in sub}


def run_program(ctx, sig, ctx_at, mode, style, annot=False, names=0, validator=None):
    if annot:
        ctx.hit('annotations-for-the-type-checker-only')
    if names:
        ctx.hit('parameter-names-the-library-uses-itself')
    try:
        ns, src, params = build_program(sig, ctx_at, mode, style, annot, names, validator)
        if (validator or '').startswith('pydantic'):
            from pjrpc.server.validators import pydantic as vpd
            ctx.hit('validator:' + validator)
            # (model configuration handed through the validator - extra='ignore' / 'allow' - concerns the MODEL: an argument
            # name the signature does not have is refused by binding whatever the model would say)
            vpd.PydanticValidator(**({'extra': validator.split(':')[1]} if ':' in validator else {})).validate(ns['f'])
        elif validator == 'jsonschema':
            # the JSON-schema validator with a schema that constrains nothing: binding alone decides
            from pjrpc.server.validators import jsonschema as vjs
            ctx.hit('validator:jsonschema-permissive')
            target = ns['f'] if not mode.startswith('view') else ns['View'].__dict__['f']
            target = getattr(target, '__func__', target)
            vjs.JsonSchemaValidator().validate(target, schema={'type': 'object'})
        elif validator == 'predicate':
            # a validator built with the exclude_param option (dependency injection) whose predicate excludes nothing here: the
            # context parameter the dispatcher names is excluded all the same
            from pjrpc.server.validators import base as vbase
            ctx.hit('validator:base-with-exclude_param')
            target = ns['f'] if not mode.startswith('view') else ns['View'].__dict__['f']
            target = getattr(target, '__func__', target)
            vbase.BaseValidator(exclude_param=lambda name, annotation, default: name == 'never-a-parameter').validate(target)
    except SyntaxError as e:
        raise RuntimeError(f'generator produced invalid Python: {e}\n{sig} {ctx_at} {mode} {style}')
    is_async = style in ('async', 'async-plain', 'async-wrapped')
    disp = (pjrpc.server.AsyncDispatcher if is_async else pjrpc.server.Dispatcher)()
    try:
        if mode.startswith('view'):
            reg = pjrpc.server.MethodRegistry()
            # the view's context name goes to the constructor; it deliberately coincides with an ordinary parameter name
            # of the method (when there is one): that parameter still belongs to the caller
            ordinary = [p[0] for p in params if p[1] in ('PK', 'KO', 'PO')]
            reg.view(ns['View'], context=ordinary[0] if ordinary else 'anything')
            disp.add_methods(reg)
        elif mode == 'none':
            disp.add(ns['f'], 'f')
        else:
            disp.add(ns['f'], 'f', context='ctx', positional=(mode == 'positional'))
            if mode == 'name':
                disp.add(ns['f'], 'f2')
    except Exception as e:
        ctx.violation(f'registration-raises:{type(e).__name__}', 'registration', (repr(sig), ctx_at, mode, style),
                      source=src, exception=e)
        return
    kinds_present = {p[1] for p in params}
    ctx_kind = next((p[1] for p in params if p[3]), None)
    ctx.hit('mode:' + mode)
    ctx.hit('style:' + style)
    env = dict(ns=ns, src=src, params=params, mode=mode, style=style, is_async=is_async, disp=disp,
               kinds_present=kinds_present, ctx_kind=ctx_kind)
    flavours = flavour_stream(sig, ctx_at, mode, style, annot, names, validator)
    for case in param_cases(params):
        if (validator or '').startswith('pydantic') and any(not isinstance(v, (int, str)) for v in (case.values() if isinstance(case, dict) else case)):
            continue          # under a validating annotation only conforming values say anything about binding
        judge_call(ctx, env, 'f', ns['g'], case, designated=mode in ('name', 'positional'), flavour=next(flavours))
        if mode == 'name':
            ctx.hit('dual-registration-calls')
            judge_call(ctx, env, 'f2', ns['g2'], case, designated=False)


class _Quiet:
    """stands in for the run context when an evaluation is repeated for comparison only: nothing is counted"""

    def hit(self, *a, **k):
        pass

    ok = skip = unjudge = hit


def judge_call(ctx, env, method_name, g, case, designated, flavour='object'):
    """one (program, method name, params) evaluation. `designated`: the method was registered with a context parameter.
    `flavour`: which kind of object the server hands over as the context."""
    ctx.hit('server-context:' + ('falsy' if flavour in CONTEXT_FLAVOURS else flavour))
    if flavour in CONTEXT_FLAVOURS:
        ctx.hit('server-context:' + flavour)
    found = _evaluate(ctx, env, method_name, g, case, designated, flavour)
    if found is None:
        return
    mechanism, fam, cls, wit = found
    if flavour != 'object':
        # the verdict stands as it is; only its NAME says whether the same call misbehaves with the customary truthy context
        # object too (then the kind of context object has nothing to do with it)
        ref = _evaluate(_Quiet(), env, method_name, g, case, designated, 'object')
        if ref is None or ref[0] != mechanism:
            mechanism = f'only-when-server-context-is-{"None" if flavour == "none" else "falsy"}:{mechanism}'
    ctx.violation(mechanism, fam, cls, **wit)


def _evaluate(ctx, env, method_name, g, case, designated, flavour):
    """returns None (held / skipped / left unjudged - already counted on ctx) or the violation (mechanism, family, class, witness)"""
    ns, src, params, mode, style = env['ns'], env['src'], env['params'], env['mode'], env['style']
    is_async, disp, kinds_present, ctx_kind = env['is_async'], env['disp'], env['kinds_present'], env['ctx_kind']
    CTX = make_context(flavour, ('c04', method_name))
    client_names_ctx = isinstance(case, dict) and 'ctx' in case and designated
    # ---- the twin: what would Python bind?
    ns['LOG'].clear()
    try:
        want_ret = g(*case) if isinstance(case, list) else g(**case)
        want_locals = ns['LOG'][-1][1]
        binds = True
    except TypeError:
        binds, want_ret, want_locals = False, None, None
    va_used = bool(binds and want_locals.get('args'))
    # ---- admissibility of "g's binding + context in the configured mode"
    if designated and mode == 'name' and ctx_kind == 'PK' and va_used:
        ctx.skip('inadmissible:context-by-name-before-nonempty-*args')
        return
    ns['LOG'].clear()
    ns['VIEWS'].clear()
    text = json.dumps({'jsonrpc': '2.0', 'id': 1, 'method': method_name, 'params': case})
    cls = (src, method_name, repr(case))
    try:
        out = world.run(disp.dispatch(text, context=CTX)) if is_async else disp.dispatch(text, context=CTX)
    except Exception as e:
        return _v(f'dispatch-raises:{type(e).__name__}', 'dispatch', cls, source=src, params=case, exception=e)
    runs = [r for r in ns['LOG'] if r[0] == 'f']
    try:
        doc = strictjson.decode(out[0])
    except Exception:
        return _v('unreadable-response', 'dispatch', cls, source=src, params=case, returned=out)
    code = doc['error']['code'] if 'error' in doc else 0
    used = _used_features(params, want_locals, case) if binds else _sig_features(kinds_present)
    fam = f'{mode}:{style}:' + ('named' if isinstance(case, dict) else 'positional') + ('' if method_name == 'f' else ':undesignated-twin-registration')
    wit = dict(source=src, mode=mode, style=style, method=method_name, params=case, response=doc,
               executions=[_safe_run(r) for r in runs], twin=('binds ' + repr(want_locals)) if binds else 'TypeError',
               server_context=f'{flavour}: {CTX!r}')
    # ---- context never foreign, never client-supplied
    bad_ctx = False
    if designated:
        for r in runs:
            if 'ctx' in r[1]:
                ctx.hit('context-identity-checked')
                if flavour in CONTEXT_FLAVOURS:
                    ctx.hit('falsy-context-identity-checked:' + mode)
                if r[1]['ctx'] is not CTX:
                    bad_ctx = True
    if mode.startswith('view'):
        for v, c in ns['VIEWS']:
            ctx.hit('context-identity-checked')
            if flavour in CONTEXT_FLAVOURS:
                ctx.hit('falsy-context-identity-checked:view')
            if c is not CTX:
                bad_ctx = True
    if bad_ctx:
        return _v('context-parameter-not-the-server-context' + (':client-named-it' if client_names_ctx else ''),
                  fam, cls, **wit)
    if flavour == 'none' and (designated or mode.startswith('view')):
        # is None a context object or the absence of one? The statement does not say: only "never a foreign context" is judged
        ctx.unjudge('server-context-is-None')
        return
    if client_names_ctx:
        ctx.hit('client-names-context')
        if any(p[1] == 'VK' for p in params):
            ctx.unjudge('client-names-context-with-**kw')
            return
    if binds:
        for k in kinds_present:
            ctx.hit('accepted:' + k)
        if len(runs) != 1:
            sym = 'bindable-call-not-executed' if not runs else 'executed-more-than-once'
            return _v(f'{sym}:code{code}:uses-{used}', fam, cls, **wit)
        got = {k: v for k, v in runs[0][1].items() if designated is False or k != 'ctx'}
        if not _same_locals(got, dict(want_locals)):
            return _v(f'executed-with-different-arguments:uses-{used}', fam, cls, **wit)
        if 'result' not in doc or not typed_eq(doc['result'], _norm(want_ret)):
            return _v(f'result-differs-from-return-value:code{code}:uses-{used}', fam, cls, **wit)
        ctx.ok(fam + ':accepted', cls, sample={'source': src, 'method': method_name, 'params': case, 'response': doc})
    else:
        for k in kinds_present:
            ctx.hit('refused:' + k)
        if runs:
            return _v(f'unbindable-call-executed:sig-{used}', fam, cls, **wit)
        if code != -32602:
            return _v(f'unbindable-call-answered-code{code}:sig-{used}', fam, cls, **wit)
        ctx.ok(fam + ':refused', cls, sample={'source': src, 'method': method_name, 'params': case, 'response': doc})


def _v(mechanism, fam, cls, **wit):
    return mechanism, fam, cls, wit


def _safe_run(r):
    return [r[0], {k: (v if k != 'ctx' else f'<context {type(v).__name__}>') for k, v in r[1].items()}]


def _norm(v):
    if isinstance(v, tuple):
        return [_norm(x) for x in v]
    if isinstance(v, list):
        return [_norm(x) for x in v]
    if isinstance(v, dict):
        return {k: _norm(x) for k, x in v.items()}
    return v


def _same_locals(got, want):
    if got.keys() != want.keys():
        return False
    return all(typed_eq(_norm(got[k]), _norm(want[k])) for k in want)


def _used_features(params, want_locals, case):
    """which non-plain parameter kinds actually received a value from the caller in the twin's binding"""
    f = []
    if isinstance(case, dict) and any(p[1] == 'PO' and p[0] in case for p in params):
        return 'po-name-as-keyword'     # Python routes it into **kw; inspect.Signature.bind refuses it
    if isinstance(case, list) and case and any(p[1] == 'PO' and not p[3] for p in params):
        f.append('PO')
    if want_locals.get('args'):
        f.append('VA')
    if want_locals.get('kw'):
        f.append('VK')
    return '+'.join(f) or 'plain'


def _sig_features(kinds_present):
    return '+'.join(k for k in ('PO', 'VA', 'VK') if k in kinds_present) or 'plain'


def gen(ctx):
    deep = ctx.thorough
    k = 0
    sigs = signatures(4)
    if deep:
        five = [s for s in signatures(5) if len(s) == 5]
        sigs = sigs + ctx.rng.sample(five, min(len(five), 2500))
    for sig in sigs:
        n = len(sig)
        # (context position, mode)
        variants = [(-1, 'none'), (-1, 'view'), (-1, 'view-classmethod'), (-1, 'view-staticmethod')]
        for at in range(n):
            kind = sig[at][0]
            if kind in ('PK', 'KO'):
                variants.append((at, 'name'))
            if at == 0 and kind in ('PO', 'PK'):
                variants.append((at, 'positional'))
        for at, mode in variants:
            if at >= 0 and sig[at][1]:
                continue        # a context parameter with a default adds nothing
            for style in ('def', 'async', 'async-plain'):
                k += 1
                if style == 'async' and not mode.startswith('view') and (k // 3) % 2 == 0:
                    style = 'async-wrapped'
                names = (0, 1, 0, 2, 0, 0, 1)[k % 7]
                if names == 2 and mode.startswith('view'):
                    names = 1
                yield 'program', {'sig': sig, 'ctx_at': at, 'mode': mode, 'style': style, 'annot': k % 5 == 0, 'names': names}
                if k % 4 == 1 and style != 'async-wrapped':
                    yield 'program', {'sig': sig, 'ctx_at': at, 'mode': mode, 'style': style, 'annot': False, 'names': names,
                                      'validator': 'predicate'}
                if k % 4 == 3 and style != 'async-wrapped':
                    yield 'program', {'sig': sig, 'ctx_at': at, 'mode': mode, 'style': style, 'annot': False, 'names': names,
                                      'validator': 'jsonschema'}
                if (k % 2 == 0 and not mode.startswith('view') and style != 'async-wrapped' and all(p[0] in ('PK', 'KO') for p in sig)
                        and any(p[1] for p in sig)):
                    # the same program under the pydantic validator (kinds the known findings D4 / D18 do not involve)
                    yield 'program', {'sig': sig, 'ctx_at': at, 'mode': mode, 'style': style, 'annot': False, 'names': names,
                                      'validator': ('pydantic', 'pydantic:ignore', 'pydantic', 'pydantic:allow')[(k // 2) % 4]}


KINDS = {'program': run_program}
