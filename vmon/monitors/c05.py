"""C05 - serialise -> JSON text -> deserialise is lossless; the wire form is exact; errors come back as the class
registered for their code (else the supplied base class)."""
from __future__ import annotations

import abc
import copy
import itertools
import json

import pjrpc
import pjrpc.server
from pjrpc.common import UNSET, v20
from pjrpc.common.exceptions import JsonRpcError

from .. import strictjson
from ..gen import values
from ..strictjson import typed_eq

PID = 'C05'
LEVEL = 'exploration'
RULE = ('one case = one constructed message (request / response / error / batch request / batch response / batch-level '
        'error) taken through to_json -> json.dumps (directly and via pjrpc.JSONEncoder) -> strict decoding -> from_json '
        '-> to_json; compared field by field (ids with their type, absent vs null data, null vs missing result, element '
        'order), wire-form exactness clauses checked on the independently decoded text, exception class checked with '
        '`type(e) is expected` for registered codes, unregistered codes and a custom base class (single responses, batch '
        'elements, batch-level errors, in both orders of base-class use); plus serialise/append/extend histories on batch '
        'objects compared with a list model. Application error classes with falsy / edge codes (0, +-1, ends of the reserved '
        'ranges, beyond 32 / 64 bits; some with an empty class-level message) are declared late in the run - before that the '
        'same codes are exercised as unregistered ones - and every error route (error, response, batch element, batch-level, '
        'through the client) is repeated for them. Histories across messages: an earlier message (request / notification / '
        'response / error response / error / batch-level error / batch request / batch response; deserialised from a document, '
        'built by the constructor, or taken through the library\'s own text; params / result / data absent, null, empty or '
        'filled, nested) has every mutable object it hands out (params, result, error data, to_json() output, the batch itself) '
        'modified in place, then fresh messages of every kind - first of all those lacking the optional members - must still '
        'round-trip exactly. Distinct = distinct (message kind, constructor arguments / history).')
ASSUMPTIONS = [
    'values handed to constructors are JSON-encodable Python values (dict keys are strings)',
    'empty list, empty tuple, empty dict and None all mean "no parameters"; tuples come back as lists',
    '-0.0 and 0.0 are not distinguished',
    'what a message looks like after application code modified its containers in place is not judged, only the messages '
    'obtained afterwards are',
    'a code for which several classes were declared belongs to the latest declaration; subclasses of a class that declares a '
    'code (which would silently take the code over) are not declared',
]
SHARDS = {'quick': 4, 'thorough': 16}
TIMEOUT = {'quick': 900, 'thorough': 3600}
ANCHORS = [
    ('pjrpc/common/v20.py', 'Request.to_json'), ('pjrpc/common/v20.py', 'Request.from_json'),
    ('pjrpc/common/v20.py', 'Response.to_json'), ('pjrpc/common/v20.py', 'Response.from_json'),
    ('pjrpc/common/v20.py', 'BatchRequest.to_json'), ('pjrpc/common/v20.py', 'BatchRequest.from_json'),
    ('pjrpc/common/v20.py', 'BatchResponse.to_json'), ('pjrpc/common/v20.py', 'BatchResponse.from_json'),
    ('pjrpc/common/exceptions.py', 'JsonRpcError.to_json'), ('pjrpc/common/exceptions.py', 'JsonRpcError.from_json'),
    ('pjrpc/common/exceptions.py', 'JsonRpcError.get_error_cls'), ('pjrpc/common/common.py', 'JSONEncoder.default'),
]
FLOORS = {'*': {
    'request': 500, 'response:success': 300, 'response:error': 300, 'error': 200, 'batch-request': 100,
    'batch-response': 100, 'batch-level-error': 20, 'result:null': 5, 'data:null': 5, 'data:absent': 5, 'code:0': 5,
    'message:empty': 5, 'class:registered': 50, 'class:unregistered-default-base': 50, 'class:unregistered-custom-base': 50,
    'class:custom-base-in-batch': 20, 'encoder:nested': 20, 'history': 200, 'batch:len0': 2, 'via-client': 200, 'via-client:null-id-elements': 50, 'via-client:batch-level-error': 50,
    'class:registered-edge-code': 500, 'class:registered-code-0': 50, 'survivor': 300, 'survivor:containers-modified': 3000,
    **{f'survivor:{k}': 30 for k in ('request', 'notification', 'response', 'response-error', 'error', 'error-unregistered', 'batch-level')},
    'survivor:batch-request': 4, 'survivor:batch-response': 4,
}}

ABSENT = '__absent__'


class C5Typed1(JsonRpcError):
    code = 71001
    message = 'c5 typed one'


class C5Typed2(JsonRpcError):
    code = 71002
    message = 'c5 typed two'


class C5Typed3(JsonRpcError):
    """a user class that (mis)uses the code/message pattern for data as well: the class attribute must never leak into
    a deserialised error that came without a data member"""
    code = 71003
    message = 'c5 typed three'
    data = {'class-level': 'default'}


class AbcErrorMeta(type(JsonRpcError), abc.ABCMeta):
    """a metaclass derived from the library's error metaclass (here: to combine it with ABCMeta)"""


class C5AbcTyped(JsonRpcError, metaclass=AbcErrorMeta):
    code = 71004
    message = 'c5 typed, own metaclass'


class C5AfterAbc(JsonRpcError):
    """an ordinary typed error declared AFTER a class with a derived metaclass exists"""
    code = 71005
    message = 'c5 typed five'


class AbcBase(JsonRpcError, metaclass=AbcErrorMeta):
    """a user-supplied base class (no code of its own) created through the derived metaclass"""


class C5Redefined(JsonRpcError):
    """first definition (a module that gets reloaded, an application class that is later refined)"""
    code = 71006
    message = 'c5 typed six'


_C5RedefinedFirst = C5Redefined


class C5Redefined(JsonRpcError):      # noqa: F811 - the later declaration of a code is the one in force
    code = 71006
    message = 'c5 typed six'


class CustomBase(JsonRpcError):
    """a user-supplied base class (no code of its own)"""


class OtherBase(JsonRpcError):
    """a second user-supplied base class"""


REGISTERED = {
    -32700: pjrpc.exceptions.ParseError, -32600: pjrpc.exceptions.InvalidRequestError,
    -32601: pjrpc.exceptions.MethodNotFoundError, -32602: pjrpc.exceptions.InvalidParamsError,
    -32603: pjrpc.exceptions.InternalError, -32000: pjrpc.exceptions.ServerError,
    71001: C5Typed1, 71002: C5Typed2, 71003: C5Typed3, 71004: C5AbcTyped, 71005: C5AfterAbc, 71006: C5Redefined,
}
UNREGISTERED = [0, 1, -1, 2, 42, -32099, -32001, 2 ** 40, -(2 ** 40), 4711, 32000]
BASES = {'default': JsonRpcError, 'custom': CustomBase, 'other': OtherBase, 'abc-meta': AbcBase}
IDS = [0, 1, -1, 7, 2 ** 64, -(2 ** 63), '', '1', 'a', 'é', '\U0001F600', None]


# Application error classes for FALSY and otherwise edgy codes: zero, +-1, the ends of the reserved ranges, codes beyond 32 / 64
# bits. They are declared late (on the first case that needs them, see ensure_edge_classes), so that the bulk of the run still
# sees 0, +-1, ... as UNREGISTERED codes, and so that a class declared after errors with its code were already deserialised is
# exercised as well. Some carry a falsy class-level message.
EDGE_CODES = {0: 'unspecified failure', 1: 'one', -1: '', 2 ** 31: 'beyond int32', -(2 ** 63): 'int64 min', 2 ** 64: 'beyond uint64',
              -32768: 'reserved range, lower end', -32099: 'server error range, lower end', -32001: '', 32000: 'mirror of -32000'}
EDGE_CLASSES = {}


def ensure_edge_classes():
    for n, (code, message) in enumerate(EDGE_CODES.items()):
        if code not in EDGE_CLASSES:
            EDGE_CLASSES[code] = type(JsonRpcError)(f'C5Edge{n}', (JsonRpcError,), {'code': code, 'message': message, '__doc__': 'edge code'})
            REGISTERED[code] = EDGE_CLASSES[code]


class Bad(Exception):
    def __init__(self, mech, **w):
        super().__init__(mech)
        self.mech = mech
        self.w = w


def norm(v):
    if isinstance(v, tuple):
        return [norm(x) for x in v]
    if isinstance(v, list):
        return [norm(x) for x in v]
    if isinstance(v, dict):
        return {k: norm(x) for k, x in v.items()}
    return v


def no_params(p):
    return p is None or (isinstance(p, (list, tuple, dict)) and len(p) == 0)


def texts(msg):
    """(wire form, decoded text via to_json, decoded text via JSONEncoder)"""
    w1 = msg.to_json()
    t1 = json.dumps(w1)
    t2 = json.dumps(msg, cls=pjrpc.JSONEncoder)
    try:
        d1, d2 = strictjson.decode(t1), strictjson.decode(t2)
    except strictjson.NotJson as e:
        raise Bad('serialised-text-is-not-json', text=t1, error=str(e))
    if not typed_eq(d1, d2):
        raise Bad('JSONEncoder-differs-from-to_json', via_to_json=t1, via_encoder=t2)
    # the server-side encoder class (what a dispatcher is configured with) is a library JSON encoder as well, also for
    # messages nested inside other values
    try:
        t3 = json.dumps({'wrapped': [msg]}, cls=pjrpc.server.JSONEncoder)
        d3 = strictjson.decode(t3)
    except Exception as e:
        raise Bad(f'server-JSONEncoder-raises:{type(e).__name__}', via_to_json=t1)
    if not typed_eq(d3, {'wrapped': [d1]}):
        raise Bad('server-JSONEncoder-differs-from-to_json', via_to_json=t1, via_encoder=t3)
    return w1, t1, d1


def make_error(spec):
    """spec = [code, message, data] -> error instance (constructed the way an application would)"""
    code, message, data = spec
    cls = REGISTERED.get(code)
    d = UNSET if data == ABSENT else data
    if cls is not None and message == cls.message:
        return cls(data=d)
    return JsonRpcError(code=code, message=message, data=d)


def check_error_obj(ctx, doc, spec, where):
    code, message, data = spec
    if not isinstance(doc, dict):
        raise Bad(f'{where}:error-not-object', doc=doc)
    if not typed_eq(doc.get('code'), code) or not typed_eq(doc.get('message'), message):
        raise Bad(f'{where}:error-code-or-message-changed-on-wire', doc=doc, spec=spec)
    if ('data' in doc) != (data != ABSENT):
        raise Bad(f'{where}:error-data-presence-changed-on-wire:' + ('dropped' if data != ABSENT else 'added'), doc=doc, spec=spec)
    if data != ABSENT and not typed_eq(doc['data'], norm(data)):
        raise Bad(f'{where}:error-data-changed-on-wire', doc=doc, spec=spec)
    if set(doc) - {'code', 'message', 'data'}:
        raise Bad(f'{where}:error-extra-members', doc=doc)
    ctx.hit('data:absent' if data == ABSENT else ('data:null' if data is None else 'data:other'))
    if code == 0:
        ctx.hit('code:0')
    if message == '':
        ctx.hit('message:empty')


def check_error_back(ctx, err, spec, base, where):
    code, message, data = spec
    if not isinstance(err, JsonRpcError):
        raise Bad(f'{where}:error-not-an-exception', got=repr(err))
    if not typed_eq(err.code, code) or not typed_eq(err.message, message):
        raise Bad(f'{where}:error-code-or-message-lost', got=repr(err), spec=spec)
    if data == ABSENT:
        if err.data is not UNSET:
            raise Bad(f'{where}:absent-data-became-{type(err.data).__name__}', got=repr(err), spec=spec)
    else:
        if err.data is UNSET:
            raise Bad(f'{where}:data-lost:{type(data).__name__}', got=repr(err), spec=spec)
        if not typed_eq(norm(err.data), norm(data)):
            raise Bad(f'{where}:data-changed', got=repr(err), spec=spec)
    want = REGISTERED.get(code, BASES[base])
    if code in REGISTERED:
        ctx.hit('class:registered')
    else:
        ctx.hit(f'class:unregistered-{base}-base' if base in ('default', 'custom') else 'class:unregistered-other-base')
    if code in EDGE_CLASSES:
        ctx.hit('class:registered-edge-code')
        if not code:
            ctx.hit('class:registered-code-0')
    if type(err) is not want:
        kind = ('registered-code:falsy-or-edge-code' if code in EDGE_CLASSES else 'registered-code') if code in REGISTERED else ('unregistered-code-with-default-base' if base == 'default' else 'unregistered-code-with-user-base')
        raise Bad(f'{where}:wrong-error-class:{kind}', got=type(err).__name__, expected=want.__name__, spec=spec)


# ---- case kinds -----------------------------------------------------------------------------------

def decode_params(p):
    tag, payload = p
    return {'none': None, 'list': payload, 'tuple': tuple(payload or ()), 'dict': payload}[tag]


def encode_params(p):
    if p is None:
        return ['none', None]
    if isinstance(p, tuple):
        return ['tuple', list(p)]
    return ['dict' if isinstance(p, dict) else 'list', p]


def request_roundtrip(ctx, method, p, id_):
    msg = v20.Request(method, p, id_)
    w1, t1, d1 = texts(msg)
    if not isinstance(d1, dict) or d1.get('jsonrpc') != '2.0' or d1.get('method') != method:
        raise Bad('request:wire-jsonrpc-or-method-wrong', text=t1)
    if ('id' in d1) != (id_ is not None):
        raise Bad('request:wire-id-presence-wrong:' + ('notification-has-id' if id_ is None else 'call-lacks-id'), text=t1)
    if id_ is not None and not typed_eq(d1['id'], id_):
        raise Bad('request:wire-id-changed', text=t1)
    if ('params' in d1) != (not no_params(p)):
        raise Bad('request:wire-params-presence-wrong:' + ('empty-params-emitted' if no_params(p) else 'params-dropped'), text=t1)
    if 'params' in d1 and not typed_eq(d1['params'], norm(p)):
        raise Bad('request:wire-params-changed', text=t1)
    if set(d1) - {'jsonrpc', 'id', 'method', 'params'}:
        raise Bad('request:wire-extra-members', text=t1)
    m2 = v20.Request.from_json(json.loads(t1))
    if m2.method != method or not typed_eq(m2.id, id_) or m2.is_notification != (id_ is None):
        raise Bad('request:method-or-id-lost', back=repr(m2))
    if no_params(p):
        if not no_params(m2.params):
            raise Bad('request:no-params-became-params', back=repr(m2))
    elif not typed_eq(norm(m2.params), norm(p)):
        raise Bad('request:params-changed', back=repr(m2))
    w2 = m2.to_json()
    if not typed_eq(norm(w1), norm(w2)):
        raise Bad('request:second-serialisation-differs', first=w1, second=w2)
    return t1


def run_request(ctx, method, params, id):
    p = decode_params(params)
    cls = ('request', method, repr(params), repr(id))
    try:
        t1 = request_roundtrip(ctx, method, p, id)
    except Bad as b:
        ctx.violation(b.mech, 'request', cls, method=method, params=params, id=id, **b.w)
        return
    except Exception as e:
        ctx.violation(f'request:roundtrip-raises:{type(e).__name__}', 'request', cls, method=method, params=params, id=id, exception=e)
        return
    ctx.hit('request')
    ctx.ok('request:' + params[0] + (':notification' if id is None else ''), cls, sample={'message': 'Request', 'args': [method, params, id], 'wire': t1})


def response_roundtrip(ctx, id_, result, err_spec, base):
    if err_spec is None:
        msg = v20.Response(id_, result=result)
    else:
        msg = v20.Response(id_, error=make_error(err_spec))
    w1, t1, d1 = texts(msg)
    check_response_doc(ctx, d1, id_, result, err_spec, t1)
    m2 = v20.Response.from_json(json.loads(t1), error_cls=BASES[base])
    check_response_back(ctx, m2, id_, result, err_spec, base, 'response')
    w2 = m2.to_json()
    if not typed_eq(norm(w1), norm(w2)):
        raise Bad('response:second-serialisation-differs', first=w1, second=w2)
    return t1


def check_response_doc(ctx, d1, id_, result, err_spec, t1):
    if not isinstance(d1, dict) or d1.get('jsonrpc') != '2.0':
        raise Bad('response:wire-jsonrpc-wrong', text=t1)
    if 'id' not in d1 or not typed_eq(d1['id'], id_):
        raise Bad('response:wire-id-wrong', text=t1)
    if ('result' in d1) == ('error' in d1):
        raise Bad('response:wire-not-exactly-one-of-result-error:' + ('both' if 'result' in d1 else 'neither'), text=t1,
                  result_was=repr(result) if err_spec is None else '<error response>')
    if err_spec is None:
        if 'result' not in d1:
            raise Bad('response:wire-result-missing', text=t1)
        if not typed_eq(d1['result'], norm(result)):
            raise Bad('response:wire-result-changed', text=t1)
        if result is None:
            ctx.hit('result:null')
    else:
        if 'error' not in d1:
            raise Bad('response:wire-error-missing', text=t1)
        check_error_obj(ctx, d1['error'], err_spec, 'response')
    if set(d1) - {'jsonrpc', 'id', 'result', 'error'}:
        raise Bad('response:wire-extra-members', text=t1)


def check_response_back(ctx, m2, id_, result, err_spec, base, where):
    if not typed_eq(m2.id, id_):
        raise Bad(f'{where}:id-lost', back=repr(m2))
    if err_spec is None:
        if not m2.is_success or m2.is_error:
            raise Bad(f'{where}:success-became-error', back=repr(m2))
        if not typed_eq(norm(m2.result), norm(result)):
            raise Bad(f'{where}:result-changed:' + type(result).__name__, back=repr(m2))
    else:
        if m2.is_success or not m2.is_error:
            raise Bad(f'{where}:error-became-success', back=repr(m2))
        check_error_back(ctx, m2.error, err_spec, base, where)
        try:
            m2.result
        except JsonRpcError as e:
            if e is not m2.error:
                raise Bad(f'{where}:result-raises-a-different-error-object')
        else:
            raise Bad(f'{where}:result-of-error-response-does-not-raise')


def run_response(ctx, id, result, error, base):
    cls = ('response', repr(id), repr(result), repr(error), base)
    try:
        t1 = response_roundtrip(ctx, id, result, error, base)
    except Bad as b:
        ctx.violation(b.mech, 'response', cls, id=id, result=result, error=error, base=base, **b.w)
        return
    except Exception as e:
        ctx.violation(f'response:roundtrip-raises:{type(e).__name__}', 'response', cls, id=id, result=result, error=error, exception=e)
        return
    ctx.hit('response:success' if error is None else 'response:error')
    ctx.ok('response:' + ('success' if error is None else 'error'), cls,
           sample={'message': 'Response', 'id': id, 'result': result, 'error': error, 'error_cls': base, 'wire': t1})


def error_roundtrip(ctx, error, base):
    e = make_error(error)
    w1, t1, d1 = texts(e)
    check_error_obj(ctx, d1, error, 'error')
    e2 = BASES[base].from_json(json.loads(t1))
    check_error_back(ctx, e2, error, base, 'error')
    if not typed_eq(norm(w1), norm(e2.to_json())):
        raise Bad('error:second-serialisation-differs', first=w1, second=e2.to_json())
    nested = json.dumps({'wrapped': [e, {'deep': v20.Request('m', [1], 1)}]}, cls=pjrpc.JSONEncoder)
    if not typed_eq(strictjson.decode(nested), {'wrapped': [norm(w1), {'deep': {'jsonrpc': '2.0', 'method': 'm', 'id': 1, 'params': [1]}}]}):
        raise Bad('error:nested-encoding-differs', nested=nested)
    ctx.hit('encoder:nested')
    return t1


def run_error(ctx, error, base):
    cls = ('error', repr(error), base)
    try:
        t1 = error_roundtrip(ctx, error, base)
    except Bad as b:
        ctx.violation(b.mech, 'error', cls, error=error, base=base, **b.w)
        return
    except Exception as ex:
        ctx.violation(f'error:roundtrip-raises:{type(ex).__name__}', 'error', cls, error=error, base=base, exception=ex)
        return
    ctx.hit('error')
    ctx.ok('error', cls, sample={'message': 'JsonRpcError', 'spec': error, 'error_cls': base, 'wire': t1})


def batch_request_roundtrip(ctx, items):
    reqs = [v20.Request(m, decode_params(p), i) for m, p, i in items]
    msg = v20.BatchRequest(*reqs)
    w1, t1, d1 = texts(msg)
    if not isinstance(d1, list) or len(d1) != len(items):
        raise Bad('batch-request:wire-length-wrong', text=t1)
    for (m, p, i), el in zip(items, d1):
        if el.get('method') != m or ('id' in el) != (i is not None) or (i is not None and not typed_eq(el['id'], i)):
            raise Bad('batch-request:wire-element-order-or-identity-wrong', text=t1)
        pp = decode_params(p)
        if ('params' in el) != (not no_params(pp)) or ('params' in el and not typed_eq(el['params'], norm(pp))):
            raise Bad('batch-request:wire-element-params-wrong', text=t1)
    if not items:
        return None
    m2 = v20.BatchRequest.from_json(json.loads(t1))
    if len(m2) != len(items):
        raise Bad('batch-request:length-changed', back=repr(m2))
    for (m, p, i), r in zip(items, m2):
        pp = decode_params(p)
        if r.method != m or not typed_eq(r.id, i) or (no_params(pp) != no_params(r.params)) or \
                (not no_params(pp) and not typed_eq(norm(r.params), norm(pp))):
            raise Bad('batch-request:element-changed-or-reordered', back=repr(m2))
    if not typed_eq(norm(w1), norm(m2.to_json())):
        raise Bad('batch-request:second-serialisation-differs')
    if msg.is_notification != all(i is None for _, _, i in items):
        raise Bad('batch-request:is_notification-wrong')
    return t1


def run_batch_request(ctx, items):
    cls = ('batch-request', repr(items))
    try:
        t1 = batch_request_roundtrip(ctx, items)
        if not items:
            ctx.hit('batch:len0')
            ctx.ok('batch-request:empty', cls)
            return
    except Bad as b:
        ctx.violation(b.mech, 'batch-request', cls, items=items, **b.w)
        return
    except Exception as e:
        ctx.violation(f'batch-request:roundtrip-raises:{type(e).__name__}', 'batch-request', cls, items=items, exception=e)
        return
    ctx.hit('batch-request')
    ctx.ok(f'batch-request:len{min(len(items), 5)}', cls, sample={'message': 'BatchRequest', 'items': items, 'wire': t1})


def batch_response_roundtrip(ctx, items, base):
    resps = [v20.Response(i, result=r) if e is None else v20.Response(i, error=make_error(e)) for i, r, e in items]
    msg = v20.BatchResponse(*resps)
    w1, t1, d1 = texts(msg)
    if not isinstance(d1, list) or len(d1) != len(items):
        raise Bad('batch-response:wire-length-wrong', text=t1)
    for (i, r, e), el in zip(items, d1):
        check_response_doc(ctx, el, i, r, e, t1)
    m2 = v20.BatchResponse.from_json(json.loads(t1), error_cls=BASES[base])
    if len(m2) != len(items) or not m2.is_success:
        raise Bad('batch-response:length-or-status-changed', back=repr(m2))
    for (i, r, e), back in zip(items, m2):
        check_response_back(ctx, back, i, r, e, base, 'batch-response-element')
        if e is not None and base != 'default' and e[0] not in REGISTERED:
            ctx.hit('class:custom-base-in-batch')
    if not typed_eq(norm(w1), norm(m2.to_json())):
        raise Bad('batch-response:second-serialisation-differs')
    if m2.has_error != any(e is not None for _, _, e in items):
        raise Bad('batch-response:has_error-wrong')
    if not any(e is not None for _, _, e in items):
        if not typed_eq(norm(list(m2.result)), norm([r for _, r, _ in items])):
            raise Bad('batch-response:result-tuple-wrong', got=repr(m2.result))
    return t1


def run_batch_response(ctx, items, base):
    """items: [id, result, error-spec-or-None]"""
    cls = ('batch-response', repr(items), base)
    try:
        t1 = batch_response_roundtrip(ctx, items, base)
        if not items:
            ctx.hit('batch:len0')
    except Bad as b:
        ctx.violation(b.mech, 'batch-response', cls, items=items, base=base, **b.w)
        return
    except Exception as ex:
        ctx.violation(f'batch-response:roundtrip-raises:{type(ex).__name__}', 'batch-response', cls, items=items, base=base, exception=ex)
        return
    ctx.hit('batch-response')
    ctx.ok(f'batch-response:len{min(len(items), 5)}', cls, sample={'message': 'BatchResponse', 'items': items, 'error_cls': base, 'wire': t1})


def batch_level_roundtrip(ctx, error, base):
    msg = v20.BatchResponse(error=make_error(error))
    w1, t1, d1 = texts(msg)
    if not isinstance(d1, dict) or d1.get('jsonrpc') != '2.0' or 'id' not in d1 or d1['id'] is not None or 'result' in d1:
        raise Bad('batch-level:wire-form-wrong', text=t1)
    check_error_obj(ctx, d1.get('error'), error, 'batch-level')
    if set(d1) - {'jsonrpc', 'id', 'error'}:
        raise Bad('batch-level:wire-extra-members', text=t1)
    m2 = v20.BatchResponse.from_json(json.loads(t1), error_cls=BASES[base])
    if m2.is_success or len(m2) != 0:
        raise Bad('batch-level:error-became-success', back=repr(m2))
    check_error_back(ctx, m2.error, error, base, 'batch-level')
    try:
        m2.result
    except JsonRpcError as e:
        if e is not m2.error:
            raise Bad('batch-level:result-raises-a-different-error')
    else:
        raise Bad('batch-level:result-does-not-raise')
    if not typed_eq(norm(w1), norm(m2.to_json())):
        raise Bad('batch-level:second-serialisation-differs')
    return t1


def run_batch_level(ctx, error, base):
    cls = ('batch-level', repr(error), base)
    try:
        t1 = batch_level_roundtrip(ctx, error, base)
    except Bad as b:
        ctx.violation(b.mech, 'batch-level', cls, error=error, base=base, **b.w)
        return
    except Exception as ex:
        ctx.violation(f'batch-level:roundtrip-raises:{type(ex).__name__}', 'batch-level', cls, error=error, base=base, exception=ex)
        return
    ctx.hit('batch-level-error')
    ctx.ok('batch-level-error', cls, sample={'message': 'BatchResponse(error=...)', 'spec': error, 'error_cls': base, 'wire': t1})


def run_via_client(ctx, items, extra_null, order, strict, is_async):
    """the same messages through the real client: the batch request is serialised by the client, the scripted transport
    answers with the wire form of a batch response (in any order, possibly with null-id elements a server adds for what
    it could not identify), and what the client hands back must still hold every element that was on the wire.
    items: [id, result, error-spec-or-None]"""
    from .. import clientside
    cls = ('via-client', repr(items), repr(extra_null), tuple(order), strict, is_async)
    try:
        resps = [v20.Response(i, result=r) if e is None else v20.Response(i, error=make_error(e)) for i, r, e in items]
        nulls = [v20.Response(None, error=make_error(e)) for e in extra_null]
        wire_elems = [resps[k].to_json() for k in order] + [n.to_json() for n in nulls]
        text = json.dumps(wire_elems)
        sent = []

        def transport(request_text, is_notification, kwargs):
            sent.append(request_text)
            return text
        client = (clientside.AsyncClient if is_async else clientside.SyncClient)(transport, strict=strict)
        req = v20.BatchRequest(*[v20.Request(f'm{k}', [k], id=i) for k, (i, r, e) in enumerate(items)])
        st, out = clientside.outcome_of(lambda: client.batch.send(req), is_async)
        if st == 'exc':
            raise Bad(f'via-client:send-raises:{type(out).__name__}', exception=repr(out))
        d_req = strictjson.decode(sent[0])
        if [el.get('id') for el in d_req] != [i for i, _, _ in items]:
            raise Bad('via-client:request-ids-changed-on-the-wire', text=sent[0])
        back = [norm(r.to_json()) for r in out]
        want = [norm(w) for w in wire_elems]
        if sorted(map(json.dumps, back)) != sorted(map(json.dumps, want)):
            raise Bad('via-client:batch-response-elements-lost-or-altered' + (':null-id-element' if nulls else ''),
                      on_the_wire=want, returned=back)
        if bool(out.has_error) != (any(e is not None for _, _, e in items) or bool(extra_null)):
            raise Bad('via-client:has_error-wrong')
    except Bad as b:
        ctx.violation(b.mech, 'via-client', cls, items=items, null_id_elements=extra_null, order=order, strict=strict, **b.w)
        return
    except Exception as ex:
        ctx.violation(f'via-client:raises:{type(ex).__name__}', 'via-client', cls, items=items, exception=ex)
        return
    ctx.hit('via-client')
    if extra_null:
        ctx.hit('via-client:null-id-elements')
    ctx.ok('via-client', cls, sample={'items': items, 'null_id_elements': extra_null, 'order': order})


def run_via_client_batch_error(ctx, n_calls, n_notifs, spec, strict, is_async):
    """a batch of n calls (+ notifications) sent through the real client and answered with the wire form of a BATCH-LEVEL error
    (one error object, id null): the caller gets a batch response that IS that error and serialises to the same object"""
    from .. import clientside
    cls = ('via-client-batch-error', n_calls, n_notifs, repr(spec), strict, is_async)
    try:
        wire = v20.BatchResponse(error=make_error(spec)).to_json()
        text = json.dumps(wire)

        def transport(request_text, is_notification, kwargs):
            return text
        client = (clientside.AsyncClient if is_async else clientside.SyncClient)(transport, strict=strict)
        reqs = [v20.Request(f'm{k}', [k], id=k + 1) for k in range(n_calls)] + [v20.Request(f'n{k}', [k]) for k in range(n_notifs)]
        st, out = clientside.outcome_of(lambda: client.batch.send(v20.BatchRequest(*reqs)), is_async)
        if st == 'exc':
            raise Bad(f'via-client:batch-level-error:send-raises:{type(out).__name__}', exception=repr(out))
        if not out.is_error or out.is_success:
            raise Bad('via-client:batch-level-error-not-reported-as-one', returned=repr(out))
        if not typed_eq(norm(out.to_json()), norm(wire)):
            raise Bad('via-client:batch-level-error-altered', on_the_wire=wire, returned=out.to_json())
        check_error_obj(ctx, out.to_json().get('error'), spec, 'via-client:batch-level-error')
    except Bad as b:
        ctx.violation(b.mech, 'via-client', cls, calls=n_calls, notifications=n_notifs, error=spec, strict=strict, **b.w)
        return
    except Exception as ex:
        ctx.violation(f'via-client:batch-level-error:raises:{type(ex).__name__}', 'via-client', cls, calls=n_calls, exception=ex)
        return
    ctx.hit('via-client:batch-level-error')
    ctx.ok('via-client:batch-level-error', cls, sample={'calls': n_calls, 'notifications': n_notifs, 'error': spec})


def run_history(ctx, which, ops):
    """ops: 'ser' | ['append', id] | ['extend', [ids]] ; every serialisation must reflect the current contents"""
    cls = ('history', which, repr(ops))
    try:
        batch = v20.BatchRequest() if which == 'request' else v20.BatchResponse()
        model = []
        tag = 0

        def mk(i):
            nonlocal tag
            tag += 1
            model.append((i, tag))
            return v20.Request(f'm{tag}', [tag], i) if which == 'request' else v20.Response(i, result=tag)

        def check():
            w = batch.to_json()
            d = strictjson.decode(json.dumps(batch, cls=pjrpc.JSONEncoder))
            want = [({'jsonrpc': '2.0', 'method': f'm{t}', 'params': [t], **({'id': i} if i is not None else {})} if which == 'request'
                     else {'jsonrpc': '2.0', 'id': i, 'result': t}) for i, t in model]
            if not typed_eq(norm(w), want) or not typed_eq(d, want):
                raise Bad(f'history:{which}:serialisation-does-not-reflect-contents', wire=w, expected=want)

        for op in ops:
            if op == 'ser':
                check()
            elif op[0] == 'append':
                batch.append(mk(op[1]))
            else:
                batch.extend([mk(i) for i in op[1]])
        check()
        if len(batch) != len(model):
            raise Bad(f'history:{which}:length-wrong')
    except Bad as b:
        ctx.violation(b.mech, 'history', cls, which=which, ops=ops, **b.w)
        return
    except Exception as ex:
        ctx.violation(f'history:raises:{type(ex).__name__}', 'history', cls, which=which, ops=ops, exception=ex)
        return
    ctx.hit('history')
    ctx.ok(f'history:{which}', cls, sample={'batch': which, 'ops': ops})


def run_edge(ctx, route, args):
    """the ordinary round trips for errors whose code has an application class with a falsy / edge code (declared on first use)"""
    ensure_edge_classes()
    KINDS[route](ctx, **args)


# ---- state surviving between messages -------------------------------------------------------------------
# One message is obtained (deserialised from a text, built with the constructor, or taken through the library's own text), then
# application code modifies - IN PLACE - every mutable thing the message hands out: params list / dict, result containers, error
# data, the dict / list returned by to_json(), for batches also the batch itself (append / extend). The statement is about every
# message on its own: whatever happened to an earlier message, the NEXT messages (fresh ones, of every kind, above all those
# that lack the optional members) still round-trip exactly. Only the later messages are judged; what the modified message itself
# looks like afterwards is not (the statement says nothing about modification).
MARK = '__c5_injected__'
PAYLOADS = {'absent': ABSENT, 'none': None, 'empty-list': [], 'empty-dict': {}, 'list': [1, 'a'], 'dict': {'a': 1},
            'nested-dict': {'l': [], 'd': {}, 'n': None}, 'nested-list': [[], {}, [1]]}


def mutate_in_place(v):
    """-> number of containers modified"""
    n = 0
    if isinstance(v, list):
        for x in list(v):
            n += mutate_in_place(x)
        v.append(MARK)
        v.insert(0, MARK)
        v += [MARK]
        v.extend([[MARK]])
        return n + 1
    if isinstance(v, dict):
        for x in list(v.values()):
            n += mutate_in_place(x)
        v[MARK] = MARK
        v.update({'injected': [MARK]})
        v.setdefault('params', [MARK])
        v.setdefault('data', MARK)
        return n + 1
    return n


def _fresh(name):
    return copy.deepcopy(PAYLOADS[name])


def obtain(kind, route, payload):
    """the earlier message. route: 'wire' (a hand-written valid document is deserialised), 'ctor' (constructor), 'own-text'
    (constructor -> library encoder -> decode -> from_json). -> message or None when the combination does not exist"""
    v = _fresh(payload)
    absent = isinstance(v, str) and v == ABSENT
    env = {'jsonrpc': '2.0'}
    if kind in ('request', 'notification'):
        idm = {} if kind == 'notification' else {'id': 'p1'}
        if route == 'wire':
            if v is None:
                return None
            return v20.Request.from_json({**env, **idm, 'method': 'polluter', **({} if absent else {'params': v})})
        msg = v20.Request('polluter', id=idm.get('id')) if absent else v20.Request('polluter', v, idm.get('id'))
        return msg if route == 'ctor' else v20.Request.from_json(json.loads(json.dumps(msg, cls=pjrpc.JSONEncoder)))
    if kind == 'response':
        if absent:
            return None
        if route == 'wire':
            return v20.Response.from_json({**env, 'id': 'p1', 'result': v})
        msg = v20.Response('p1', result=v)
        return msg if route == 'ctor' else v20.Response.from_json(json.loads(json.dumps(msg, cls=pjrpc.JSONEncoder)))
    code, message = {'response-error': (5, 'm'), 'error': (71001, 'c5 typed one'), 'batch-level': (71003, 'c5 typed three'),
                     'error-unregistered': (-7, '')}[kind]
    eobj = {'code': code, 'message': message, **({} if absent else {'data': v})}
    err = make_error([code, message, ABSENT if absent else v])
    if kind == 'response-error':
        if route == 'wire':
            return v20.Response.from_json({**env, 'id': 'p1', 'error': eobj})
        msg = v20.Response('p1', error=err)
        return msg if route == 'ctor' else v20.Response.from_json(json.loads(json.dumps(msg, cls=pjrpc.JSONEncoder)))
    if kind in ('error', 'error-unregistered'):
        if route == 'wire':
            return JsonRpcError.from_json(eobj)
        return err if route == 'ctor' else CustomBase.from_json(json.loads(json.dumps(err, cls=pjrpc.JSONEncoder)))
    if kind == 'batch-level':
        if route == 'wire':
            return v20.BatchResponse.from_json({**env, 'id': None, 'error': eobj})
        msg = v20.BatchResponse(error=err)
        return msg if route == 'ctor' else v20.BatchResponse.from_json(json.loads(json.dumps(msg, cls=pjrpc.JSONEncoder)))
    raise AssertionError(kind)


def obtain_batch(which, route):
    """a batch whose elements cover every payload flavour"""
    names = list(PAYLOADS)
    if which == 'request':
        docs, reqs = [], []
        for k, nm in enumerate(names):
            v, w = _fresh(nm), _fresh(nm)
            absent = isinstance(v, str) and v == ABSENT
            idm = {} if k % 3 == 2 else {'id': f'p{k}'}
            if v is not None:
                docs.append({'jsonrpc': '2.0', **idm, 'method': f'polluter{k}', **({} if absent else {'params': w})})
            reqs.append(v20.Request(f'polluter{k}', id=idm.get('id')) if absent else v20.Request(f'polluter{k}', v, idm.get('id')))
        if route == 'wire':
            return v20.BatchRequest.from_json(docs)
        msg = v20.BatchRequest(*reqs)
        return msg if route == 'ctor' else v20.BatchRequest.from_json(json.loads(json.dumps(msg, cls=pjrpc.JSONEncoder)))
    docs, resps = [], []
    for k, nm in enumerate(names):
        v, w = _fresh(nm), _fresh(nm)
        absent = isinstance(v, str) and v == ABSENT
        if not absent:
            docs.append({'jsonrpc': '2.0', 'id': f'r{k}', 'result': w})
            resps.append(v20.Response(f'r{k}', result=v))
        v, w = _fresh(nm), _fresh(nm)
        code, message = ((5, 'm'), (71002, 'c5 typed two'), (71003, 'c5 typed three'))[k % 3]
        docs.append({'jsonrpc': '2.0', 'id': None if k == 1 else f'e{k}', 'error': {'code': code, 'message': message, **({} if absent else {'data': w})}})
        resps.append(v20.Response(None if k == 1 else f'e{k}', error=make_error([code, message, ABSENT if absent else v])))
    if route == 'wire':
        return v20.BatchResponse.from_json(docs)
    msg = v20.BatchResponse(*resps)
    return msg if route == 'ctor' else v20.BatchResponse.from_json(json.loads(json.dumps(msg, cls=pjrpc.JSONEncoder)))


def modify_everything(msg):
    """what application code may do to a message it was handed. -> number of containers modified in place"""
    n = 0
    if isinstance(msg, (v20.BatchRequest, v20.BatchResponse)):
        for el in list(msg):
            n += modify_everything(el)
        if isinstance(msg, v20.BatchRequest):
            msg.append(v20.Request('injected', [MARK], id=MARK))
            msg.extend([v20.Request('injected2'), v20.Request('injected3', {MARK: MARK}, id=MARK + '2')])
            n += 1
        elif msg.is_success:
            msg.append(v20.Response(MARK, result=[MARK]))
            msg.extend([v20.Response(MARK + '2', error=JsonRpcError(code=5, message='m', data=[MARK]))])
            n += 1
        else:
            n += mutate_in_place(msg.error.data)
    elif isinstance(msg, v20.Request):
        n += mutate_in_place(msg.params)
    elif isinstance(msg, v20.Response):
        if msg.is_success:
            n += mutate_in_place(msg.result)
        else:
            n += mutate_in_place(msg.error.data)
            n += mutate_in_place(msg.get_error().data)
    elif isinstance(msg, JsonRpcError):
        n += mutate_in_place(msg.data)
    n += mutate_in_place(msg.to_json())
    return n


def later_messages(ctx):
    """fresh messages of every kind, first of all those lacking the optional members -> first Bad or None"""
    reqs = [('ping', None, 2), ('ping', None, None), ('p', [], 3), ('p', {}, 's'), ('p', (), None), ('p', [1], 4), ('p', {'a': 1}, 5),
            ('p', [[]], 6), ('p', {'k': {}}, None)]
    resps = [(1, None, None), (7, [], None), (2, {}, None), ('s', [1], None), (0, {'a': 1}, None), (None, [[]], None), (3, {'l': [], 'd': {}}, None)]
    errs = [[5, 'm', ABSENT], [5, 'm', None], [5, 'm', []], [5, 'm', {}], [5, 'm', [1]], [-7, '', ABSENT], [-7, '', {}],
            [71001, 'c5 typed one', ABSENT], [71001, 'c5 typed one', {}], [71003, 'c5 typed three', ABSENT], [71003, 'other', []],
            [-32601, 'Method not found', ABSENT], [-32000, 'Server error', []]]
    try:
        for m, p, i in copy.deepcopy(reqs):
            request_roundtrip(ctx, m, p, i)
        for i, r, e in copy.deepcopy(resps):
            response_roundtrip(ctx, i, r, e, 'default')
        for k, spec in enumerate(copy.deepcopy(errs)):
            base = ('default', 'custom', 'other')[k % 3]
            response_roundtrip(ctx, k, None, spec, base)
            error_roundtrip(ctx, copy.deepcopy(spec), base)
            batch_level_roundtrip(ctx, copy.deepcopy(spec), base)
        batch_request_roundtrip(ctx, [[m, encode_params(p), i] for m, p, i in copy.deepcopy(reqs)])
        batch_request_roundtrip(ctx, [['a', ['none', None], 1], ['b', ['none', None], None], ['c', ['list', [1]], 3]])
        batch_request_roundtrip(ctx, [])
        batch_response_roundtrip(ctx, [[i, r, e] for i, r, e in copy.deepcopy(resps) if i is not None], 'default')
        batch_response_roundtrip(ctx, [[k, None, spec] for k, spec in enumerate(copy.deepcopy(errs))], 'custom')
        batch_response_roundtrip(ctx, [], 'default')
    except Bad as b:
        return b
    except Exception as ex:
        return Bad(f'roundtrip-raises:{type(ex).__name__}', exception=repr(ex))
    return None


def run_survivor(ctx, kind, route, payload):
    cls = ('survivor', kind, route, payload)
    desc = {'earlier_message': kind, 'obtained_by': route, 'payload': payload}
    b = later_messages(ctx)
    if b is not None:
        ctx.violation(b.mech, 'survivor', cls, phase='before anything was modified', **desc, **b.w)
        return
    try:
        msg = obtain_batch(kind[6:], route) if kind.startswith('batch-re') else obtain(kind, route, payload)
        if msg is None:
            ctx.skip('survivor:combination-does-not-exist')
            return
        touched = modify_everything(msg)
    except Exception as ex:
        # a valid message could not be obtained / modified through the public API at all
        ctx.violation(f'survivor:obtaining-or-modifying-the-earlier-message-raises:{type(ex).__name__}', 'survivor', cls, exception=ex, **desc)
        return
    if not touched:
        ctx.unjudge('survivor:nothing-mutable-handed-out')
    ctx.hit('survivor:containers-modified', touched)
    b = later_messages(ctx)
    if b is not None:
        ctx.violation(f'in-place-modification-of-an-earlier-{kind.replace("notification", "request")}-changes-later-messages:{b.mech}', 'survivor', cls,
                      phase='after the earlier message was modified in place', **desc, **b.w)
        return
    ctx.hit('survivor')
    ctx.hit('survivor:' + kind)
    ctx.ok(f'survivor:{kind}:{route}', cls, sample=desc)


# ---- generation ---------------------------------------------------------------------------------------

def error_specs(rng, full):
    codes = list(REGISTERED) + UNREGISTERED
    msgs = ['', 'm', 'Ünï©ode \U0001F600', 'x' * 200]
    datas = [ABSENT, None, 0, '', [], {}, False, 'text', {'k': [1, {'n': None}]}, 10 ** 30]
    for c in codes:
        for m in (msgs if full else msgs[:2] + [rng.choice(msgs[2:])]):
            for d in (datas if full else [ABSENT, None, rng.choice(datas[2:])]):
                yield [c, m, d]
        if c in REGISTERED:
            cls_msg = REGISTERED[c].message
            for d in (ABSENT, None, {'a': 1}):
                yield [c, cls_msg, d]


def gen(ctx):
    rng = ctx.rng
    deep = ctx.thorough
    full = True
    n = 400000 if deep else 30000
    # incl. names that are not in a Unicode normal form (decomposed accent, ligature, fullwidth, superscript, Angstrom
    # sign), names with surrounding blanks and names differing in case only: a method name is an opaque string
    methods = ['m', '', 'a.b', 'é', 'rpc.x', '\U0001F600', 'x' * 100, 'cafe\u0301', '\ufb01le.read', '\uff46\uff55\uff4c\uff4c',
               'x\u00b2', '\u212b', ' padded ', 'CamelCase', 'camelcase', '_private', '__dunder__', 'a..b', 'tab\tname']
    yield from survivor_cases()
    # requests
    for _ in range(n):
        yield 'request', {'method': rng.choice(methods), 'params': encode_params(values.params(rng)), 'id': rng.choice(IDS)}
    for v in values.EDGE_VALUES:
        for i in (1, None, ''):
            yield 'request', {'method': 'm', 'params': encode_params([v]), 'id': i}
            yield 'request', {'method': 'm', 'params': encode_params({'k': v}), 'id': i}
    # success responses
    for v in values.EDGE_VALUES:
        for i in IDS:
            yield 'response', {'id': i, 'result': v, 'error': None, 'base': 'default'}
    for _ in range(n):
        yield 'response', {'id': rng.choice(IDS), 'result': values.value(rng, 5), 'error': None, 'base': 'default'}
    # errors: alone, in responses, batch-level; every base in both orders (default first, then custom, then default again)
    specs = list(error_specs(rng, full))
    for spec in specs:
        for base in ('default', 'custom', 'other', 'abc-meta', 'default'):
            yield 'error', {'error': spec, 'base': base}
        for base in ('custom', 'default', 'other', 'abc-meta'):
            yield 'response', {'id': rng.choice(IDS), 'result': None, 'error': spec, 'base': base}
        if rng.random() < (1.0 if full else 0.3):
            for base in ('other', 'custom', 'abc-meta', 'default'):
                yield 'batch_level', {'error': spec, 'base': base}
    for _ in range(n // 2):
        spec = [rng.choice(list(REGISTERED) + UNREGISTERED), rng.choice(['', 'm', 'msg']),
                rng.choice([ABSENT, None]) if rng.random() < 0.4 else values.value(rng, 4)]
        yield 'response', {'id': rng.choice(IDS), 'result': None, 'error': spec, 'base': rng.choice(list(BASES))}
    # batches
    yield 'batch_request', {'items': []}
    yield 'batch_response', {'items': [], 'base': 'default'}
    for _ in range(n // 3):
        k = rng.randint(1, 5)
        ids = rng.sample([x for x in IDS if x is not None], k)
        items = [[rng.choice(methods), encode_params(values.params(rng)), (i if rng.random() < 0.75 else None)] for i in ids]
        yield 'batch_request', {'items': items}
        ritems = []
        for i in ids:
            if rng.random() < 0.5:
                ritems.append([i, values.value(rng, 3), None])
            else:
                ritems.append([i, None, rng.choice(specs)])
        yield 'batch_response', {'items': ritems, 'base': rng.choice(list(BASES))}
    # batch responses holding elements with a null id (what a server answers for an element it could not identify):
    # alone, next to identified elements, as error and as result
    null_err, null_res = [None, None, [-32600, 'Invalid Request', ABSENT]], [None, 'r', None]
    for ritems in ([null_err], [null_res], [null_err, null_err], [null_err, [1, 'a', None]], [[1, 'a', None], null_err],
                   [null_res, null_err, ['x', None, [5, 'm', None]]], [[0, None, [-32000, 'Server error', ABSENT]]],
                   [['', None, [1, '', ABSENT]]]):
        for base in BASES:
            yield 'batch_response', {'items': ritems, 'base': base}
    # the same batches through the real clients
    for _ in range(n // 30):
        k = rng.randint(1, 4)
        ids = rng.sample([x for x in IDS if x is not None], k)
        items = [[i, values.value(rng, 2), None] if rng.random() < 0.6 else [i, None, rng.choice(specs)] for i in ids]
        order = list(range(k))
        rng.shuffle(order)
        extra = [] if rng.random() < 0.5 else [[-32600, 'Invalid Request', ABSENT]] * rng.randint(1, 2)
        yield 'via_client', dict(items=items, extra_null=extra, order=order, strict=rng.random() < 0.7, is_async=rng.random() < 0.5)
    for n_calls in (1, 2, 3):
        for n_notifs in (0, 1, 2):
            for spec in ([-32600, 'Invalid Request', ABSENT], [-32700, 'Parse error', ABSENT], [5, 'm', [1]], [-32000, 'overloaded', None]):
                for strict in (True, False):
                    yield 'via_client_batch_error', dict(n_calls=n_calls, n_notifs=n_notifs, spec=spec, strict=strict,
                                                         is_async=bool((n_calls + n_notifs) % 2))
    # serialise / append / extend histories
    ops_alpha = ['ser', ['append', 1], ['append', 2], ['append', None], ['extend', [3, 4]], ['extend', [5]], ['extend', []],
                 ['extend', [None, 6]]]
    for length in (2, 3, 4):
        for seq in itertools.product(range(len(ops_alpha)), repeat=length):
            used = [x for k in seq if ops_alpha[k] != 'ser' for x in ([ops_alpha[k][1]] if ops_alpha[k][0] == 'append' else ops_alpha[k][1])]
            ids_only = [x for x in used if x is not None]
            if len(ids_only) != len(set(ids_only)):
                continue    # duplicate ids are C06 ground
            if 'ser' not in [ops_alpha[k] if ops_alpha[k] == 'ser' else None for k in seq]:
                continue
            for which in ('request', 'response'):
                yield 'history', {'which': which, 'ops': [ops_alpha[k] for k in seq]}
    yield from survivor_cases()
    # LAST (the classes exist from here on): application classes declared for falsy / edge codes
    yield from edge_cases(rng)
    yield from survivor_cases()


def survivor_cases():
    for route in ('wire', 'ctor', 'own-text'):
        for kind in ('request', 'notification', 'response', 'response-error', 'error', 'error-unregistered', 'batch-level'):
            for payload in PAYLOADS:
                yield 'survivor', {'kind': kind, 'route': route, 'payload': payload}
        for kind in ('batch-request', 'batch-response'):
            yield 'survivor', {'kind': kind, 'route': route, 'payload': 'all'}


def edge_cases(rng):
    for code, cls_message in EDGE_CODES.items():
        for message in dict.fromkeys((cls_message, 'some other text', '')):
            for data in (ABSENT, None, {'reason': 'n/a'}, 0):
                spec = [code, message, data]
                for base in ('default', 'custom', 'abc-meta'):
                    yield 'edge', {'route': 'error', 'args': {'error': spec, 'base': base}}
                    yield 'edge', {'route': 'response', 'args': {'id': rng.choice(IDS), 'result': None, 'error': spec, 'base': base}}
                    yield 'edge', {'route': 'batch_level', 'args': {'error': spec, 'base': base}}
                yield 'edge', {'route': 'batch_response', 'args': {'items': [[1, None, None], [0, None, spec], ['', [], None], [None, None, spec]],
                                                                    'base': rng.choice(list(BASES))}}
        yield 'edge', {'route': 'via_client', 'args': dict(items=[[1, 'r', None], [0, None, [code, cls_message, ABSENT]]], extra_null=[], order=[1, 0],
                                                           strict=True, is_async=bool(code % 2))}
        yield 'edge', {'route': 'via_client_batch_error', 'args': dict(n_calls=2, n_notifs=1, spec=[code, cls_message, [code]], strict=True,
                                                                       is_async=not code % 2)}


KINDS = {'request': run_request, 'response': run_response, 'error': run_error, 'batch_request': run_batch_request,
         'batch_response': run_batch_response, 'batch_level': run_batch_level, 'history': run_history, 'via_client': run_via_client,
         'via_client_batch_error': run_via_client_batch_error, 'edge': run_edge, 'survivor': run_survivor}
