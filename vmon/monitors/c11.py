"""C11 - the synchronous and asynchronous halves behave identically (differential monitor, no model)."""
from __future__ import annotations

import itertools
import json
from types import SimpleNamespace

import pjrpc
from pjrpc.common import UNSET, v20
from pjrpc.common.exceptions import JsonRpcError

from .. import clientside, serverside, strictjson, world
from ..gen import docs
from . import c07, c08, c09, c12, c19

PID = 'C11'
LEVEL = 'exploration'
RULE = ('one case = one input run through both halves and compared pairwise, no reference model involved. Dispatchers: a '
        'request text from the C01-C03 corpus x max_batch_size, on the sync dispatcher, the async dispatcher with coroutine '
        'methods and the async dispatcher serving plain functions (response document, codes tuple, execution log); a C12 '
        'middleware / error-handler configuration x document on the sync and async dispatchers (response + per-element event '
        'sequences). Clients: a C09 retry session with 0..2 recording tracers (send / sleep event sequence, tracer events, '
        'outcome), a C07 call program x notation over the loop-back dispatcher (wire documents, outcome), a C08 scripted '
        'response document (outcome), each on the sync and the async client. Distinct = distinct (family, input).')
ASSUMPTIONS = [
    'object identities and exception instances differ by construction; exceptions are compared by type, code / message / data or args',
    'asyncio.sleep vs time.sleep is the expected difference in which sleep function is used; only the arguments are compared',
]
SHARDS = {'quick': 4, 'thorough': 16}
TIMEOUT = {'quick': 900, 'thorough': 3600}
ANCHORS = [
    ('pjrpc/server/dispatcher.py', 'Dispatcher.dispatch'), ('pjrpc/server/dispatcher.py', 'AsyncDispatcher.dispatch'),
    ('pjrpc/server/dispatcher.py', 'Dispatcher._handle_request'), ('pjrpc/server/dispatcher.py', 'AsyncDispatcher._handle_request'),
    ('pjrpc/server/dispatcher.py', 'Dispatcher._handle_rpc_method'), ('pjrpc/server/dispatcher.py', 'AsyncDispatcher._handle_rpc_method'),
    ('pjrpc/client/client.py', 'AbstractClient._send'), ('pjrpc/client/client.py', 'AbstractAsyncClient._send'),
    ('pjrpc/client/client.py', 'AbstractClient.traced'), ('pjrpc/client/client.py', 'AbstractAsyncClient.traced'),
    ('pjrpc/client/client.py', 'AbstractClient.retried'), ('pjrpc/client/client.py', 'AbstractAsyncClient.retried'),
    ('pjrpc/client/client.py', 'AbstractClient.call'), ('pjrpc/client/client.py', 'AbstractAsyncClient.call'),
    ('pjrpc/client/client.py', 'AbstractClient.notify'), ('pjrpc/client/client.py', 'AbstractAsyncClient.notify'),
    ('pjrpc/client/client.py', 'Batch.call'), ('pjrpc/client/client.py', 'AsyncBatch.call'),
    ('pjrpc/client/retry.py', 'retry'), ('pjrpc/client/retry.py', 'retry_async'),
]
FLOORS = {'*': {'trace:falsy-caller-context': 40, 'pair:dispatch-text': 3000, 'pair:dispatch-plain-vs-coroutine': 3000, 'pair:middleware': 500, 'pair:retry': 500,
                'pair:notation': 300, 'notation:application-encoder-writes-the-request-objects': 100, 'pair:match': 300, 'pair:notification-body': 150, 'pair:batch-object-reused': 30, 'pair:call-answered-with-an-odd-body': 100, 'pair:httpx-backends': 200, 'httpx-backends:non-ascii-body-bytes': 50, 'retry:with-tracers': 200, 'retry:retried': 200, 'pair:trace': 300,
                'middleware:failing-with-handlers': 100}}


def setup(ctx):
    c09.setup(ctx)


def norm_exc(e):
    if isinstance(e, JsonRpcError):
        return ['JsonRpcError', type(e).__name__, e.code, e.message, repr(e.data)]
    return [type(e).__name__, repr(getattr(e, 'args', None))]


def norm_out(st, v):
    if st == 'exc':
        return ['exc'] + norm_exc(v)
    if isinstance(v, (v20.Response, v20.BatchResponse)):
        try:
            return ['ret', type(v).__name__, json.dumps(v.to_json(), sort_keys=True, default=repr)]
        except Exception as e:
            return ['ret', type(v).__name__, 'to_json raised ' + type(e).__name__]
    return ['ret', repr(v)]


# ---- dispatcher pairs ------------------------------------------------------------------------------------

def run_text(ctx, family, text, max_batch):
    obs = {}
    for label, is_async, allco in (('sync', False, None), ('async', True, True), ('async-plain', True, False)):
        w = serverside.get_world(is_async, max_batch, all_coroutines=allco) if allco is not None else serverside.get_world(False, max_batch)
        o = serverside.observe(w, text, context=world.Context('c11'))
        obs[label] = (o.status, type(o.exc).__name__ if o.exc else None, o.doc if o.raw is not None else None, o.raw is None,
                      list(o.codes) if o.codes is not None else None, serverside.normalise_calls(o.calls), o.raw, o.exc)
    ctx.hit('pair:dispatch-text')
    ctx.hit('pair:dispatch-plain-vs-coroutine')
    base = obs['sync']
    for other in ('async', 'async-plain'):
        cur = obs[other]
        aspect = None
        if base[0] != cur[0] or base[1] != cur[1]:
            aspect = 'raise'
        elif base[3] != cur[3] or (not base[3] and not strictjson.typed_eq(base[2], cur[2])):
            aspect = 'response'
        elif base[4] != cur[4]:
            aspect = 'codes'
        elif base[5] != cur[5]:
            aspect = 'executions'
        if aspect:
            ctx.violation(f'dispatcher-halves-differ:{aspect}:{other}', family, (text, max_batch, other), text=text,
                          max_batch_size=max_batch, sync=[base[0], base[6] or base[7], base[5]],
                          other=other, other_observed=[cur[0], cur[6] or cur[7], cur[5]])
            return
    ctx.ok('dispatch:' + family, (text, max_batch), sample={'text': text, 'max_batch_size': max_batch, 'all_three_returned': base[6]})


def run_mw(ctx, stack, table, doc_name):
    results = {}
    for flavour in ('sync', 'async', 'async-suspending', 'async-sequential'):
        del c12.EVENTS[:]
        is_async = flavour != 'sync'
        tspec = c12.table_spec(table)
        mws = [c12.make_mw(k, i, flavour) for i, k in enumerate(stack)]
        handlers = c12.make_handlers(tspec, flavour)
        extra = {'concurrent_batch': False} if flavour == 'async-sequential' else {}
        w = world.World(is_async, None, middlewares=mws, error_handlers=handlers, **extra)
        doc = c12.DOCS[doc_name]
        text = doc if isinstance(doc, str) else json.dumps(doc)
        o = serverside.observe(w, text, context=world.Context('c11'))
        per_elem = {}
        for e in c12.EVENTS:
            t = e[2] if e[0] in ('enter', 'exit') else e[3]
            per_elem.setdefault(repr(t), []).append(list(e[:3]) if e[0] in ('enter', 'exit') else list(e[:5]))
        results[flavour] = (o.status, o.doc if o.raw is not None else None, list(o.codes) if o.codes else None, per_elem,
                            serverside.normalise_calls(o.calls), o.raw, o.exc)
        if any(e[0] == 'handler' for e in c12.EVENTS):
            ctx.hit('middleware:failing-with-handlers')
    ctx.hit('pair:middleware')
    base = results['sync']
    for other in ('async', 'async-suspending', 'async-sequential'):
        cur = results[other]
        aspect = None
        if base[0] != cur[0]:
            aspect = 'raise'
        elif (base[1] is None) != (cur[1] is None) or (base[1] is not None and not strictjson.typed_eq(base[1], cur[1])):
            aspect = 'response'
        elif base[2] != cur[2]:
            aspect = 'codes'
        elif base[3] != cur[3]:
            aspect = 'middleware-or-handler-events'
        elif base[4] != cur[4]:
            aspect = 'executions'
        if aspect:
            ctx.violation(f'dispatcher-halves-differ:{aspect}:with-middlewares', 'middleware', (''.join(stack), table, doc_name, other),
                          stack=stack, handler_table=table, document=doc_name, sync=[base[5] or base[6], base[3]],
                          other=other, other_observed=[cur[5] or cur[6], cur[3]])
            return
    ctx.ok('middleware', (''.join(stack), table, doc_name), sample={'stack': stack, 'table': table, 'document': doc_name})


# ---- client pairs --------------------------------------------------------------------------------------

def run_retry(ctx, spec, codes, excs, n_tracers, requests):
    obs = {}
    retried = False
    for is_async in (False, True):
        del c09.DRAWS[:]        # the "fresh value per draw" jitter source starts from the same state for both twins
        rs = c09.make_strategy(spec, codes, excs)
        log = []
        tracers = [c19.Rec(i, log) for i in range(n_tracers)]
        box = {}

        def transport(text, is_notification, kwargs, box=box):
            return box['script'](text, is_notification, kwargs)

        cls_ = clientside.AsyncClient if is_async else clientside.SyncClient
        sources = {r['source'] for r in requests}
        client_wide = rs if ('client' in sources or 'request-none' in sources) else None
        client = cls_(transport, retry_strategy=client_wide, tracers=tracers)
        per_request = []
        for ridx, r in enumerate(requests):
            sc = c09.Script(r['script'])
            box['script'] = sc
            del c09.EVENTS[:]
            del log[:]
            kw = {}
            if r['source'] == 'request':
                kw['_retry_strategy'] = rs
            elif r['source'] == 'request-none':
                kw['_retry_strategy'] = None
            tctx = SimpleNamespace(tag='c') if ridx % 2 else None
            if r['kind'] == 'single':
                req = v20.Request('m', [ridx], id=7 + ridx)
                st, out = clientside.outcome_of(lambda: client.send(req, _trace_ctx=tctx, **kw), is_async)
            elif r['kind'] == 'batch':
                req = v20.BatchRequest(v20.Request('a', [1], id=1), v20.Request('b', [2], id=2), v20.Request('n', [3]))
                st, out = clientside.outcome_of(lambda: client.batch.send(req, _trace_ctx=tctx, **kw), is_async)
            else:
                req = v20.Request('n', [ridx], id=None)
                st, out = clientside.outcome_of(lambda: client.send(req, _trace_ctx=tctx, **kw), is_async)
            events = [('send',) if e[0] == 'send' else ('sleep', round(e[1], 9) if isinstance(e[1], (int, float)) else repr(e[1]))
                      for e in c09.EVENTS]
            if any(e[0] == 'sleep' for e in events):
                retried = True
            tr = [(e[0], e[1], type(e[4]).__name__, e[2] is tctx if tctx is not None else None) for e in log]
            per_request.append({'events': events, 'tracer': tr, 'outcome': norm_out(st, out), 'wire': list(sc.texts)})
        obs[is_async] = per_request
    ctx.hit('pair:retry')
    if n_tracers:
        ctx.hit('retry:with-tracers')
    if retried:
        ctx.hit('retry:retried')
    cls = (json.dumps(spec, sort_keys=True), codes, excs, n_tracers, json.dumps(requests))
    for ridx, (a, b) in enumerate(zip(obs[False], obs[True])):
        for aspect, key in (('sends-and-sleeps', 'events'), ('tracer-events', 'tracer'), ('outcome', 'outcome'), ('wire', 'wire')):
            if a[key] != b[key]:
                ctx.violation(f'client-halves-differ:{aspect}:retry-session', 'retry', cls, backoff=spec, codes=codes, exceptions=excs,
                              tracers=n_tracers, requests=requests, request_index=ridx, sync=a[key], asynchronous=b[key])
                return
    ctx.ok('retry', cls, sample={'backoff': spec, 'requests': requests, 'sync_observation': obs[False][0]})


class _FalsyCtx:
    """a caller's trace context that is an (as yet) empty container of its own"""

    def __init__(self):
        self.spans = []

    def __len__(self):
        return len(self.spans)


class _NeverTrueCtx:
    def __bool__(self):
        return False


TRACE_CTX_KINDS = ('namespace', 'empty-dict', 'empty-list', 'zero', 'empty-str', 'empty-container-object', 'bool-false-object',
                   'dict', 'tuple')


def make_trace_ctx(kind):
    """what a caller may hand over as `_trace_ctx`: any object of its choosing, whatever its truth value"""
    if kind is True or kind == 'namespace':
        return SimpleNamespace(tag='caller')
    return {'empty-dict': dict, 'empty-list': list, 'zero': lambda: 0, 'empty-str': str, 'empty-container-object': _FalsyCtx,
            'bool-false-object': _NeverTrueCtx, 'dict': lambda: {'trace': 'id'}, 'tuple': lambda: ('trace', 1)}[kind]()


def run_trace(ctx, n_tracers, attempts, script, kind, supplied_ctx):
    """C19's scripted attempt outcomes (incl. BaseException and CancelledError raised by the transport) on both clients"""
    obs = {}
    for is_async in (False, True):
        log = []
        tracers = [c19.Rec(i, log) for i in range(n_tracers)]
        sc = c19.Script(script, log)
        from pjrpc.client import retry as retry_mod
        strategy = retry_mod.RetryStrategy(backoff=retry_mod.PeriodicBackoff(attempts=attempts, interval=0.0), codes={2001},
                                           exceptions=set(c19.RETRY_EXC)) if attempts is not None else None

        def transport(text, is_notification, kwargs, sc=sc):
            o, k = sc.outcome()
            return sc.respond(o, k, text, is_notification)

        cls_ = clientside.AsyncClient if is_async else clientside.SyncClient
        client = cls_(transport, tracers=tracers, retry_strategy=strategy)
        tctx = make_trace_ctx(supplied_ctx) if supplied_ctx else None
        if supplied_ctx and not tctx:
            ctx.hit('trace:falsy-caller-context')
        if kind == 'batch':
            req = v20.BatchRequest(v20.Request('a', [1], id=1), v20.Request('b', [2], id=2))
            st, out = clientside.outcome_of(lambda: client.batch.send(req, _trace_ctx=tctx), is_async)
        else:
            req = v20.Request('m', [1], id=None if kind == 'notification' else 5)
            st, out = clientside.outcome_of(lambda: client.send(req, _trace_ctx=tctx), is_async)
        events = [('transport', e[1]) if e[0] == 'transport' else (e[0], e[1], type(e[4]).__name__, e[2] is tctx if supplied_ctx else None)
                  for e in log]
        obs[is_async] = {'events': events, 'outcome': norm_out(st, out)}
    ctx.hit('pair:trace')
    cls = (n_tracers, attempts, tuple(script), kind, supplied_ctx)
    for aspect in ('events', 'outcome'):
        if obs[False][aspect] != obs[True][aspect]:
            ctx.violation(f'client-halves-differ:{"tracer-events" if aspect == "events" else "outcome"}:scripted-attempts', 'trace', cls,
                          tracers=n_tracers, retry_attempts=attempts, script=script, kind=kind, sync=obs[False][aspect],
                          asynchronous=obs[True][aspect])
            return
    ctx.ok('trace', cls, sample={'script': script, 'kind': kind, 'tracers': n_tracers, 'events': obs[False]['events']})


class _MetaEncoder(pjrpc.common.JSONEncoder):
    """an application encoder that writes the request objects itself (every request gets a `meta` member) - the hook the
    library's own encoder uses"""

    def default(self, o):
        if isinstance(o, v20.BatchRequest):
            return [dict(r.to_json(), meta='Zq7') for r in o]
        if isinstance(o, v20.Request):
            return dict(o.to_json(), meta='Zq7')
        return super().default(o)


def run_notation(ctx, calls, notation, strict, base, codec='default'):
    obs = {}
    error_cls = c07.CustomBase if base == 'custom' else JsonRpcError
    for is_async in (False, True):
        w = serverside.get_world(is_async, None)
        client = c07.make_client(is_async, w, 'sequential', strict, error_cls)
        if codec == 'encoder-writes-requests':
            client.json_encoder = _MetaEncoder
            ctx.hit('notation:application-encoder-writes-the-request-objects')
        client._vmon_reset = w.log.clear
        w.log.clear()
        cs = [list(c) + [False] if len(c) == 3 else list(c) for c in calls]
        if notation in c07.NOTATIONS_SINGLE:
            cs[0][3] = notation == 'notify'
            st, v = c07.run_single(client, notation, cs[0], is_async)
        else:
            st, v = c07.run_batch(client, notation, cs, is_async)
        wire = []
        for s in client.wire.sent:
            try:
                wire.append(strictjson.decode(s['text']))
            except strictjson.NotJson:
                wire.append(s['text'])
        obs[is_async] = {'wire': wire, 'outcome': norm_out(st, v) if st == 'exc' else ['ret', repr(v)],
                         'executions': serverside.normalise_calls(w.log.calls)}
    ctx.hit('pair:notation')
    cls = (json.dumps(calls, default=str), notation, strict, base, codec)
    for aspect in ('wire', 'outcome', 'executions'):
        if obs[False][aspect] != obs[True][aspect]:
            ctx.violation(f'client-halves-differ:{aspect}:{notation}' + ('' if codec == 'default' else ':' + codec), 'notation', cls, codec=codec, calls=calls, notation=notation,
                          sync=obs[False][aspect], asynchronous=obs[True][aspect])
            return
    ctx.ok('notation:' + notation, cls, sample={'calls': calls, 'notation': notation, 'observation': obs[False]})


def run_match(ctx, n, doc, strict, op, ids):
    obs = {}
    text = json.dumps(doc)
    for is_async in (False, True):
        client = c08.make_client(is_async, text, strict, id_start=0 if ids == 'zero' else 1)
        call_ids = c08.scheme_ids(ids, n)
        if op == 'send':
            req = v20.BatchRequest(*[v20.Request(f'm{i}', [i], id=cid) for i, cid in enumerate(call_ids)])
            st, out = clientside.outcome_of(lambda: client.batch.send(req), is_async)
            extra = None
            if st == 'ret' and out is not None:
                extra = [[r.id, r.related.id if r.related is not None else None] for r in out]
        else:
            def go():
                b = client.batch
                for i in range(n):
                    b.add(f'm{i}', i)
                return b.call()
            st, out = clientside.outcome_of(go, is_async)
            extra = None
        obs[is_async] = [norm_out(st, out), extra]
    ctx.hit('pair:match')
    cls = (n, text, strict, op, ids)
    if obs[False] != obs[True]:
        ctx.violation('client-halves-differ:outcome:response-matching', 'match', cls, calls=n, response_text=text, strict=strict,
                      op=op, sync=obs[False], asynchronous=obs[True])
        return
    ctx.ok('match', cls, sample={'calls': n, 'response_text': text, 'observation': obs[False]})


def run_batch_reuse(ctx, program, via_proxy, fail_first):
    """one batch object used for several round trips: add calls, fire, add more, fire again (optionally with a transport
    failure on the first firing). program: [n_adds_before_each_firing, ...]"""
    obs = {}
    for is_async in (False, True):
        w = serverside.get_world(is_async, None)
        inner = clientside.loopback_transport(w, is_async)
        state = {'n': 0}

        def transport(text, is_notification, kwargs, inner=inner, state=state):
            state['n'] += 1
            if fail_first and state['n'] == 1:
                raise ConnectionError('first firing lost')
            return inner(text, is_notification, kwargs)

        cls_ = clientside.AsyncClient if is_async else clientside.SyncClient
        client = cls_(transport)
        w.log.clear()
        b = client.batch
        outcomes, tok = [], 0
        for n_adds in program:
            target = b.proxy if via_proxy else b
            for _ in range(n_adds):
                tok += 1
                target = getattr(target, 'ok')(f'r{tok}') if via_proxy else target.add('ok', f'r{tok}')
            fire = target if via_proxy else b
            st, out = clientside.outcome_of(lambda: fire.call(), is_async)
            outcomes.append(norm_out(st, out) if st == 'exc' else ['ret', repr(out)])
        wire = []
        for sent in client.wire.sent:
            try:
                wire.append(strictjson.decode(sent['text']))
            except strictjson.NotJson:
                wire.append(sent['text'])
        obs[is_async] = {'wire': wire, 'outcome': outcomes, 'executions': serverside.normalise_calls(w.log.calls)}
    ctx.hit('pair:batch-object-reused')
    cls = (tuple(program), via_proxy, fail_first)
    for aspect in ('wire', 'outcome', 'executions'):
        if obs[False][aspect] != obs[True][aspect]:
            ctx.violation(f'client-halves-differ:{aspect}:batch-object-used-for-several-round-trips', 'batch-reuse', cls, program=program,
                          via_proxy=via_proxy, first_firing_fails=fail_first, sync=obs[False][aspect], asynchronous=obs[True][aspect])
            return
    ctx.ok('batch-reuse', cls, sample={'program': program, 'via_proxy': via_proxy, 'first_firing_fails': fail_first,
                                       'observation': obs[False]})


RESPONSE_TYPES = ['application/json', 'application/json; charset=utf-8', 'Application/JSON', 'APPLICATION/JSON; charset=UTF-8',
                  'application/json ; charset=utf-8', 'Application/Json-Rpc', 'application/json-rpc', 'application/jsonrequest',
                  'text/plain', 'text/html; charset=utf-8', '', None, 'application/problem+json', ' application/json']


BYTE_PAYLOADS = {'bytes:utf8-non-ascii': 'caf\u00e9 \u20ac'.encode(), 'bytes:latin1': b'caf\xe9', 'bytes:truncated-multibyte': b'caf\xc3',
                 'bytes:lone-continuation': b'a\x80b'}


def run_backend_pair(ctx, content_type, status, body_kind, request_kind):
    """the library's own httpx backends (sync Client / AsyncClient) against one scripted HTTP peer: what the answer's
    status, media type and body make of a call is the same on both halves"""
    try:
        import httpx
        from pjrpc.client.backend import httpx as backend
    except Exception as e:
        ctx.skip(f'backend-not-importable:{type(e).__name__}')
        return

    def handler(request):
        req = json.loads(request.content.decode() or 'null')
        if body_kind == 'empty':
            content = b''
        elif body_kind == 'garbage':
            content = b'<html>oops</html>'
        elif body_kind in BYTE_PAYLOADS:
            # a JSON document whose string payload is (or is not) valid in the charset the answer declares / defaults to
            def one(i):
                return b'{"jsonrpc": "2.0", "id": ' + json.dumps(i).encode() + b', "result": "' + BYTE_PAYLOADS[body_kind] + b'"}'
            content = (b'[' + b', '.join(one(r['id']) for r in req if 'id' in r) + b']') if isinstance(req, list) else one((req or {}).get('id'))
        elif isinstance(req, list):
            content = json.dumps([{'jsonrpc': '2.0', 'id': r['id'], 'result': 'r'} for r in req if 'id' in r]).encode()
        elif body_kind == 'error':
            content = json.dumps({'jsonrpc': '2.0', 'id': req.get('id'), 'error': {'code': 7, 'message': 'm'}}).encode()
        else:
            content = json.dumps({'jsonrpc': '2.0', 'id': req.get('id'), 'result': 'r'}).encode()
        headers = {} if content_type is None else {'Content-Type': content_type}
        return httpx.Response(status, content=content, headers=headers)

    obs = {}
    for is_async in (False, True):
        log = []
        tracers = [c19.Rec(0, log)]
        if is_async:
            inner = httpx.AsyncClient(transport=httpx.MockTransport(handler))
            client = backend.AsyncClient('http://peer/rpc', client=inner, tracers=tracers)
        else:
            inner = httpx.Client(transport=httpx.MockTransport(handler))
            client = backend.Client('http://peer/rpc', client=inner, tracers=tracers)
        if request_kind == 'batch':
            st, out = clientside.outcome_of(lambda: client.batch.add('a', 1).add('b', 2).call(), is_async)
        elif request_kind == 'notify':
            st, out = clientside.outcome_of(lambda: client.notify('m', 1), is_async)
        else:
            st, out = clientside.outcome_of(lambda: client.call('m', 1), is_async)
        obs[is_async] = {'outcome': norm_out(st, out) if st == 'exc' else ['ret', repr(out)],
                         'tracer-events': [(e[0], e[1], type(e[4]).__name__) for e in log]}
        try:
            r = inner.aclose() if is_async else inner.close()
            if is_async:
                world.run(r)
        except Exception:
            pass
    ctx.hit('pair:httpx-backends')
    if body_kind in BYTE_PAYLOADS:
        ctx.hit('httpx-backends:non-ascii-body-bytes')
    cls = (content_type, status, body_kind, request_kind)
    for aspect in ('outcome', 'tracer-events'):
        a, b = obs[False][aspect], obs[True][aspect]
        if a != b:
            ctx.violation(f'client-halves-differ:{aspect}:httpx-backends', 'backend-pair', cls, response_content_type=content_type,
                          status=status, body=body_kind, request=request_kind, sync=a, asynchronous=b)
            return
    ctx.ok('backend-pair', cls, sample={'content_type': content_type, 'status': status, 'body': body_kind, 'observation': obs[False]})


BIG = '1' + '0' * 5000
CALL_BODIES = [
    '{"jsonrpc": "2.0", "id": 5, "result": %s}' % BIG, '{"jsonrpc": "2.0", "id": 5, "result": [1, {"k": -%s}]}' % BIG,
    '{"jsonrpc": "2.0", "id": %s, "result": 1}' % BIG, '{"jsonrpc": "2.0", "id": 5, "error": {"code": %s, "message": "m"}}' % BIG,
    '{"jsonrpc": "2.0", "id": 5, "result": NaN}', '{"jsonrpc": "2.0", "id": 5, "result": Infinity}', '{"jsonrpc": "2.0", "id": 5, "result": 1e999}',
    '', ' ', 'null', '[]', '{}', '\ufeff{"jsonrpc": "2.0", "id": 5, "result": 1}', '{"jsonrpc": "2.0", "id": 5, "result": 1',
    '{"jsonrpc": "2.0", "id": 5, "result": 1} trailing', '{"jsonrpc": "2.0", "id": 5, "result": "\ud800"}',
    '{"jsonrpc": "2.0", "id": 5, "id": 6, "result": 1}', '[' * 2000, '{"jsonrpc": "2.0", "id": 5, "result": ' + '[' * 1200 + ']' * 1200 + '}',
]


def run_call_body(ctx, body, strict, kind, n_tracers):
    """whatever text the transport hands back for a call: decoder failures of every kind must look the same on both halves"""
    obs = {}
    for is_async in (False, True):
        log = []
        tracers = [c19.Rec(i, log) for i in range(n_tracers)]
        cls_ = clientside.AsyncClient if is_async else clientside.SyncClient
        client = cls_(lambda text, is_notification, kwargs: body, tracers=tracers, strict=strict)
        if kind == 'batch':
            req = v20.BatchRequest(v20.Request('a', [1], id=5), v20.Request('b', [2], id=6))
            st, out = clientside.outcome_of(lambda: client.batch.send(req), is_async)
        else:
            st, out = clientside.outcome_of(lambda: client.send(v20.Request('m', [1], id=5)), is_async)
        obs[is_async] = {'outcome': norm_out(st, out), 'tracer-events': [(e[0], e[1], type(e[4]).__name__) for e in log]}
    ctx.hit('pair:call-answered-with-an-odd-body')
    cls = (body[:80], len(body), strict, kind, n_tracers)
    for aspect in ('outcome', 'tracer-events'):
        if obs[False][aspect] != obs[True][aspect]:
            ctx.violation(f'client-halves-differ:{aspect}:call-answered-with-an-odd-body', 'call-body', cls, body=body[:200], body_length=len(body),
                          strict=strict, kind=kind, sync=obs[False][aspect], asynchronous=obs[True][aspect])
            return
    ctx.ok('call-body', cls, sample={'body': body[:120], 'kind': kind, 'observation': obs[False]})


NOTIFY_BODIES = [None, '', ' ', '\n', '\t\r\n ', 'null', '[]', '{}', '""', '0', '{"jsonrpc": "2.0", "id": null, "result": 1}',
                 '{"jsonrpc": "2.0", "id": 5, "result": 1}', '[{"jsonrpc": "2.0", "id": 1, "result": 1}]', 'garbage', '\ufeff', 'é']


def run_notify_body(ctx, body, strict, kind, n_tracers):
    """what the transport hands back for a notification / an all-notification batch: nothing, blank text, any document"""
    obs = {}
    for is_async in (False, True):
        log = []
        tracers = [c19.Rec(i, log) for i in range(n_tracers)]
        cls_ = clientside.AsyncClient if is_async else clientside.SyncClient
        client = cls_(lambda text, is_notification, kwargs: body, tracers=tracers, strict=strict)
        if kind == 'batch':
            req = v20.BatchRequest(v20.Request('a', [1]), v20.Request('b', [2]))
            st, out = clientside.outcome_of(lambda: client.batch.send(req), is_async)
        elif kind == 'notify':
            st, out = clientside.outcome_of(lambda: client.notify('m', 1), is_async)
        else:
            st, out = clientside.outcome_of(lambda: client.send(v20.Request('m', [1], id=None)), is_async)
        obs[is_async] = {'outcome': norm_out(st, out), 'tracer-events': [(e[0], e[1], type(e[4]).__name__) for e in log],
                         'wire': [(w['text'], w['is_notification']) for w in client.wire.sent]}
    ctx.hit('pair:notification-body')
    cls = (repr(body), strict, kind, n_tracers)
    for aspect in ('outcome', 'tracer-events', 'wire'):
        if obs[False][aspect] != obs[True][aspect]:
            ctx.violation(f'client-halves-differ:{aspect}:notification-answered-with-a-body', 'notify-body', cls, body=body,
                          strict=strict, kind=kind, sync=obs[False][aspect], asynchronous=obs[True][aspect])
            return
    ctx.ok('notify-body', cls, sample={'body': body, 'strict': strict, 'kind': kind, 'observation': obs[False]})


# ---- generation ------------------------------------------------------------------------------------------

def gen(ctx):
    rng = ctx.rng
    deep = ctx.thorough
    full = True
    k = 0
    for fam, text in docs.object_product(rng, exhaustive=deep, samples=3000):
        yield 'text', dict(family=fam, text=text, max_batch=None)
    for fam, text in docs.singles(rng, full):
        yield 'text', dict(family=fam, text=text, max_batch=None)
    for fam, text, n in docs.batches(rng, 3, 50000 if deep else 4000, 6):
        k += 1
        yield 'text', dict(family=fam, text=text, max_batch=(None, 1, 3, 0)[k % 4])
    for fam, text in docs.nonjson(rng, per_doc=10 ** 6 if full else 10, random_texts=100000 if deep else 5000):
        yield 'text', dict(family=fam, text=text, max_batch=None)
    for fam, text in docs.numbers(False):
        yield 'text', dict(family=fam, text=text, max_batch=None)
    # results the response encoder refuses (a set, an object, bytes): whatever happens, it happens on both halves alike
    for what in ('set', 'object', 'bytes', 'nested'):
        one = docs.obj(id=1, method='unenc', params=[what])
        for d in (one, docs.obj(method='unenc', params=[what]), [docs.obj(id=2, method='ok', params=['a']), one],
                  [one, docs.obj(id=3, method='nope')]):
            yield 'text', dict(family='result-the-encoder-refuses', text=json.dumps(d), max_batch=None)
    # far beyond what the decoder can nest: whatever happens, it happens on both halves alike
    for depth in (2000, 100000):
        for text in ('[' * depth + ']' * depth, '{"a":' * depth + '1' + '}' * depth,
                     '{"jsonrpc": "2.0", "id": 1, "method": "echo", "params": [' + '[' * depth + ']' * depth + ']}'):
            yield 'text', dict(family='nesting-beyond-the-decoder', text=text, max_batch=None)
    # middleware configurations
    stacks = [[]] + [list(s) for n in (1, 2, 3) for s in itertools.product(c12.MW_KINDS, repeat=n)]
    names = list(c12.DOCS)
    for stack in (stacks if full else rng.sample(stacks, 40) + [[], ['P'], ['S', 'R'], ['R', 'Q', 'P']]):
        for table in c12.TABLES:
            for d in (names if full else rng.sample(names, 3) + ['batch-mixed']):
                yield 'mw', dict(stack=stack, table=table, doc_name=d)
    # retry sessions with tracers
    for n in (0, 1, 2, 3):
        grid = c09.backoff_grid(n)
        scripts = list(itertools.product(c09._OUT, repeat=min(n + 2, 3)))
        if n >= 2:
            scripts = [tuple(rng.choice(c09._OUT) for _ in range(n + 2)) for _ in range(20000 if deep else 2000)]
            scripts += [tuple(rng.choice(['listed', 'exc-listed', 'exc-sub']) for _ in range(n + 1)) + (rng.choice(c09._OUT),)
                        for _ in range(10000 if deep else 1000)]
        for script in scripts:
            k += 1
            spec = grid[(k * 5) % len(grid)]
            kind = ('single', 'batch', 'notification', 'single')[k % 4]
            source = ('client', 'request', 'client', 'request-none', 'none')[(k // 2) % 5]
            if kind == 'notification' and source == 'request':
                source = 'client'
            reqs = [{'kind': kind, 'source': source, 'script': list(script)}]
            if source in ('client', 'request') and k % 2:
                reqs.append({'kind': 'single', 'source': source, 'script': list(rng.choice(scripts))})
            yield 'retry', dict(spec=spec, codes=('one', 'several', 'none', 'one')[k % 4], excs=('one', 'several', 'one', 'empty')[(k // 3) % 4],
                                n_tracers=k % 3, requests=reqs)
    # scripted attempt outcomes incl. BaseException subclasses and CancelledError raised by the transport
    outs = [o for o in c19.OUTCOMES if o not in ('cancel-task', 'exc-stopiteration', 'exc-kbdint', 'exc-sysexit')]   # (the interpreter itself replaces StopIteration inside a coroutine)
    for attempts in (None, 0, 1, 2):
        n = attempts or 0
        scripts = list(itertools.product(outs, repeat=n + 1)) if n <= 1 else \
            [tuple(rng.choice(outs) for _ in range(n + 1)) for _ in range(3000 if deep else 300)]
        for script in scripts:
            k += 1
            yield 'trace', dict(n_tracers=1 + k % 3, attempts=attempts, script=list(script),
                                kind=('single', 'batch', 'notification')[k % 3],
                                supplied_ctx=(False, True, TRACE_CTX_KINDS[(k // 4) % len(TRACE_CTX_KINDS)], True)[k % 4])
    for program in ([1, 1], [2, 1], [2, 0], [1, 2, 1], [0, 1], [3, 3], [1, 0, 0], [2, 2, 2, 2]):
        for via_proxy in (False, True):
            for fail_first in (False, True):
                yield 'batch-reuse', dict(program=program, via_proxy=via_proxy, fail_first=fail_first)
    for ct in ('application/json', 'application/json; charset=utf-8', 'application/json; charset=latin-1', 'application/json; charset=ascii',
               'application/json; charset=no-such-charset', 'Application/JSON;charset=ISO-8859-1'):
        for body_kind in BYTE_PAYLOADS:
            for rk in ('call', 'batch', 'notify'):
                yield 'backend-pair', dict(content_type=ct, status=200, body_kind=body_kind, request_kind=rk)
    for ct in RESPONSE_TYPES:
        for status, body_kind in ((200, 'result'), (200, 'error'), (200, 'empty'), (200, 'garbage'), (500, 'result'), (404, 'garbage')):
            for rk in ('call', 'batch', 'notify'):
                yield 'backend-pair', dict(content_type=ct, status=status, body_kind=body_kind, request_kind=rk)
    for body in CALL_BODIES:
        for strict in (True, False):
            for kind in ('send', 'batch'):
                for nt in (0, 2):
                    yield 'call-body', dict(body=body, strict=strict, kind=kind, n_tracers=nt)
    for body in NOTIFY_BODIES:
        for strict in (True, False):
            for kind in ('send', 'notify', 'batch'):
                for nt in (0, 2):
                    yield 'notify-body', dict(body=body, strict=strict, kind=kind, n_tracers=nt)
    # notations over the loop-back world
    pool = c07.call_pool(rng, False)
    positional = [c for c in pool if c[1] == 'args']
    for c in pool:
        for notation in c07.NOTATIONS_SINGLE:
            k += 1
            if full or k % 3 == 0:
                yield 'notation', dict(calls=[c], notation=notation, strict=bool(k % 4), base='custom' if k % 3 == 0 else 'default',
                                       codec='encoder-writes-requests' if k % 5 == 0 else 'default')
    for _ in range(50000 if deep else 4000):
        n = rng.randint(1, 4)
        notation = rng.choice(c07.NOTATIONS_BATCH)
        src = positional if notation == 'getitem' else pool
        calls = [list(rng.choice(src)) + [False] for _ in range(n)]
        if notation in ('add', 'chain', 'hand-built') and rng.random() < 0.4:
            for c in calls:
                c[3] = rng.random() < 0.5
        yield 'notation', dict(calls=calls, notation=notation, strict=rng.random() < 0.8, base=rng.choice(['default', 'custom']),
                               codec='encoder-writes-requests' if rng.random() < 0.2 else 'default')
    # scripted response documents
    for kind, args in c08.gen(ctx):
        if kind == 'batch' and args.get('nonjson') is None and not args['notif_at'] and args.get('prior', 'none') == 'none':
            k += 1
            if full or k % 2 == 0:
                yield 'match', dict(n=args['n'], doc=args['doc'], strict=args['strict'], op=args['op'] if args.get('ids') not in ('str', 'mixed') else 'send',
                                    ids=args.get('ids', 'one'))


KINDS = {'text': run_text, 'mw': run_mw, 'retry': run_retry, 'notation': run_notation, 'match': run_match, 'trace': run_trace,
         'notify-body': run_notify_body, 'batch-reuse': run_batch_reuse,
         'call-body': run_call_body, 'backend-pair': run_backend_pair}
