"""C09 - retries are bounded, follow the configured backoff and return the last outcome."""
from __future__ import annotations

import asyncio
import itertools
import json
import time as _time

import pjrpc
from pjrpc.client import retry as retry_mod
from pjrpc.common import UNSET, v20

from .. import clientside, strictjson
from ..models import retry as model

PID = 'C09'
LEVEL = 'fault_enumeration'
RULE = ('one case = one session: a real sync or async client (strict, or lenient: strict=False) with a retry configuration '
        '(backoff family and parameters - among them parameters at zero: a cap of exactly 0 / 0.0, a zero base, factor, multiplier - '
        'codes set, exceptions set; client-wide, per-request, per-request None, or none) sends 1..3 requests (single, batch, '
        'notification - notify() or send of an id-less request - or a batch made of notifications only) through a transport scripted '
        'with one outcome per attempt over {success, listed code, unlisted code, '
        'batch-level listed error, listed exception, subclass of a listed exception, unlisted exception}; for a notification the '
        'transport hands back nothing, an empty text, or a body (error reply with a listed / unlisted code, with or without an id, a '
        'result, an array, garbage). All outcome '
        'sequences of length n+2 for n in 0..2 are enumerated (n = 3, 4 sampled); notification sender x reply x strategy source x '
        'codes x client is a full product. Observed: the interleaved sequence of '
        'transport calls and time.sleep / asyncio.sleep arguments (the names `time` and `asyncio` inside pjrpc.client.retry '
        'are replaced by recording shims: nothing really waits), and the object reaching the caller. Expected: '
        'vmon/models/retry.py. Distinct = distinct (configuration, request kind, strategy source, consumed script prefix).')
ASSUMPTIONS = [
    'jitter functions are constant (0, 0.25, -0.125) or yield a fresh recognisable value per draw; for the latter every pause must be '
    'cap(delay + j) for a draw j used by no other pause - the number and order of draws are left free',
    'a listed error code carried by an element inside a successful batch array is not an attempt outcome (not generated)',
    'a transport exception during a notification is not judged (the statement only says notifications return immediately)',
    'a STRICT client that is handed a non-empty body for a notification refuses it with an exception of its own: counted, not judged '
    '(an exception during a notification); a lenient client and an empty / absent body are judged: exactly one send, no pause, None returned',
    'a batch consisting of notifications only counts as a notification (request.is_notification is true; the peer owes no answer)',
    'a backoff parameter of 0 / 0.0 is a configured value like any other (max_value=0 caps every pause at 0); None means not configured',
    'delays are compared with tolerance 1e-9',
]
SHARDS = {'quick': 4, 'thorough': 16}
TIMEOUT = {'quick': 900, 'thorough': 3600}
ANCHORS = [
    ('pjrpc/client/retry.py', 'retry'), ('pjrpc/client/retry.py', 'retry_async'),
    ('pjrpc/client/retry.py', 'PeriodicBackoff.__call__'), ('pjrpc/client/retry.py', 'ExponentialBackoff.__call__'),
    ('pjrpc/client/retry.py', 'FibonacciBackoff.__call__'),
    ('pjrpc/client/client.py', 'AbstractClient.retried'), ('pjrpc/client/client.py', 'AbstractAsyncClient.retried'),
]
_OUT = ['ok', 'listed', 'unlisted', 'exc-listed', 'exc-sub', 'exc-unlisted', 'exc-chained']
FLOORS = {'*': {**{f'outcome:{o}:{p}': 10 for o in _OUT for p in ('first', 'middle', 'last')
                   if not (p == 'middle' and o in ('ok', 'unlisted', 'exc-unlisted', 'exc-chained'))},
                'outcome:exc-identity:first': 10, 'outcome:exc-identity:middle': 10, 'outcome:exc-identity:last': 10,
                'identity-error:listed': 30, 'identity-error:unlisted': 30,
                'family:periodic': 100, 'family:exponential': 100, 'family:fibonacci': 100, 'family:custom-iterator': 100, 'exhausted-strategy': 50,
                'kind:notification': 30, 'kind:batch': 100, 'kind:single': 100, 'client:sync': 300, 'client:async': 300,
                'source:client': 100, 'source:request': 100, 'source:request-none': 30, 'source:none': 30,
                'cap-reached': 20, 'jitter:nonzero': 100, 'jitter:fresh-value-per-draw': 100,
                'jitter:fresh:>=2-pauses-in-one-request': 20, 'entry:send': 300, 'entry:call': 100, 'entry:dunder-call': 100,
                'entry:proxy': 100, 'entry:notify': 20, 'entry:batch-proxy': 50, 'entry:batch-dunder': 50, 'back-below-the-cap': 20, 'per-request-strategy-lists-nothing': 100, 'codes:reserved-range': 100, 'backend:requests': 20, 'backend:httpx': 20, 'session:followup-requests': 100, 'sleeps-observed': 300,
                # round 11: backoff parameters at zero (a cap of exactly 0 / 0.0 above all), with retries that actually paused
                'zero-valued:max_value': 1000, 'zero-valued:max_value:pauses-observed': 300, 'zero-valued:base:pauses-observed': 60,
                'zero-valued:factor:pauses-observed': 60, 'zero-valued:multiplier:pauses-observed': 60,
                # round 11: notifications from lenient (strict=False) and strict clients over a transport that answers them
                'client-non-strict': 500, 'notification-answered-with-a-body:non-strict': 500,
                'notification-answered-with-a-body:strict': 300, 'kind:notification-batch': 500, 'entry:batch-notify': 200,
                'notification-reply:nothing': 500, 'notification-reply:empty-text': 100, 'notification-reply:error-listed': 100,
                'notification-reply:error-unlisted': 100, 'notification-reply:error-listed-with-an-id': 100,
                'notification-reply:result': 100, 'notification-reply:garbage': 100, 'notification-reply:empty-array': 100,
                'notification-reply:array-of-listed-errors': 100}}

CODES = {'none': None, 'empty': set(), 'one': {2001}, 'several': {2001, 2002}, 'reserved': {-32050, -32099}}
# the code the scripted server answers with for a 'listed' / 'unlisted' outcome; under 'reserved' both lie in the range the
# specification reserves for implementation-defined server errors and have no error class of their own
LISTED_CODE = {'reserved': -32050}
UNLISTED_CODE = {'reserved': -32051}
EXCS = {'none': None, 'empty': set(), 'one': {ConnectionError}, 'several': {ConnectionError, TimeoutError},
        # exceptions the client itself raises while it processes an attempt's reply are exceptions the attempt ended in
        'identity': {pjrpc.exceptions.IdentityError}, 'base': {pjrpc.exceptions.BaseError, ConnectionError}}

EVENTS = []


class _TimeShim:
    def __getattr__(self, name):
        return getattr(_time, name)

    @staticmethod
    def sleep(d):
        EVENTS.append(('sleep', d, 'time'))


class _AsyncioShim:
    def __getattr__(self, name):
        return getattr(asyncio, name)

    @staticmethod
    async def sleep(d, *a, **k):
        EVENTS.append(('sleep', d, 'asyncio'))


def setup(ctx):
    retry_mod.time = _TimeShim()
    retry_mod.asyncio = _AsyncioShim()
    # a loop that sleeps through another name must not really wait either (it shows up as missing sleep events)
    _time.sleep = lambda d: EVENTS.append(('sleep', d, 'global-time'))


DRAWS = []


class IterBackoff(retry_mod.Backoff):
    """a user-defined backoff whose __call__ hands out a plain iterator (Iterator[float] is all the base class promises)"""

    def __init__(self, schedule, how):
        object.__setattr__(self, 'attempts', len(schedule))
        object.__setattr__(self, 'jitter', lambda: 0.0)
        object.__setattr__(self, 'schedule', list(schedule))
        object.__setattr__(self, 'how', how)

    def __call__(self):
        if self.how == 'iter':
            return iter(self.schedule)
        if self.how == 'map':
            return map(float, self.schedule)
        return itertools.islice(itertools.cycle(self.schedule or [0.0]), len(self.schedule))


def make_backoff(spec):
    if spec['family'] == 'custom-iterator':
        return IterBackoff(spec['schedule'], spec['how'])
    j = spec.get('jitter', 0.0)
    jitter = (lambda: j)
    if j == 'fresh':
        # a jitter source as in the documentation (random): every draw is a fresh, recognisable value
        def jitter():
            v = 0.003 + 0.007 * len(DRAWS) + 0.0001 * (len(DRAWS) % 3)
            DRAWS.append(v)
            return v
    if spec['family'] == 'periodic':
        return retry_mod.PeriodicBackoff(attempts=spec['attempts'], jitter=jitter, interval=spec['interval'])
    if spec['family'] == 'exponential':
        return retry_mod.ExponentialBackoff(attempts=spec['attempts'], jitter=jitter, base=spec['base'], factor=spec['factor'],
                                            max_value=spec['max_value'])
    return retry_mod.FibonacciBackoff(attempts=spec['attempts'], jitter=jitter, multiplier=spec['multiplier'],
                                      max_value=spec['max_value'])


def make_strategy(spec, codes, excs):
    return retry_mod.RetryStrategy(backoff=make_backoff(spec), codes=CODES[codes], exceptions=EXCS[excs])


class Script:
    """transport: one scripted outcome per attempt, response ids copied from the request actually sent"""

    def __init__(self, outcomes, listed=2001, unlisted=999):
        self.outcomes = list(outcomes)
        self.listed, self.unlisted = listed, unlisted
        self.idx = 0
        self.raised = []
        self.texts = []
        self.notif_reply = None      # what the transport hands back when told is_notification (the bundled backends: nothing)

    def __call__(self, text, is_notification, kwargs):
        EVENTS.append(('send',))
        o = self.outcomes[self.idx] if self.idx < len(self.outcomes) else 'ok'
        k = self.idx
        self.idx += 1
        self.texts.append(text)
        if o == 'exc-chained':
            # an UNLISTED exception that wraps a listed one (a backend translating a low-level error): only the exception
            # that leaves the attempt counts
            exc = KeyError(f'attempt{k}')
            self.raised.append(exc)
            try:
                raise ConnectionResetError('low-level')
            except ConnectionResetError as low:
                raise exc from low
        if o.startswith('exc') and o != 'exc-identity':
            exc = {'exc-listed': ConnectionError, 'exc-sub': ConnectionResetError, 'exc-unlisted': KeyError}[o](f'attempt{k}')
            self.raised.append(exc)
            raise exc
        self.raised.append(None)
        if is_notification:
            return self.notif_reply
        req = json.loads(text)
        if o == 'exc-identity':
            # a well-formed reply that belongs to another request (a stale answer on a reused connection): the strict client
            # ends the attempt in IdentityError
            first = req[0] if isinstance(req, list) else req
            foreign = first['id'] + 1000 if isinstance(first['id'], int) else 'foreign'
            one = {'jsonrpc': '2.0', 'id': foreign, 'result': f'stale{k}'}
            if isinstance(req, list):
                return json.dumps([one] + [{'jsonrpc': '2.0', 'id': r['id'], 'result': f'ok{k}'} for r in req[1:] if 'id' in r])
            return json.dumps(one)
        if isinstance(req, list):
            if o == 'ok':
                return json.dumps([{'jsonrpc': '2.0', 'id': r['id'], 'result': f'ok{k}'} for r in req if 'id' in r])
            code = self.listed if o == 'listed' else self.unlisted
            return json.dumps({'jsonrpc': '2.0', 'id': None, 'error': {'code': code, 'message': 'batch', 'data': k}})
        if o == 'ok':
            return json.dumps({'jsonrpc': '2.0', 'id': req['id'], 'result': f'ok{k}'})
        code = self.listed if o == 'listed' else self.unlisted
        return json.dumps({'jsonrpc': '2.0', 'id': req['id'], 'error': {'code': code, 'message': 'single', 'data': k}})


def model_outcomes(script, listed=2001, unlisted=999):
    out = []
    for k, o in enumerate(script):
        if o == 'ok':
            out.append({'kind': 'ok'})
        elif o in ('listed', 'unlisted'):
            out.append({'kind': 'error-response', 'code': listed if o == 'listed' else unlisted})
        else:
            cls = {'exc-listed': ConnectionError, 'exc-sub': ConnectionResetError, 'exc-unlisted': KeyError, 'exc-chained': KeyError,
                   'exc-identity': pjrpc.exceptions.IdentityError}[o]
            out.append({'kind': 'exception', 'exc': cls()})
    return out


NOTIF_REPLIES = ['nothing', 'empty-text', 'error-listed', 'error-unlisted', 'error-listed-with-an-id', 'result', 'garbage',
                 'empty-array', 'array-of-listed-errors']


def notification_reply(flavour, listed, unlisted):
    """the body a transport hands back for a notification: a peer that answers everything (message-queue / socket style
    transports; the bundled HTTP backends return nothing when told is_notification)"""
    if flavour in (None, 'nothing'):
        return None
    if flavour == 'empty-text':
        return ''
    if flavour == 'garbage':
        return '<html>busy</html>'
    if flavour == 'empty-array':
        return '[]'
    if flavour == 'result':
        return json.dumps({'jsonrpc': '2.0', 'id': None, 'result': 'late'})
    err = {'code': unlisted if flavour == 'error-unlisted' else listed, 'message': 'server busy', 'data': 'n'}
    if flavour == 'array-of-listed-errors':
        return json.dumps([{'jsonrpc': '2.0', 'id': None, 'error': err}])
    return json.dumps({'jsonrpc': '2.0', 'id': 7 if flavour == 'error-listed-with-an-id' else None, 'error': err})


ZERO_PARAMS = ('max_value', 'base', 'factor', 'multiplier')


def zero_valued(spec):
    """names of the backoff parameters that sit at their edge value zero (0 or 0.0; None means 'not configured')"""
    return [p for p in ZERO_PARAMS if spec.get(p) is not None and not isinstance(spec.get(p), bool) and spec.get(p) == 0]


def run_session(ctx, spec, codes, excs, is_async, requests, strict=True):
    """requests: [{'kind': single|batch|notification|notification-batch, 'source': client|request|request-none|none,
    'script': [...], 'entry': ..., 'reply': what the transport returns for a notification (NOTIF_REPLIES)}, ...]"""
    ck = 'async' if is_async else 'sync'
    rs = make_strategy(spec, codes, excs)
    decoy = retry_mod.RetryStrategy(backoff=retry_mod.PeriodicBackoff(attempts=6, interval=9.5), codes={2001, 999},
                                    exceptions={ConnectionError, KeyError})
    sources = {r['source'] for r in requests}
    if sources <= {'none'}:
        client_wide = None
    elif 'client' in sources or 'request-none' in sources:
        client_wide = rs
    else:
        client_wide = decoy
    transport_box = {}

    def transport(text, is_notification, kwargs):
        return transport_box['script'](text, is_notification, kwargs)

    cls_ = clientside.AsyncClient if is_async else clientside.SyncClient
    client = cls_(transport, retry_strategy=client_wide, strict=strict)
    ctx.hit('client-strict' if strict else 'client-non-strict')
    zeros = zero_valued(spec)
    zero_tag = (':zero-valued-' + '+'.join(zeros)) if zeros else ''
    for p in zeros:
        ctx.hit('zero-valued:' + p)
    fresh_jitter = spec.get('jitter') == 'fresh'
    delays_full = model.backoff_delays(dict(spec, jitter=0.0) if fresh_jitter else spec)
    del DRAWS[:]
    used_draws = set()
    if fresh_jitter:
        ctx.hit('jitter:fresh-value-per-draw')
    ctx.hit('client:' + ck)
    if codes == 'reserved':
        ctx.hit('codes:reserved-range')
    ctx.hit('family:' + spec['family'])
    if spec.get('jitter'):
        ctx.hit('jitter:nonzero')
    if spec.get('max_value') is not None and any(abs(d - spec['max_value']) < 1e-12 for d in delays_full):
        ctx.hit('cap-reached')
        capped = [abs(d - spec['max_value']) < 1e-12 for d in delays_full]
        if any(capped[i] and not capped[j] for i in range(len(capped)) for j in range(i + 1, len(capped))):
            ctx.hit('back-below-the-cap')
    for ridx, r in enumerate(requests):
        kind, source, script = r['kind'], r['source'], r['script']
        is_notif = kind in ('notification', 'notification-batch')
        if is_notif:
            script = ['ok' if o == 'exc-identity' else o for o in script]       # nothing comes back that could mismatch
        elif not strict:
            # a lenient client does not compare identities: the stale answer is no exception there (not this property's subject)
            script = ['exc-sub' if o == 'exc-identity' else o for o in script]
        if 'exc-identity' in script:
            ctx.hit('identity-error:' + ('listed' if any(issubclass(pjrpc.exceptions.IdentityError, e) for e in (EXCS[excs] or ())) else 'unlisted'))
        if ridx:
            ctx.hit('session:followup-requests')
        ctx.hit('kind:' + kind)
        ctx.hit('source:' + source)
        if source == 'client' and client_wide is not rs or source == 'none' and client_wide is not None:
            ctx.skip('inconsistent-session')     # generator never produces these
            continue
        effective = {'client': delays_full, 'request': delays_full, 'request-none': None, 'none': None}[source]
        exc_types = tuple(EXCS[excs] or ())
        listed, unlisted = LISTED_CODE.get(codes, 2001), UNLISTED_CODE.get(codes, 999)
        sc = Script(script, listed, unlisted)
        reply = r.get('reply') if is_notif else None
        sc.notif_reply = notification_reply(reply, listed, unlisted)
        answered = bool(sc.notif_reply)
        ntag = ':notification-answered-with-a-body' if answered else ''
        transport_box['script'] = sc
        del EVENTS[:]
        kw = {}
        if source == 'request':
            kw['_retry_strategy'] = rs
            if not CODES[codes] and not EXCS[excs]:
                ctx.hit('per-request-strategy-lists-nothing')
        elif source == 'request-none':
            kw['_retry_strategy'] = None
        entry = r.get('entry', 'send')
        if kw:
            entry = 'send'            # only send() takes a per-request strategy
        if kind == 'batch' and entry != 'send':
            entry = {'proxy': 'batch-proxy', 'dunder-call': 'batch-dunder'}.get(entry, 'call')
        if kind == 'notification' and entry != 'send':
            entry = 'notify'
        if kind == 'notification-batch' and entry != 'send':
            entry = 'batch-notify'
        ctx.hit('entry:' + entry)
        if is_notif:
            ctx.hit(f"notification-reply:{reply or 'nothing'}")
            if answered:
                ctx.hit('notification-answered-with-a-body:' + ('strict' if strict else 'non-strict'))
        if kind == 'single':
            req = v20.Request('m', [ridx], id=7 + ridx)
            fn = {'send': lambda: client.send(req, **kw), 'call': lambda: client.call('m', ridx),
                  'dunder-call': lambda: client('m', ridx), 'proxy': lambda: client.proxy.m(ridx)}[entry]
            st, out = clientside.outcome_of(fn, is_async)
        elif kind == 'batch':
            req = v20.BatchRequest(v20.Request('a', [1], id=1), v20.Request('b', [2], id=2), v20.Request('n', [3]))
            if entry == 'send':
                st, out = clientside.outcome_of(lambda: client.batch.send(req, **kw), is_async)
            elif entry == 'batch-proxy':
                st, out = clientside.outcome_of(lambda: client.batch.proxy.a(1).b(2).call(), is_async)
            elif entry == 'batch-dunder':
                st, out = clientside.outcome_of(lambda: client.batch('a', 1)('b', 2).call(), is_async)
            else:
                entry = 'call'
                st, out = clientside.outcome_of(lambda: client.batch.add('a', 1).add('b', 2).notify('n', 3).call(), is_async)
        elif kind == 'notification-batch':
            # a batch that consists of notifications only is a notification itself: the peer owes no answer
            if entry == 'send':
                req = v20.BatchRequest(v20.Request('n', [ridx]), v20.Request('n2', [ridx + 1]))
                st, out = clientside.outcome_of(lambda: client.batch.send(req, **kw), is_async)
            else:
                st, out = clientside.outcome_of(lambda: client.batch.notify('n', ridx).notify('n2', ridx + 1).call(), is_async)
        else:
            req = v20.Request('n', [ridx], id=None)
            if entry == 'send':
                st, out = clientside.outcome_of(lambda: client.send(req, **kw), is_async)
            else:
                entry = 'notify'
                st, out = clientside.outcome_of(lambda: client.notify('n', ridx), is_async)
        observed = list(EVENTS)
        want_events, final = model.run(effective, CODES[codes], exc_types, model_outcomes(script, listed, unlisted), is_notif)
        consumed = tuple(script[:final + 1])
        for pos, o in enumerate(consumed):
            ctx.hit(f"outcome:{o}:{'first' if pos == 0 else ('last' if pos == len(consumed) - 1 else 'middle')}")
        if effective is not None and sum(1 for e in want_events if e != 'send') == len(effective) and len(effective) > 0:
            ctx.hit('exhausted-strategy')
        cls = (json.dumps(spec, sort_keys=True), codes, excs, ck, kind, source, consumed, ridx, strict, reply)
        fam = f'{kind}:{source}:{ck}'
        wit = dict(backoff=spec, codes=codes, exceptions=excs, client=ck, request=ridx, kind=kind, strategy_source=source,
                   script=script, expected_events=want_events, observed_events=observed, outcome=[st, out], strict_client=strict)
        if is_notif:
            wit['transport_reply_to_the_notification'] = sc.notif_reply
        if is_notif and consumed[-1].startswith('exc'):
            ctx.unjudge('notification-with-transport-exception')
            continue
        if answered and strict:
            # a strict client refuses the unexpected body with an exception of its own: an exception during a notification
            ctx.unjudge('notification-answered-with-a-body:strict-client-raises')
            continue
        # ---- event sequence: sends, sleeps, their positions and arguments
        obs_simple = ['send' if e[0] == 'send' else ('sleep', e[1]) for e in observed]
        n_send_o = sum(1 for e in obs_simple if e == 'send')
        n_send_w = sum(1 for e in want_events if e == 'send')
        bound = (len(effective) if effective is not None else 0) + 1
        if n_send_o > bound:
            ctx.violation('more-sends-than-attempts-plus-one' + ntag, fam, cls, **wit)
            continue
        if n_send_o != n_send_w:
            last = 'a-notification' if is_notif else consumed[-1]
            ctx.violation(f"wrong-number-of-sends:{'too-many' if n_send_o > n_send_w else 'too-few'}:after-{last}" + ntag, fam, cls, **wit)
            continue
        sleeps_o = [e[1] for e in obs_simple if e != 'send']
        sleeps_w = [e[1] for e in want_events if e != 'send']
        if sleeps_o:
            ctx.hit('sleeps-observed', len(sleeps_o))
            for p in zeros:
                ctx.hit(f'zero-valued:{p}:pauses-observed')
        if len(sleeps_o) != len(sleeps_w):
            ctx.violation('wrong-number-of-pauses' + ntag, fam, cls, **wit)
            continue
        if [e if e == 'send' else 'sleep' for e in obs_simple] != [e if e == 'send' else 'sleep' for e in want_events]:
            ctx.violation('pause-at-wrong-position' + ntag, fam, cls, **wit)
            continue
        bad = [(a, b) for a, b in zip(sleeps_o, sleeps_w) if not isinstance(a, (int, float)) or abs(a - b) > 1e-9]
        if fresh_jitter:
            bad = []
            if any(not isinstance(a, (int, float)) for a in sleeps_o) or not model.pauses_explained_by_draws(
                    sleeps_o, model.raw_delays(spec), spec.get('max_value'), list(DRAWS), used_draws):
                ctx.violation(f"pause-is-not-delay-plus-a-fresh-jitter-draw:{spec['family']}" + zero_tag, fam, cls, jitter_draws=list(DRAWS),
                              raw_delays=model.raw_delays(spec), **wit)
                continue
            if len(sleeps_o) >= 2:
                ctx.hit('jitter:fresh:>=2-pauses-in-one-request')
        if bad:
            ctx.violation(f"pause-duration-differs:{spec['family']}" + zero_tag, fam, cls, differing=bad, **wit)
            continue
        wrong_kind = [e for e in observed if e[0] == 'sleep' and e[2] != ('asyncio' if is_async else 'time')]
        if wrong_kind:
            ctx.violation(f'pause-through-wrong-sleep-function:{wrong_kind[0][2]}', fam, cls, **wit)
            continue
        # ---- what reaches the caller is the last attempt's outcome, unchanged
        last = consumed[-1]
        if last == 'exc-identity':
            if st != 'exc' or type(out) is not pjrpc.exceptions.IdentityError:
                ctx.violation('last-exception-not-reraised-unchanged:identity-error', fam, cls, **wit)
                continue
        elif last.startswith('exc'):
            if st != 'exc' or out is not sc.raised[final]:
                ctx.violation('last-exception-not-reraised-unchanged', fam, cls, **wit)
                continue
        elif is_notif:
            if st != 'ret' or out is not None:
                ctx.violation('notification-did-not-return-none' + (f':raised-{type(out).__name__}' if st == 'exc' else '') + ntag, fam, cls, **wit)
                continue
        else:
            want_ok = last == 'ok'
            # what reached the caller, whatever the entry point: ('ok', results) / ('error', code, data) / ('other', ...)
            if st == 'exc':
                got = ('error', out.code, out.data) if isinstance(out, pjrpc.exceptions.JsonRpcError) and entry != 'send' else ('other', type(out).__name__)
            elif entry == 'send':
                if out is None:
                    got = ('other', 'None')
                elif out.is_success:
                    got = ('ok', list(out.result) if kind == 'batch' else [out.result])
                else:
                    got = ('error', out.error.code, out.error.data)
            else:
                got = ('ok', list(out) if kind == 'batch' and isinstance(out, (tuple, list)) else [out])
            if want_ok:
                want = ('ok', [f'ok{final}'] * (2 if kind == 'batch' else 1))
            else:
                want = ('error', listed if last == 'listed' else unlisted, final)
            if got != want:
                if got[0] == 'other':
                    ctx.violation(f'last-response-not-returned:{got[1]}', fam, cls, **wit)
                else:
                    ctx.violation('returned-response-is-not-the-last-attempts', fam, cls, reached_caller=list(got), expected=list(want), **wit)
                continue
        ctx.ok(fam, cls, sample=wit)


# ---- generation -----------------------------------------------------------------------------------------

def backoff_grid(n):
    js = [0.0, 0.25, -0.125, 'fresh']
    out = []
    for j in js:
        out.append({'family': 'periodic', 'attempts': n, 'interval': 1.5, 'jitter': j})
        out.append({'family': 'periodic', 'attempts': n, 'interval': 0.0, 'jitter': j})
        for mx in (None, 2.5, 0.5):
            out.append({'family': 'exponential', 'attempts': n, 'base': 1.0, 'factor': 2.0, 'max_value': mx, 'jitter': j})
            out.append({'family': 'exponential', 'attempts': n, 'base': 0.5, 'factor': 1.0, 'max_value': mx, 'jitter': j})
            out.append({'family': 'exponential', 'attempts': n, 'base': 2.0, 'factor': 3.0, 'max_value': mx, 'jitter': j})
            out.append({'family': 'fibonacci', 'attempts': n, 'multiplier': 1.0, 'max_value': mx, 'jitter': j})
            out.append({'family': 'fibonacci', 'attempts': n, 'multiplier': 0.75, 'max_value': mx, 'jitter': j})
    # delays that come back below the cap after having reached it: a decaying factor, a jitter larger than the step
    out.append({'family': 'exponential', 'attempts': n, 'base': 8.0, 'factor': 0.5, 'max_value': 3.0, 'jitter': 0.0})
    out.append({'family': 'exponential', 'attempts': n, 'base': 8.0, 'factor': 0.5, 'max_value': 3.0, 'jitter': 'fresh'})
    out.append({'family': 'exponential', 'attempts': n, 'base': 4.0, 'factor': 2.0, 'max_value': 6.0, 'jitter': -3.0})
    out.append({'family': 'exponential', 'attempts': n, 'base': 1.0, 'factor': 0.25, 'max_value': None, 'jitter': 0.0})
    for how in ('iter', 'map', 'islice'):
        out.append({'family': 'custom-iterator', 'attempts': n, 'schedule': [0.5, 0.25, 2.0, 0.125, 1.0][:n], 'how': how})
    # parameters at their edge value zero. A cap of exactly 0 / 0.0 is a cap below every delay ("retry at once, never wait");
    # a zero base / multiplier leaves the jitter alone; a zero factor gives base, 0, 0, ... (x ** 0 == 1)
    for j in js:
        for mx in (0, 0.0):
            out.append({'family': 'exponential', 'attempts': n, 'base': 1.0, 'factor': 2.0, 'max_value': mx, 'jitter': j})
            out.append({'family': 'fibonacci', 'attempts': n, 'multiplier': 2.0 if mx == 0 and isinstance(mx, int) else 0.75,
                        'max_value': mx, 'jitter': j})
        out.append({'family': 'exponential', 'attempts': n, 'base': 0.0, 'factor': 2.0, 'max_value': (None, 2.5, 0.0, 0.5)[js.index(j)], 'jitter': j})
        out.append({'family': 'fibonacci', 'attempts': n, 'multiplier': 0.0, 'max_value': (0.5, None, 2.5, 0)[js.index(j)], 'jitter': j})
        out.append({'family': 'exponential', 'attempts': n, 'base': 1.5, 'factor': 0.0, 'max_value': (None, 0.5, None, 2.5)[js.index(j)], 'jitter': j})
    out.append({'family': 'exponential', 'attempts': n, 'base': 0, 'factor': 0, 'max_value': 0, 'jitter': 0.0})
    out.append({'family': 'exponential', 'attempts': n, 'base': 0.5, 'factor': 3.0, 'max_value': 0.0, 'jitter': 0.25})
    out.append({'family': 'fibonacci', 'attempts': n, 'multiplier': 3, 'max_value': 0, 'jitter': -0.125})
    out.append({'family': 'fibonacci', 'attempts': n, 'multiplier': 0.0, 'max_value': 0.0, 'jitter': 0.25})
    # gen() strides through the grid in steps of 7 and derives the other dimensions from k modulo 2, 3, 5, 7, 8, 11
    assert all(len(out) % p for p in (2, 3, 5, 7, 11)), len(out)
    return out


def gen(ctx):
    rng = ctx.rng
    deep = ctx.thorough
    full = True
    kinds = ['single', 'batch', 'notification']
    k = 0
    for n in (0, 1, 2, 3, 4):
        grid = backoff_grid(n)
        if n <= 2 or (deep and n == 3):
            scripts = list(itertools.product(_OUT, repeat=n + 2))
        else:
            scripts = [tuple(rng.choice(_OUT) for _ in range(n + 2)) for _ in range(3000 if full else 250)]
            # make long retry chains likely
            scripts += [tuple(rng.choice(['listed', 'exc-listed', 'exc-sub']) for _ in range(n + 1)) + (rng.choice(_OUT),)
                        for _ in range(1500 if full else 150)]
        for script in scripts:
            reps = (12 if n <= 2 else 3) if deep else (4 if n <= 2 else 1)
            for _ in range(reps):
                k += 1
                spec = grid[(k * 7) % len(grid)]
                codes = ('one', 'several', 'one', 'none', 'one', 'empty', 'several', 'reserved')[k % 8]
                excs = ('one', 'several', 'one', 'one', 'none', 'several', 'empty')[(k // 3) % 7]
                kind = kinds[k % 3] if (k % 11) else 'notification'
                source = ('client', 'request', 'client', 'request', 'request-none', 'client', 'none')[(k // 2) % 7]
                if kind == 'notification' and source == 'request':
                    source = 'client'
                script_ = list(script)
                if k % 4 == 0 and kind != 'notification':
                    # the exception an attempt ends in is raised by the client's own reply processing
                    script_ = ['exc-identity' if o == ('exc-listed', 'exc-unlisted', 'exc-sub')[(k // 4) % 3] else o for o in script_]
                    excs = ('identity', 'base', 'one', 'identity', 'none')[(k // 4) % 5]
                reqs = [{'kind': kind, 'source': source, 'script': script_,
                         'entry': ('send', 'call', 'dunder-call', 'proxy', 'send')[(k // 7) % 5]}]
                strict = True
                if k % 11 == 0:
                    # the notifications of this stride: lenient as well as strict clients, a peer that answers notifications
                    # too, a batch made of notifications only
                    strict = bool((k // 11) % 3 == 0)
                    reqs[0]['reply'] = NOTIF_REPLIES[(k // 11) % len(NOTIF_REPLIES)]
                    if (k // 11) % 2:
                        reqs[0]['kind'] = 'notification-batch'
                # follow-up requests on the same client: each gets a fresh retry budget and fresh pacing
                if source in ('client', 'request') and (k % 2):
                    for _ in range(1 + (k % 3 == 0)):
                        s2 = list(rng.choice(scripts))
                        reqs.append({'kind': kinds[rng.randrange(2)], 'source': source, 'script': s2,
                                     'entry': rng.choice(['send', 'call', 'dunder-call', 'proxy'])})
                yield 'session', dict(spec=spec, codes=codes, excs=excs, is_async=bool((k // 5) % 2), requests=reqs,
                                      **({} if strict else {'strict': False}))


class DroppingServer:
    """a loop-back HTTP server that reads each request completely and then closes the first `drops` connections without an
    answer (a peer going away after the request was written); later connections get a proper JSON-RPC reply"""

    def __init__(self, drops):
        import socket
        import threading
        self.drops = drops
        self.connections = 0
        self.sock = socket.socket(socket.AF_INET, socket.SOCK_STREAM)
        self.sock.setsockopt(socket.SOL_SOCKET, socket.SO_REUSEADDR, 1)
        self.sock.bind(('127.0.0.1', 0))
        self.sock.listen(32)
        self.port = self.sock.getsockname()[1]
        self.thread = threading.Thread(target=self._serve, daemon=True)
        self.thread.start()

    def _serve(self):
        while True:
            try:
                c, _ = self.sock.accept()
            except OSError:
                return
            try:
                c.settimeout(5)
                buf = b''
                while b'\r\n\r\n' not in buf:
                    chunk = c.recv(65536)
                    if not chunk:
                        break
                    buf += chunk
                head, _, body = buf.partition(b'\r\n\r\n')
                length = 0
                for line in head.split(b'\r\n'):
                    if line.lower().startswith(b'content-length:'):
                        length = int(line.split(b':', 1)[1])
                while len(body) < length:
                    chunk = c.recv(65536)
                    if not chunk:
                        break
                    body += chunk
                self.connections += 1
                if self.connections > self.drops:
                    try:
                        rid = json.loads(body.decode() or 'null')['id']
                    except Exception:
                        rid = None
                    payload = json.dumps({'jsonrpc': '2.0', 'id': rid, 'result': f'conn{self.connections}'}).encode()
                    c.sendall(b'HTTP/1.1 200 OK\r\nContent-Type: application/json\r\nConnection: close\r\nContent-Length: '
                              + str(len(payload)).encode() + b'\r\n\r\n' + payload)
            except Exception:
                pass
            finally:
                try:
                    c.close()
                except Exception:
                    pass

    def close(self):
        try:
            self.sock.close()
        except Exception:
            pass


def run_backend(ctx, backend, drops, attempts, listed):
    """the library's own HTTP backends against a peer that drops connections: every send is one connection, and how many
    there are is the retry strategy's business alone"""
    import importlib
    try:
        if backend == 'requests':
            import requests
            mod = importlib.import_module('pjrpc.client.backend.requests')
            exc_cls = requests.exceptions.ConnectionError
        else:
            import httpx
            mod = importlib.import_module('pjrpc.client.backend.httpx')
            exc_cls = httpx.TransportError
    except Exception as e:
        ctx.skip(f'backend-not-importable:{type(e).__name__}')
        return
    srv = DroppingServer(drops)
    try:
        strategy = None
        if attempts is not None:
            strategy = retry_mod.RetryStrategy(backoff=retry_mod.PeriodicBackoff(attempts=attempts, interval=0.25),
                                               exceptions={exc_cls} if listed else {KeyError}, codes={2001})
        client = mod.Client(f'http://127.0.0.1:{srv.port}/rpc', retry_strategy=strategy)
        del EVENTS[:]
        st, out = clientside.outcome_of(lambda: client.call('m', 1), False)
        sleeps = [e[1] for e in EVENTS if e[0] == 'sleep']
        allowed = (attempts if (attempts is not None and listed) else 0) + 1
        want_sends = min(drops, allowed - 1) + 1 if drops >= 1 else 1
        want_ok = drops < allowed
        ctx.hit('backend:' + backend)
        cls = ('backend', backend, drops, attempts, listed)
        wit = dict(backend=backend, connections_dropped_by_the_peer=drops, retry_attempts=attempts, connection_errors_listed=listed,
                   connections_seen_by_the_peer=srv.connections, expected_connections=want_sends, pauses=sleeps, outcome=[st, out])
        if srv.connections > allowed:
            ctx.violation('more-sends-than-attempts-plus-one:library-backend', 'backend', cls, **wit)
        elif srv.connections != want_sends:
            ctx.violation(f"wrong-number-of-sends:{'too-many' if srv.connections > want_sends else 'too-few'}:library-backend", 'backend', cls, **wit)
        elif len(sleeps) != want_sends - 1:
            ctx.violation('wrong-number-of-pauses:library-backend', 'backend', cls, **wit)
        elif want_ok and (st != 'ret' or out != f'conn{want_sends}'):
            ctx.violation('last-response-not-returned:library-backend', 'backend', cls, **wit)
        elif not want_ok and (st != 'exc' or not isinstance(out, exc_cls)):
            ctx.violation('last-exception-not-reraised-unchanged:library-backend', 'backend', cls, **wit)
        else:
            ctx.ok(f'backend:{backend}', cls, sample=wit)
    finally:
        srv.close()


def crafted(ctx):
    """a per-request strategy REPLACES the client-wide one, also when it lists nothing at all"""
    grid = backoff_grid(2)
    k = 0
    for script in itertools.product(_OUT, repeat=3):
        for kind in ('single', 'batch'):
            k += 1
            yield 'session', dict(spec=grid[k % len(grid)], codes=('none', 'empty')[k % 2], excs=('none', 'empty', 'none')[k % 3],
                                  is_async=bool(k % 2), requests=[{'kind': kind, 'source': 'request', 'script': list(script) + ['ok']}])


def crafted_notifications(ctx):
    """notifications return at once - one send, no pause, nothing returned - whoever sends them (strict or lenient client; notify,
    send of an id-less request, a batch made of notifications only), whatever strategy is in effect and whatever the transport
    hands back for them (nothing, an empty text, an error reply whose code the strategy lists, ...)"""
    grid = [s for n in (1, 2, 3) for s in backoff_grid(n)]
    k = 0
    for strict in (False, True):
        for reply in NOTIF_REPLIES:
            for kind, entry in (('notification', 'send'), ('notification', 'notify'), ('notification-batch', 'send'),
                                ('notification-batch', 'batch-notify')):
                for source in ('client', 'request', 'request-none', 'none'):
                    for codes in ('one', 'several', 'reserved', 'none', 'empty'):
                        for is_async in (False, True):
                            k += 1
                            first = 'exc-listed' if k % 13 == 0 else 'ok'
                            reqs = [{'kind': kind, 'source': source, 'entry': entry, 'reply': reply, 'script': [first] + ['ok'] * 4}]
                            if k % 2:
                                # the notification has used up nothing: the next request has the whole retry budget and pacing
                                reqs.append({'kind': ('single', 'batch')[(k // 2) % 2], 'source': source, 'entry': 'send',
                                             'script': [('listed', 'exc-listed', 'exc-sub')[(k // 4 + i) % 3] for i in range(3)] + ['unlisted', 'ok']})
                                if k % 3 == 0:
                                    reqs.append(dict(reqs[0], entry=('send', 'notify')[(k // 6) % 2]))
                            yield 'session', dict(spec=grid[(k * 7) % len(grid)], codes=codes, excs=('one', 'base', 'none', 'several')[(k // 3) % 4],
                                                  is_async=is_async, requests=reqs, strict=strict)


_gen_sampled = gen


def gen(ctx):
    yield from crafted(ctx)
    yield from crafted_notifications(ctx)
    for backend in ('requests', 'httpx'):
        for drops in (0, 1, 2, 3, 5):
            for attempts, listed in ((None, True), (0, True), (1, True), (2, True), (3, True), (2, False)):
                yield 'backend', dict(backend=backend, drops=drops, attempts=attempts, listed=listed)
    yield from _gen_sampled(ctx)


KINDS = {'session': run_session, 'backend': run_backend}
