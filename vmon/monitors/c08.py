"""C08 - the client matches responses to requests by id and rejects mismatches."""
from __future__ import annotations

import functools
import itertools
import json

import pjrpc
from pjrpc.common import UNSET, v20
from pjrpc.common.exceptions import DeserializationError, IdentityError, JsonRpcError

from .. import clientside
from ..models import client_match
from ..strictjson import typed_eq

PID = 'C08'
LEVEL = 'fault_enumeration'
RULE = ('one case = one scripted response document returned by the transport for a single call or a batch of 1..4 calls '
        '(+0..2 notifications) made by the real sync / async client, strict on / off, observed through send() and through '
        'call(). Fault space: every permutation of the correct array (n <= 3 exhaustively, n = 4 sampled) x every '
        'success/error mix x {none, omit k, duplicate k, add an unasked id, retype id k ("1" for 1), boolean / fractional / '
        'null id on k, `jsonrpc` member of element k / of every element not exactly the string "2.0"} + batch-level error '
        'object (also with every wrong `jsonrpc` member, and also carrying a result of every JSON type next to the error) + non-array / invalid-element garbage; singles: id relation {equal, '
        'different, null, retyped, boolean} x {result, error}, and every wrong `jsonrpc` member x {result, error}. Wrong '
        '`jsonrpc` members: absent, null, the numbers 2.0 / 2 / 2.1 / 20 / 0 / 1.0, booleans, other strings ("2", "2.00", '
        '"1.0", "2.1", "", padded, fullwidth digits), containers holding "2.0". Expected verdicts come from vmon/models/client_match.py; '
        'every call result is a unique token so attribution is unambiguous. Distinct = distinct (request shape, response '
        'document, strict, client kind, operation).')
ASSUMPTIONS = [
    'elements with a null id inside a batch array: only "no foreign exception type" is judged',
    'bodies that are not JSON at all are outside the statement ("a JSON body ..."): any exception is accepted, recorded',
    'non-strict mode: acceptance, linking and "no foreign exception type" are judged; attribution only when nothing is missing or extra',
]
SHARDS = {'quick': 4, 'thorough': 16}
TIMEOUT = {'quick': 900, 'thorough': 3600}
ANCHORS = [
    ('pjrpc/client/client.py', 'BaseAbstractClient._relate'), ('pjrpc/client/client.py', 'BaseBatch._relate'),
    ('pjrpc/common/v20.py', 'BatchResponse.from_json'), ('pjrpc/common/v20.py', 'BatchResponse.result'),
    ('pjrpc/common/v20.py', 'BatchResponse._add_ids'), ('pjrpc/common/v20.py', 'Response.from_json'),
    ('pjrpc/client/client.py', 'AbstractClient._send'), ('pjrpc/client/client.py', 'AbstractAsyncClient._send'),
]
_FAULTS = ['none', 'omit', 'duplicate', 'extra', 'retype', 'bool-id', 'float-id', 'null-id', 'extra-null-id', 'batch-level-error', 'garbage',
           'omit-two', 'extra-two', 'omit+null-id-error', 'version', 'version-batch-level', 'batch-level-error+result']
FLOORS = {'*': {**{f'fault:{f}:{k}': 5 for f in _FAULTS for k in ('sync', 'async')},
                'permutation:non-identity-accepted': 50, 'single:equal': 10, 'single:different': 10, 'single:null': 10,
                'single:retyped': 10, 'single:bool': 4, 'strict:off': 100, 'op:send': 200, 'op:call': 200,
                'mix:has-error': 100, 'verdict:accept-with-null-id-elements': 20, 'ids:zero': 50, 'ids:str': 50, 'prior:accepted': 30, 'prior:refused': 30, 'verdict:identity': 100, 'verdict:deser': 50, 'verdict:accept': 200,
                'single:both-result-and-error': 100,
                'version:single': 100, 'version:batch-element': 300, 'version:batch-level': 100,
                **{f'version:{t}': 20 for t in ('absent', 'null', 'number', 'bool', 'string', 'container')}}}


def scheme_ids(ids, n):
    if ids == 'zero':
        return list(range(0, n))
    if ids == 'str':
        return ['', 'a', 'b', '1'][:n]
    if ids == 'mixed':
        return [1, 'a', 2, 'b'][:n]          # caller-built requests may mix integer and string ids
    return list(range(1, n + 1))


def elem_for(ids, i, ok=True):
    """response element for the i-th call (1-based) under id scheme `ids`"""
    return elem(i, ok, id_=scheme_ids(ids, 4)[i - 1])


def elem(i, ok=True, id_=None):
    rid = i if id_ is None else id_
    if ok:
        return {'jsonrpc': '2.0', 'id': rid, 'result': f'r{i}'}
    return {'jsonrpc': '2.0', 'id': rid, 'error': {'code': 100 + i, 'message': f'e{i}', 'data': {'call': i}}}


def lib_exc(e):
    return isinstance(e, (pjrpc.exceptions.BaseError,))


def make_client(is_async, text, strict, id_start=1):
    cls = clientside.AsyncClient if is_async else clientside.SyncClient
    script = text if isinstance(text, list) else None

    def transport(t, n, k):
        return script.pop(0) if script else text
    return cls(transport, strict=strict, id_gen_impl=functools.partial(pjrpc.common.generators.sequential, start=id_start))


def run_batch(ctx, n, notif_at, doc, fault, strict, is_async, op, nonjson=None, ids='one', prior='none'):
    """n calls (ids in call order per scheme `ids`), notifications inserted at positions `notif_at`; the transport
    returns `doc`. `prior`: the same request object was already sent once ('accepted' / 'refused') before the judged send."""
    text = nonjson if nonjson is not None else json.dumps(doc)
    ck = 'async' if is_async else 'sync'
    call_ids = scheme_ids(ids, n)
    script = None
    if prior != 'none' and op == 'send':
        full_ok = [elem_for(ids, i, True) for i in range(1, n + 1)]
        first = full_ok if prior == 'accepted' else full_ok[:-1] + [elem(99, True, id_='zz')]
        script = [json.dumps(first), text]
        ctx.hit('prior:' + prior)
    client = make_client(is_async, script if script else text, strict, id_start=0 if ids == 'zero' else 1)
    ctx.hit('ids:' + ids)
    ctx.hit(f'fault:{fault}:{ck}')
    if fault in ('version', 'version-batch-level') and nonjson is None:
        ctx.hit('version:batch-element' if fault == 'version' else 'version:batch-level')
        for o in (doc if isinstance(doc, list) else [doc]):
            if version_class(o) != 'exact':
                ctx.hit('version:' + version_class(o))
    ctx.hit('op:' + op)
    if not strict:
        ctx.hit('strict:off')
    cls = (n, tuple(notif_at), text, strict, ck, op, ids, prior)
    layout = []
    ci = 0
    total = n + len(notif_at)
    for pos in range(total):
        if pos in notif_at:
            layout.append(None)
        else:
            ci += 1
            layout.append(ci)
    if op == 'send':
        reqs = [v20.Request(f'm{c}' if c else 'note', [c] if c else [], id=call_ids[c - 1] if c else None) for c in layout]
        breq = v20.BatchRequest(*reqs)
        if script:
            clientside.outcome_of(lambda: client.batch.send(breq), is_async)     # the earlier send of the same object
        st, out = clientside.outcome_of(lambda: client.batch.send(breq), is_async)
    else:
        def go():
            b = client.batch
            for c in layout:
                if c is None:
                    b.notify('note')
                else:
                    b.add(f'm{c}', c)
            return b.call()
        st, out = clientside.outcome_of(go, is_async)
        reqs = None
    wit = dict(calls=n, call_ids=call_ids, layout=layout, response_text=text, strict=strict, client=ck, op=op, fault=fault,
               same_request_object_sent_before=prior, outcome=[st, out])
    if nonjson is not None:
        ctx.unjudge('body-not-json')
        return
    verdict, info = client_match.batch(call_ids, doc, strict)
    if st == 'exc' and not lib_exc(out) and not (verdict in ('accept', 'batch-error') and isinstance(out, JsonRpcError)):
        ctx.violation(f'foreign-exception:{type(out).__name__}:model-{verdict}', f'batch:{fault}', cls, **wit)
        return
    fam = f'batch:{fault}:{ck}'
    if verdict == 'open':
        ctx.unjudge('batch:' + info)
        return
    if verdict == 'accept-null':
        ctx.hit('verdict:accept-with-null-id-elements')
        if op == 'send':
            if st != 'ret' or out is None:
                ctx.violation(f'valid-batch-response-refused:{type(out).__name__}:null-id-element', fam, cls, **wit)
                return
            kept = [r for r in out if r.id is None]
            if len(out) != len(doc) or len(kept) != len(info['nulls']):
                ctx.violation('null-id-response-dropped-from-the-batch', fam, cls, kept=len(out), sent=len(doc), **wit)
                return
            st2, res = clientside.outcome_of(lambda: out.result, False)
        else:
            st2, res = st, out
        if info['any_error'] and (st2 != 'exc' or not isinstance(res, JsonRpcError)):
            ctx.violation('server-error-in-batch-not-raised:null-id-element', fam, cls, result=[st2, res], **wit)
            return
        ctx.ok(fam + ':accept-null-id', cls, sample=wit)
        return
    if verdict == 'deser':
        ctx.hit('verdict:deser')
        if st != 'exc' or not isinstance(out, DeserializationError):
            ctx.violation(f'invalid-response-body-not-refused-with-DeserializationError:{fault}', fam, cls, **wit)
            return
        ctx.ok(fam + ':deser', cls, sample=wit)
        return
    if verdict == 'identity':
        ctx.hit('verdict:identity')
        if st == 'exc' and isinstance(out, IdentityError):
            ctx.ok(fam + ':identity', cls, sample=wit)
            return
        if not strict and info == 'duplicate':
            ctx.unjudge('non-strict-duplicate-ids')
            return
        ctx.violation(f'mismatched-batch-response-accepted:{info}' if st == 'ret' else
                      f'mismatched-batch-response-raised-{type(out).__name__}:{info}', fam, cls, **wit)
        return
    if verdict == 'batch-error':
        e = info
        if op == 'send':
            if st != 'ret' or out is None or not out.is_error:
                ctx.violation('batch-level-error-not-reported-by-send', fam, cls, **wit)
                return
            err = out.error
            try:
                out.result
                ctx.violation('batch-level-error-result-does-not-raise', fam, cls, **wit)
                return
            except JsonRpcError as raised:
                if raised is not err:
                    ctx.violation('batch-level-error-result-raises-other-error', fam, cls, **wit)
                    return
        else:
            if st != 'exc' or not isinstance(out, JsonRpcError):
                ctx.violation('batch-level-error-not-raised-by-call', fam, cls, **wit)
                return
            err = out
        if err.code != e['code'] or err.message != e['message'] or \
                (('data' in e) != (err.data is not UNSET)) or ('data' in e and not typed_eq(err.data, e['data'])):
            ctx.violation('batch-level-error-content-differs', fam, cls, **wit)
            return
        ctx.ok(fam, cls, sample=wit)
        return
    # ---- accepted
    ctx.hit('verdict:accept')
    by_call = info['by_call']
    complete = not info['missing'] and not info['extra']
    first_err = next((by_call[p] for p in range(n) if p in by_call and 'error' in by_call[p]), None)
    if first_err is not None:
        ctx.hit('mix:has-error')
    ids_in_doc = [r['id'] for r in doc]
    if complete and ids_in_doc != call_ids:
        ctx.hit('permutation:non-identity-accepted')
    if op == 'send':
        if st != 'ret' or out is None:
            ctx.violation(f'valid-batch-response-refused:{type(out).__name__}', fam, cls, **wit)
            return
        resp = out
        # linking
        got = list(resp)
        for r in got:
            if r.id is None:
                continue
            want_req = next((q for q in reqs if q.id is not None and typed_eq(q.id, r.id)), None)
            if want_req is not None and r.related is not want_req:
                ctx.violation('accepted-response-not-linked-to-its-request', fam, cls, related=repr(r.related), **wit)
                return
            if want_req is None and r.related is not None:
                ctx.violation('unasked-response-linked-to-a-request', fam, cls, related=repr(r.related), **wit)
                return
        if complete:
            # by position
            pos_ids = [r.id for r in got]
            if pos_ids != call_ids:
                ctx.violation('positional-access-not-in-call-order', fam, cls, positions=pos_ids, **wit)
                return
            if [resp[i].id for i in range(n)] != call_ids:
                ctx.violation('positional-access-not-in-call-order', fam, cls, **wit)
                return
            st2, res = clientside.outcome_of(lambda: resp.result, False)
        else:
            ctx.ok(fam + ':accept-incomplete', cls, sample=wit)
            return
    else:
        st2, res = st, out
        if not complete:
            if st == 'exc' and not isinstance(out, JsonRpcError):
                ctx.violation(f'valid-batch-response-refused:{type(out).__name__}', fam, cls, **wit)
                return
            ctx.ok(fam + ':accept-incomplete', cls, sample=wit)
            return
    if first_err is not None:
        e = first_err['error']
        if st2 != 'exc' or not isinstance(res, JsonRpcError):
            ctx.violation('server-error-in-batch-not-raised', fam, cls, result=[st2, res], **wit)
            return
        if res.code != e['code'] or res.message != e['message']:
            ctx.violation('batch-raises-error-of-a-different-call-than-the-first-failing-one', fam, cls,
                          expected_code=e['code'], raised=repr(res), **wit)
            return
    else:
        if st2 != 'ret':
            ctx.violation(f'valid-batch-response-refused:{type(res).__name__}', fam, cls, result=[st2, res], **wit)
            return
        want = [by_call[p]['result'] for p in range(n)]
        if not isinstance(res, tuple) or list(res) != want:
            ctx.violation('results-not-attributed-in-call-order', fam, cls, expected=want, got=res, **wit)
            return
    ctx.ok(fam + ':accept', cls, sample=wit)


def run_single(ctx, request_id, doc, relation, strict, is_async, op, nonjson=None):
    text = nonjson if nonjson is not None else json.dumps(doc)
    ck = 'async' if is_async else 'sync'
    client = make_client(is_async, text, strict)
    ctx.hit('single:' + relation)
    if relation == 'version':
        ctx.hit('version:single')
        ctx.hit('version:' + version_class(doc))
    ctx.hit('op:' + op)
    if not strict:
        ctx.hit('strict:off')
    req = v20.Request('m', [1], id=request_id)
    if op == 'send':
        st, out = clientside.outcome_of(lambda: client.send(req), is_async)
    else:
        # call() draws the id from a fresh sequential generator: always 1
        st, out = clientside.outcome_of(lambda: client.call('m', 1), is_async)
        request_id = 1
    cls = (repr(request_id), text, strict, ck, op)
    fam = f'single:{relation}:{ck}'
    wit = dict(request_id=request_id, response_text=text, strict=strict, client=ck, op=op, outcome=[st, out])
    if nonjson is not None:
        ctx.unjudge('body-not-json')
        return
    verdict, info = client_match.single(request_id, doc, strict)
    if st == 'exc' and not lib_exc(out):
        ctx.violation(f'foreign-exception:{type(out).__name__}:model-{verdict}', fam, cls, **wit)
        return
    if verdict == 'deser':
        ctx.hit('verdict:deser')
        if st != 'exc' or not isinstance(out, DeserializationError):
            ctx.violation('invalid-response-body-not-refused-with-DeserializationError:single' +
                          (':version' if relation == 'version' else ''), fam, cls, **wit)
            return
    elif verdict == 'identity':
        ctx.hit('verdict:identity')
        if st != 'exc' or not isinstance(out, IdentityError):
            ctx.violation('mismatched-single-response-accepted' if st == 'ret' else
                          f'mismatched-single-response-raised-{type(out).__name__}', fam, cls, **wit)
            return
    else:
        ctx.hit('verdict:accept')
        if 'error' in doc:
            e = doc['error']
            if op == 'send':
                if st != 'ret' or not out.is_error:
                    ctx.violation('error-response-not-returned-by-send', fam, cls, **wit)
                    return
                if out.related is not req:
                    ctx.violation('accepted-response-not-linked-to-its-request', fam, cls, **wit)
                    return
                st, out = clientside.outcome_of(lambda: out.result, False)
            if st != 'exc' or not isinstance(out, JsonRpcError) or out.code != e['code'] or out.message != e['message']:
                ctx.violation('server-error-not-raised-to-the-caller', fam, cls, **wit)
                return
        else:
            if st != 'ret':
                ctx.violation(f'valid-response-refused:{type(out).__name__}', fam, cls, **wit)
                return
            if op == 'send':
                if out.related is not req:
                    ctx.violation('accepted-response-not-linked-to-its-request', fam, cls, **wit)
                    return
                out = out.result
            if not typed_eq(out, doc['result']):
                ctx.violation('result-differs-from-response', fam, cls, **wit)
                return
    ctx.ok(fam + ':' + verdict, cls, sample=wit)


# ---- generation ---------------------------------------------------------------------------------------

BOTH_RESULTS = [None, False, True, 0, 1, 1.5, '', 'r1', [], ['r1', 'r2'], {}, {'a': 1}]
NO_MEMBER = '__absent__'
# everything a `jsonrpc` member can be that is not exactly the JSON string "2.0": member missing, null, numbers (the number
# 2.0, whose decimal text reads like the version string, the integer 2, others), booleans, other strings (shorter / longer
# spellings, other versions, blanks around it, look-alike digits), containers that hold the right string
WRONG_VERSIONS = [NO_MEMBER, None, 2.0, 2, 2.1, 20, 0, 1.0, True, False, '2', '2.00', '1.0', '2.1', '', ' 2.0', '2.0 ', 'v2.0',
                  '\uff12.\uff10', ['2.0'], {'2.0': '2.0'}, []]


def with_version(obj, v):
    o = dict(obj)
    if isinstance(v, str) and v == NO_MEMBER:
        o.pop('jsonrpc', None)
    else:
        o['jsonrpc'] = v
    return o


def version_class(obj):
    if not isinstance(obj, dict) or 'jsonrpc' not in obj:
        return 'absent'
    v = obj['jsonrpc']
    if v is None:
        return 'null'
    if isinstance(v, bool):
        return 'bool'
    if isinstance(v, (int, float)):
        return 'number'
    if isinstance(v, str):
        return 'exact' if v == '2.0' else 'string'
    return 'container'


def mutate(perm_doc, n, fault, k, rng):
    d = [dict(e) for e in perm_doc]
    if fault == 'none':
        return d
    idx = k % len(d)
    if fault == 'omit':
        del d[idx]
    elif fault == 'omit+null-id-error':
        # one answer missing, and one null-id error element in its place (anywhere in the array)
        del d[idx]
        d.insert(rng.randrange(len(d) + 1), {'jsonrpc': '2.0', 'id': None, 'error': {'code': -32600, 'message': 'Invalid Request', 'data': k}})
    elif fault == 'omit-two':
        # two answers missing (with the 'mixed' id scheme: ids of different JSON types)
        del d[idx]
        if d:
            del d[idx % len(d)]
    elif fault == 'extra-two':
        # two answers nobody asked for, their ids of different JSON types
        d.insert(rng.randrange(len(d) + 1), elem(8, True, id_='zz'))
        d.insert(rng.randrange(len(d) + 1), elem(9, k % 2 == 0, id_=999))
    elif fault == 'duplicate':
        d.insert(rng.randrange(len(d) + 1), dict(d[idx]))
    elif fault == 'extra':
        d.insert(rng.randrange(len(d) + 1), elem(9, True, id_=[n + 1, 0, 'x', str(d[idx]['id']), -1][k % 5]))
    elif fault == 'retype':
        d[idx]['id'] = str(d[idx]['id']) if isinstance(d[idx]['id'], int) else (1 if d[idx]['id'] == '1' else 0)
    elif fault == 'bool-id':
        d[idx]['id'] = True
    elif fault == 'float-id':
        d[idx]['id'] = float(d[idx]['id']) if isinstance(d[idx]['id'], int) else 1.5
    elif fault == 'null-id':
        d[idx]['id'] = None
    elif fault == 'extra-null-id':
        extra = ({'jsonrpc': '2.0', 'id': None, 'error': {'code': -32600, 'message': 'Invalid Request', 'data': k}} if k % 3 else
                 {'jsonrpc': '2.0', 'id': None, 'result': 'stray'})
        d.insert(rng.randrange(len(d) + 1), extra)
    return d


GARBAGE = [{'jsonrpc': '2.0', 'id': 1, 'result': 5, 'error': None}, [{'jsonrpc': '2.0', 'id': 1, 'result': 5, 'error': None}],
           {'jsonrpc': '2.0', 'id': 1, 'result': None, 'error': None}, [{'jsonrpc': '2.0', 'id': 1, 'error': None}],
           None, True, 0, 1.5, 'text', {}, {'jsonrpc': '2.0'}, {'jsonrpc': '2.0', 'id': 1}, {'jsonrpc': '2.0', 'id': 1, 'result': 1},
           {'jsonrpc': '1.0', 'id': None, 'error': {'code': 1, 'message': 'm'}}, {'jsonrpc': '2.0', 'id': None, 'error': {'code': '1', 'message': 'm'}},
           {'jsonrpc': '2.0', 'id': None, 'error': 'boom'}, [1], [None], [[]], ['x'], [{}], [{'jsonrpc': '2.0', 'id': 1}],
           [{'jsonrpc': '2.0', 'id': 1, 'result': 1, 'error': {'code': 1, 'message': 'm'}}], [{'jsonrpc': '2.0', 'id': 1, 'error': {'code': 1}}],
           [{'id': 1, 'result': 1}], [{'jsonrpc': '2.0', 'id': [1], 'result': 1}], [{'jsonrpc': '2.0', 'id': {}, 'result': 1}],
           # error objects lacking a required member although their code is one the library has an error class (with a default
           # message) for
           {'jsonrpc': '2.0', 'id': 1, 'error': {'code': -32601}}, [{'jsonrpc': '2.0', 'id': 1, 'error': {'code': -32602, 'data': 'd'}}],
           {'jsonrpc': '2.0', 'id': None, 'error': {'code': -32000}}, [{'jsonrpc': '2.0', 'id': 1, 'error': {'message': 'Method not found'}}],
           {'jsonrpc': '2.0', 'id': 1, 'error': {'code': -32603, 'message': None}}]
NONJSON = ['', 'not json', '[', '{"jsonrpc":"2.0","id":1,"result":1', 'NaN']


def gen(ctx):
    rng = ctx.rng
    deep = ctx.thorough
    full = True
    k = 0
    vk = 0

    def modes():
        nonlocal k
        k += 1
        if deep:
            return [(s, a, op) for s in (True, False) for a in (False, True) for op in ('send', 'call')]
        s = (k % 4) != 0
        a = bool(k % 2)
        return [(s, a, 'send'), (s, not a, 'call'), (not s, a, 'call' if (k // 2) % 2 else 'send'), (s, not a, 'send')]

    for n in (1, 2, 3, 4):
        perms = list(itertools.permutations(range(1, n + 1)))
        if n == 4 and not deep:
            perms = [perms[0], perms[-1]] + rng.sample(perms[1:-1], 14)
        masks = list(itertools.product((True, False), repeat=n))
        for perm in perms:
            for mask in (masks if (deep or n <= 3) else [masks[0], masks[-1]] + rng.sample(masks[1:-1], 2)):
                ids = ('one', 'zero', 'str', 'one', 'mixed')[(k + len(perm)) % 5]
                base = [elem_for(ids, i, mask[i - 1]) for i in perm]
                for fault in ('none', 'omit', 'duplicate', 'extra', 'retype', 'bool-id', 'float-id', 'null-id', 'extra-null-id',
                              'omit-two', 'extra-two', 'omit+null-id-error', 'version'):
                    if fault == 'omit-two' and n < 2:
                        continue
                    ks = range(n) if (deep or fault == 'none' or n <= 3) else [rng.randrange(n)]
                    for kk in ([0] if fault == 'none' else ks):
                        if fault == 'version':
                            # element kk of an otherwise correct (permuted, mixed) array carries a wrong `jsonrpc` member
                            vk += 1
                            doc = [dict(e) for e in base]
                            doc[kk % len(doc)] = with_version(doc[kk % len(doc)], WRONG_VERSIONS[vk % len(WRONG_VERSIONS)])
                        else:
                            doc = mutate(base, n, fault, kk, rng)
                        notif = [[], [0], [n], [0, n + 1]][(k + kk) % 4] if n < 4 else []
                        for strict, is_async, op in modes():
                            if ids in ('str', 'mixed') and op == 'call':
                                op = 'send'
                            prior = ('none', 'none', 'accepted', 'refused')[(k + kk) % 4] if op == 'send' else 'none'
                            yield 'batch', dict(n=n, notif_at=notif, doc=doc, fault=fault, strict=strict, is_async=is_async,
                                                op=op, ids=ids, prior=prior)
        # every wrong `jsonrpc` member at every level of a batch reply: one element (each position), all elements, the
        # batch-level error object (with / without its id member); ids and everything else are exactly right
        if n <= 3:
            for v in WRONG_VERSIONS:
                for ids in (('one', 'zero', 'str') if deep else (('one', 'zero', 'str')[(n + WRONG_VERSIONS.index(v)) % 3],)):
                    right = [elem_for(ids, i, (i + n) % 3 != 0) for i in range(1, n + 1)]
                    docs = [[with_version(e, v) if j == pos else e for j, e in enumerate(right)] for pos in range(n)]
                    if n > 1:
                        docs.append([with_version(e, v) for e in right])
                    for doc in docs:
                        for strict, is_async, op in modes():
                            if ids == 'str' and op == 'call':
                                op = 'send'
                            yield 'batch', dict(n=n, notif_at=[], doc=doc, fault='version', strict=strict, is_async=is_async,
                                                op=op, ids=ids)
                for tmpl in ({'jsonrpc': '2.0', 'id': None, 'error': {'code': -32600, 'message': 'Invalid Request'}},
                             {'jsonrpc': '2.0', 'error': {'code': 5, 'message': 'm', 'data': [1]}}):
                    for strict, is_async, op in [(s, a, o) for s in (True, False) for a in (False, True) for o in ('send', 'call')]:
                        yield 'batch', dict(n=n, notif_at=[], doc=with_version(tmpl, v), fault='version-batch-level',
                                            strict=strict, is_async=is_async, op=op)
        # an object that would be a batch-level error (null / no id, well-formed error) but ALSO carries a result, of any JSON
        # type: not a valid response (exactly one of result / error), neither an error to raise nor data to return
        for r in BOTH_RESULTS:
            for tmpl in ({'jsonrpc': '2.0', 'id': None, 'error': {'code': -32600, 'message': 'Invalid Request'}},
                         {'jsonrpc': '2.0', 'error': {'code': 5, 'message': '', 'data': [1]}}):
                for strict, is_async, op in [(s, a, o) for s in (True, False) for a in (False, True) for o in ('send', 'call')]:
                    yield 'batch', dict(n=n, notif_at=[], doc={**tmpl, 'result': r}, fault='batch-level-error+result',
                                        strict=strict, is_async=is_async, op=op)
        ble = {'jsonrpc': '2.0', 'id': None, 'error': {'code': -32600, 'message': 'Invalid Request', 'data': 'x'}}
        for doc in (ble, {'jsonrpc': '2.0', 'error': {'code': 5, 'message': ''}}):
            for strict, is_async, op in [(s, a, o) for s in (True, False) for a in (False, True) for o in ('send', 'call')]:
                yield 'batch', dict(n=n, notif_at=[], doc=doc, fault='batch-level-error', strict=strict, is_async=is_async, op=op)
        for g in GARBAGE:
            for strict, is_async, op in modes():
                yield 'batch', dict(n=n, notif_at=[], doc=g, fault='garbage', strict=strict, is_async=is_async, op=op)
        for t in NONJSON:
            yield 'batch', dict(n=n, notif_at=[], doc=None, fault='garbage', strict=True, is_async=bool(n % 2), op='send', nonjson=t)
    # singles
    for rid in (1, 'a', 0, ''):
        rel = {'equal': rid, 'different': 2 if rid != 2 else 3, 'null': None, 'retyped': str(rid) if isinstance(rid, int) else 1,
               'bool': True, 'float': 1.0, 'list': [rid]}
        for relation, resp_id in rel.items():
            for body in ({'result': 'r'}, {'result': None}, {'error': {'code': 7, 'message': 'm'}}, {'error': {'code': 0, 'message': ''}},
                         {'result': 'r', 'error': None}, {'error': None}):
                doc = {'jsonrpc': '2.0', 'id': resp_id, **body}
                for strict in (True, False):
                    for is_async in (False, True):
                        for op in (('send', 'call') if rid == 1 else ('send',)):
                            yield 'single', dict(request_id=rid, doc=doc, relation=relation, strict=strict, is_async=is_async, op=op)
    # single replies carrying both an error and a result (id equal to the request's, or null)
    for r in BOTH_RESULTS:
        for resp_id in (1, None):
            doc = {'jsonrpc': '2.0', 'id': resp_id, 'result': r, 'error': {'code': 7, 'message': 'm'}}
            for strict in (True, False):
                for is_async in (False, True):
                    for op in ('send', 'call'):
                        yield 'single', dict(request_id=1, doc=doc, relation='both-result-and-error', strict=strict, is_async=is_async, op=op)
    # single replies that are right in everything (id equal to the request's) but the `jsonrpc` member
    for v in WRONG_VERSIONS:
        for rid in (1, 'a', 0):
            for body in ({'result': 'r1'}, {'result': None}, {'error': {'code': -32601, 'message': 'Method not found'}},
                         {'error': {'code': 7, 'message': 'm', 'data': 0}}):
                doc = with_version({'jsonrpc': '2.0', 'id': rid, **body}, v)
                for strict in (True, False):
                    for is_async in (False, True):
                        for op in (('send', 'call') if rid == 1 else ('send',)):
                            yield 'single', dict(request_id=rid, doc=doc, relation='version', strict=strict, is_async=is_async, op=op)
    for g in GARBAGE:
        for strict, is_async, op in [(True, False, 'send'), (False, True, 'call')]:
            yield 'single', dict(request_id=1, doc=g, relation='garbage', strict=strict, is_async=is_async, op=op)
    for t in NONJSON:
        yield 'single', dict(request_id=1, doc=None, relation='garbage', strict=True, is_async=False, op='send', nonjson=t)


KINDS = {'batch': run_batch, 'single': run_single}
