"""C13 - requests are independent: nothing leaks from one dispatch into the next (or into a concurrent one)."""
from __future__ import annotations

import gc
import json
import sys
import threading
import time
import weakref

import pjrpc
import pjrpc.server
from pjrpc.server import validators
from pjrpc.server.validators import jsonschema as _vjs, pydantic as _vpd  # noqa: F401  (submodules are not imported by the package)

from .. import serverside, strictjson, world
from ..gen import docs
from ..models import server as model
from pjrpc.common import UNSET

PID = 'C13'
LEVEL = 'exploration'
RULE = ('three kinds of cases. history: a sequence of <= 6 (thorough 12) requests from the C01-C04 corpus (successes, every '
        'failure class, rejected documents, batches, context and view methods, factory-made methods) is served by one '
        'dispatcher, then one of 10 probe requests; the probe answer and executions must equal those of a fresh dispatcher. '
        'leak: N in {1, 10, 1000} dispatches with a fresh context object each on function, positional-context and view methods '
        'under the base, jsonschema and pydantic validators; afterwards weak references to every context, every view instance '
        'and every object created inside the method body must be dead, and gc object counts / library caches must not grow '
        'with N. threads: 2..16 threads dispatch token-carrying corpora on one shared dispatcher while a sys.monitoring LINE '
        'hook yields the GIL at random statement starts of dispatcher.py / validators; every response must be the model answer '
        'for that thread\'s request and carry only that thread\'s tokens. Distinct = distinct (kind, configuration, history).')
ASSUMPTIONS = [
    'probe methods keep no state of their own (they only append to the harness log)',
    'growth is judged on weak references and on len(gc.get_objects()) between N=100 and N=1100 after warm-up (slope <= 0.05/request)',
    'threads: sys.setswitchinterval(1e-6) plus seeded sleep(0) injection; held on the interleavings observed, not all',
]
SHARDS = {'quick': 4, 'thorough': 16}
TIMEOUT = {'quick': 900, 'thorough': 3600}
ANCHORS = [
    ('pjrpc/server/dispatcher.py', 'Dispatcher.dispatch'), ('pjrpc/server/dispatcher.py', 'Dispatcher._handle_rpc_method'),
    ('pjrpc/server/dispatcher.py', 'Method.bind'), ('pjrpc/server/dispatcher.py', 'ViewMethod.bind'),
    ('pjrpc/server/validators/base.py', 'BaseValidator.signature'), ('pjrpc/server/validators/base.py', 'BaseValidator.bind'),
    ('pjrpc/server/validators/jsonschema.py', 'JsonSchemaValidator.validate_method'),
    ('pjrpc/server/validators/pydantic.py', 'PydanticValidator.validate_method'),
]
FLOORS = {'*': {'history:cases': 300, 'history:per-code-error-handlers-that-sign': 100, 'history:application-codec-classes-with-per-document-state': 100, 'history:probes-after-failure': 50, 'history:probes-after-context-request': 50, 'history:step-that-raised-out-of-dispatch': 50,
                'leak:function': 6, 'leak:positional-context': 6, 'leak:view': 6, 'leak:base': 6, 'leak:jsonschema': 6,
                'leak:pydantic': 6, 'leak:N=1000': 3, 'leak:hooks-that-raise': 6, 'leak:dispatch-raised-from-a-hook': 30, 'threads:runs': 4, 'threads:injected-yields': 1000,
                'threads:distinct-lines': 20, 'threads:overlapping-dispatches': 100, 'threads:responses': 2000, 'threads:interpreter-state-samples': 2000, 'threads:cold-dispatcher-with-middlewares': 40, 'growth:runs': 8, 'cancel:runs': 12, 'two-loops:runs': 8, 'cancel:dispatch-cancelled': 100}}


# ---------------------------------------------------------------------------------------------------- history

PROBES = [
    docs.obj(id='p', method='noargs'), docs.obj(id='p', method='ok', params=['probe']), docs.obj(id='p', method='whoami'),
    docs.obj(id='p', method='ctxm'), docs.obj(id='p', method='ctxp', params=[3]), docs.obj(id='p', method='view.vm', params=['pv']),
    docs.obj(id='p', method='fac1', params=[1]), docs.obj(id='p', method='fac2', params=[1]),
    [docs.obj(id='p', method='noargs'), docs.obj(method='ok', params=['n']), docs.obj(id='q', method='whoami')],
    docs.obj(id='p', method='kwonly', params={'a': 1}),
    docs.obj(id='p', method='js_loose', params=['not-an-ip']), docs.obj(id='p', method='js_checked', params=['10.0.0.1']),
    # failing probes: the error paths (and whatever they need: encoder, handlers, validators) must not depend on the past either
    docs.obj(id='p', method='ok', params={'zz': 1}), docs.obj(id='p', method='nope'),
    docs.obj(id='p', method='rpcerr', params=[1234, 'm', {'d': [1]}]), docs.obj(id='p', method='boom', params=['ValueError', 'x']),
    docs.obj(id='p', method='js_checked', params=['bad']), docs.obj(id='p', method='typedctor', params=[5]),
    [docs.obj(id='p', method='ok', params=[]), docs.obj(id='q', method='raiselib', params=['InvalidRequestError'])],
    # methods that work on their arguments in place: the values belong to ONE request, also when an equal text was seen before
    docs.obj(id='p', method='mutate', params=[[3, 2, 1], {'k': 1}]),
    # validation that relies on custom validator code (the probe's answer needs the validator to have run)
    docs.obj(id='p', method='pd_strip', params=['  padded  ']), docs.obj(id='p', method='pd_pos', params=[0]),
    docs.obj(id='p', method='cnt.bump', params=[2]),
    # variadic keywords under the pydantic validator: whatever the answer is, it is the same as on a fresh dispatcher
    docs.obj(id='p', method='pd_kw', params={'a': 1, 'x': 2, 'y': 3}), docs.obj(id='p', method='pd_kw', params={'a': 1}),
    [docs.obj(id='p', method='mutate', params={'lst': [1]}), docs.obj(id='q', method='mutate', params={'lst': [1]})],
    # one validator object shared by two modules whose functions have the same signature text
    docs.obj(id='p', method='users.create', params=[{'name': 'ann'}]), docs.obj(id='p', method='orders.create', params=[{'sku': 5}]),
    docs.obj(id='p', method='orders.create', params=[{'name': 'ann'}]),
    docs.obj(id='p', method='pd_d_int'), docs.obj(id='p', method='pd_d_bool'), docs.obj(id='p', method='pd_d_float', params=[]),
    # a long-lived error object raised again, mappings with non-string keys
    docs.obj(id='p', method='stale', params=[{'n': 9}]), docs.obj(id='p', method='keyed', params=['mixed']),
]
UNENCODABLE = [docs.obj(id=1, method='unenc', params=[w]) for w in ('set', 'object', 'bytes', 'nested')] + \
    [[docs.obj(id=1, method='ok', params=[1]), docs.obj(id=2, method='unenc')]]


def history_pool(rng):
    pool = []
    for fam, method, params in docs.typed_calls(rng, False):
        pool.append(docs.obj(id=len(pool), method=method, params=params))
        if len(pool) % 3 == 0:
            pool.append(docs.obj(method=method, params=params))
    pool += ['not json', '[]', {'jsonrpc': '2.0'}, [docs.obj(id=1, method='ok', params=[1]), docs.obj(id=1, method='ok', params=[2])]]
    for fam, text, n in docs.batches(rng, 1, 30, 4):
        pool.append(json.loads(text))
    return pool


class PerDocumentDecoder(json.JSONDecoder):
    """an application decoder with per-document state on the instance (here simply: which document it is decoding), the way
    `json.loads(text, cls=...)` invites: one decoder object per document"""

    def __init__(self, **kw):
        super().__init__(**kw)
        self.document = None

    def decode(self, s, *a, **kw):
        if self.document is not None and self.document != s:
            raise json.JSONDecodeError('this decoder object already belongs to another document', s, 0)
        self.document = s
        return super().decode(s, *a, **kw)


class PerDocumentEncoder(pjrpc.server.JSONEncoder):
    """the same on the way out: an encoder object that notes what it has encoded"""

    def __init__(self, **kw):
        super().__init__(**kw)
        self.documents = 0

    def encode(self, o):
        self.documents += 1
        if self.documents > 1:
            raise TypeError('this encoder object already encoded another document')
        return super().encode(o)


def signing_hooks(is_async):
    """pure hooks that leave a mark on what passes through them: error handlers for every failure, for several specific codes
    (each marks the error's data) and a middleware that marks error responses - a handler that was not applied shows"""
    ex = pjrpc.exceptions

    def mark(tag):
        def sign(request, context, error):
            data = error.data if error.data is not UNSET else None
            return ex.JsonRpcError(code=error.code, message=error.message, data={'signed': tag, 'was': data})
        if not is_async:
            return sign

        async def a_sign(request, context, error):
            return sign(request, context, error)
        return a_sign

    table = {None: [mark('any')], -32601: [mark('nf')], -32602: [mark('ip'), mark('ip2')], -32000: [mark('se')],
             1234: [mark('app')], 70001: [mark('typed')]}
    return {'error_handlers': table}


def run_history(ctx, history, probe, is_async, codec=None):
    kind = 'async' if is_async else 'sync'
    dkw = {'json_decoder': PerDocumentDecoder, 'json_encoder': PerDocumentEncoder} if codec == 'per-document' else {}
    if codec == 'per-document':
        ctx.hit('history:application-codec-classes-with-per-document-state')
    if codec == 'signing-hooks':
        dkw = signing_hooks(is_async)
        ctx.hit('history:per-code-error-handlers-that-sign')
    used = world.World(is_async, 3, **dkw)
    state0 = interpreter_state()
    token = 0
    any_fail, any_ctx = False, False
    for h in history:
        token += 1
        text = h if isinstance(h, str) else json.dumps(h)
        o = serverside.observe(used, text, context=world.Context(f'h{token}'))
        if o.status == 'exc' and h in UNENCODABLE:
            ctx.hit('history:step-that-raised-out-of-dispatch')     # a result the encoder refuses: not judged, but it is history
            continue
        if o.status == 'exc':
            ctx.violation(f'dispatch-raises:{type(o.exc).__name__}', 'history', (json.dumps(history, default=str), probe, kind),
                          history=history, exception=o.exc)
            return
        if o.codes and any(o.codes):
            any_fail = True
        if o.contexts:
            any_ctx = True
    ptext = json.dumps(PROBES[probe])
    a = serverside.observe(used, ptext, context=world.Context('PROBE'))
    fresh = world.World(is_async, 3, **dkw)
    b = serverside.observe(fresh, ptext, context=world.Context('PROBE'))
    ctx.hit('history:cases')
    state1 = interpreter_state()
    if state1 != state0:
        ctx.violation('interpreter-wide-setting-changed-by-dispatch:left-changed:' + ','.join(state_diff(state0, state1)), 'history',
                      (json.dumps(history, default=str), probe, kind, 'state'), history=history, before=state0, after=state1)
        sys.set_int_max_str_digits(state0['int_max_str_digits'])
        sys.setrecursionlimit(state0['recursion_limit'])
        return
    if any_fail:
        ctx.hit('history:probes-after-failure')
    if any_ctx:
        ctx.hit('history:probes-after-context-request')
    cls = (json.dumps(history, default=str), probe, kind)
    same = (a.status == b.status and ((a.raw is None) == (b.raw is None)) and
            (a.raw is None or (strictjson.typed_eq(a.doc, b.doc) and a.codes == b.codes)) and
            serverside.normalise_calls(a.calls) == serverside.normalise_calls(b.calls))
    ctx_ok = all(getattr(c, 'token', None) == 'PROBE' for c in a.contexts)
    if not same or not ctx_ok:
        mech = 'probe-answer-depends-on-history' if same is False else 'probe-saw-a-context-of-an-earlier-request'
        if a.status == 'exc':
            mech = f'probe-raises-after-history:{type(a.exc).__name__}'
        ctx.violation(mech, f'history:{kind}', cls, history=history, probe=PROBES[probe], dispatcher=kind,
                      used_dispatcher=[a.status, a.raw or a.exc], fresh_dispatcher=[b.status, b.raw or b.exc],
                      used_executions=a.calls, fresh_executions=b.calls)
        return
    ctx.ok(f'history:{kind}:len{len(history)}', cls, sample={'history': history, 'probe': PROBES[probe], 'answer': a.raw})


# ---------------------------------------------------------------------------------------------------- leaks

class Sentinel:
    """created inside a method body for one request"""


def build_leak_dispatcher(style, validator_name, is_async, refs, hooks=False):
    if validator_name == 'base':
        validator = validators.BaseValidator()
        deco = validator.validate
    elif validator_name == 'jsonschema':
        validator = validators.jsonschema.JsonSchemaValidator()
        deco = lambda f: validator.validate(f, schema={'type': 'object', 'properties': {'a': {'type': 'integer'}}})
    else:
        validator = validators.pydantic.PydanticValidator()
        deco = validator.validate
    kw = {}
    if hooks:
        # a middleware and an error handler that raise for particular requests: such a dispatch raises out to the caller
        # (who logs it and keeps serving); what the library holds for that request must be let go all the same
        def trip_mw(request, context, handler):
            if request.method == 'trip-mw':
                raise RuntimeError('hook failed')
            return handler(request, context)

        def trip_eh(request, context, error):
            if request.method == 'trip-eh':
                raise RuntimeError('handler failed')
            return error

        async def a_trip_mw(request, context, handler):
            if request.method == 'trip-mw':
                raise RuntimeError('hook failed')
            return await handler(request, context)

        async def a_trip_eh(request, context, error):
            if request.method == 'trip-eh':
                raise RuntimeError('handler failed')
            return error
        kw = dict(middlewares=[a_trip_mw if is_async else trip_mw], error_handlers={None: [a_trip_eh if is_async else trip_eh]})
    disp = (pjrpc.server.AsyncDispatcher if is_async else pjrpc.server.Dispatcher)(**kw)

    if style == 'view':
        class LeakView(pjrpc.server.ViewMixin):
            def __init__(self, context=None):
                super().__init__()
                self.context = context
                refs['views'].append(weakref.ref(self))

            @deco
            def m(self, a: int = 0):
                s = Sentinel()
                refs['sentinels'].append(weakref.ref(s))
                return a
        reg = pjrpc.server.MethodRegistry()
        reg.view(LeakView, context='ctx')
        disp.add_methods(reg)
    else:
        @deco
        def m(ctx, a: int = 0):
            s = Sentinel()
            refs['sentinels'].append(weakref.ref(s))
            return a
        disp.add(m, 'm', context='ctx', positional=(style == 'positional-context'))

    def bad(ctx, how='exc'):
        s = Sentinel()
        refs['sentinels'].append(weakref.ref(s))
        if how == 'rpc':
            raise pjrpc.exceptions.JsonRpcError(code=4242, message='app', data='d')
        raise ValueError('Zq7_marker_leak')
    disp.add(bad, 'bad', context='ctx')
    return disp, validator


def run_leak(ctx, style, validator_name, is_async, n, hooks=False):
    refs = {'views': [], 'sentinels': [], 'contexts': []}
    disp, validator = build_leak_dispatcher(style, validator_name, is_async, refs, hooks)
    kind = 'async' if is_async else 'sync'
    cls = (style, validator_name, kind, n, hooks)
    ctx.hit('leak:' + {'function': 'function', 'positional-context': 'positional-context', 'view': 'view'}[style])
    ctx.hit('leak:' + validator_name)
    ctx.hit(f'leak:N={n}')
    texts = [json.dumps({'jsonrpc': '2.0', 'id': 1, 'method': 'm', 'params': p}) for p in ([], [1], {'a': 2}, {'zz': 1}, ['x', 'y'])]
    texts.append(json.dumps([{'jsonrpc': '2.0', 'id': 1, 'method': 'm'}, {'jsonrpc': '2.0', 'method': 'm', 'params': [3]}]))
    texts.append(json.dumps({'jsonrpc': '2.0', 'id': 2, 'method': 'bad'}))                      # arbitrary exception
    texts.append(json.dumps({'jsonrpc': '2.0', 'id': 3, 'method': 'bad', 'params': ['rpc']}))   # protocol error
    texts.append(json.dumps({'jsonrpc': '2.0', 'method': 'bad'}))                               # failing notification
    texts.append(json.dumps({'jsonrpc': '2.0', 'id': 4, 'method': 'nope'}))
    trips = []
    if hooks:
        trips = [json.dumps({'jsonrpc': '2.0', 'id': 5, 'method': 'trip-mw'}), json.dumps({'jsonrpc': '2.0', 'id': 6, 'method': 'trip-eh'}),
                 json.dumps([{'jsonrpc': '2.0', 'id': 7, 'method': 'm'}, {'jsonrpc': '2.0', 'method': 'trip-mw'}])]
        texts[3:3] = trips[:2]
        texts.append(trips[2])
        ctx.hit('leak:hooks-that-raise')

    def one(i):
        c = world.Context(i)
        refs['contexts'].append(weakref.ref(c))
        t = texts[i % len(texts)]
        if t in trips:
            try:
                world.run(disp.dispatch(t, context=c)) if is_async else disp.dispatch(t, context=c)
            except RuntimeError:
                ctx.hit('leak:dispatch-raised-from-a-hook')      # expected: the hook's own exception
            return None
        out = world.run(disp.dispatch(t, context=c)) if is_async else disp.dispatch(t, context=c)
        return out

    try:
        first = one(0)
    except Exception as e:
        ctx.violation(f'dispatch-raises:{type(e).__name__}', 'leak', cls, style=style, validator=validator_name, exception=e)
        return
    doc = strictjson.decode(first[0])
    if 'result' not in doc:
        ctx.violation(f'validated-call-refused:code{doc["error"]["code"]}:{validator_name}', 'leak', cls, style=style,
                      validator=validator_name, response=doc)
        return
    for i in range(1, n):
        one(i)
    gc.collect()
    alive = {k: sum(1 for r in v if r() is not None) for k, v in refs.items()}
    wit = dict(method_style=style, validator=validator_name, dispatcher=kind, dispatches=n,
               still_alive=alive, created={k: len(v) for k, v in refs.items()})
    for what in ('contexts', 'views', 'sentinels'):
        if alive[what]:
            holder = ''
            obj = next(r() for r in refs[what] if r() is not None)
            try:
                hs = [type(h).__name__ for h in gc.get_referrers(obj) if h is not refs and not isinstance(h, type(sys._getframe()))]
                holder = ','.join(sorted(set(hs))[:4])
            except Exception:
                pass
            del obj
            frac = 'all' if alive[what] == len(refs[what]) else 'some'
            ctx.violation(f'{what}-still-referenced-after-dispatch:{style}:{frac}', f'leak:{style}:{validator_name}', cls,
                          referrers=holder, **wit)
            return
    # growth with N (second opinion independent of weakref-able objects)
    if n >= 1000:
        gc.collect()
        base = len(gc.get_objects())
        for i in range(n, n + 100):
            one(i)
        gc.collect()
        c1 = len(gc.get_objects())
        for i in range(n + 100, n + 1100):
            one(i)
        gc.collect()
        c2 = len(gc.get_objects())
        slope = (c2 - c1) / 1000.0
        wit['gc_objects'] = [base, c1, c2]
        wit['slope_per_request'] = slope
        # the weakref lists themselves grow by one entry per request per list (3 lists) - not gc-tracked objects per se,
        # weakref objects are: up to 3 per request are ours
        ours = 3.0 if style == 'view' else 2.0
        if slope - ours > 0.05:
            ctx.violation(f'object-count-grows-with-requests:{style}', f'leak:{style}:{validator_name}', cls, **wit)
            return
    ctx.ok(f'leak:{style}:{validator_name}:{kind}', cls, sample=wit)


def run_cancel(ctx, n, concurrent, how):
    """a dispatch that is cancelled from outside (a timeout, a client that went away) while batch members are suspended:
    afterwards nothing of it may be held by the dispatcher"""
    import asyncio
    refs = {'contexts': [], 'sentinels': []}
    disp = pjrpc.server.AsyncDispatcher(concurrent_batch=concurrent)
    never = {}

    async def park(ctx_, tag):
        s = Sentinel()
        refs['sentinels'].append(weakref.ref(s))
        fut = asyncio.get_running_loop().create_future()
        never[tag] = fut
        try:
            await fut
        finally:
            never.pop(tag, None)
        return tag

    async def quick(ctx_, tag):
        return tag
    disp.add(park, 'park', context='ctx_')
    disp.add(quick, 'quick', context='ctx_')

    async def one(i):
        c = world.Context(i)
        refs['contexts'].append(weakref.ref(c))
        text = json.dumps([{'jsonrpc': '2.0', 'id': 1, 'method': 'quick', 'params': [f'{i}a']},
                           {'jsonrpc': '2.0', 'id': 2, 'method': 'park', 'params': [f'{i}b']},
                           {'jsonrpc': '2.0', 'id': 3, 'method': 'park', 'params': [f'{i}c']}] if i % 3 else
                          {'jsonrpc': '2.0', 'id': 1, 'method': 'park', 'params': [f'{i}s']})
        task = asyncio.ensure_future(disp.dispatch(text, context=c))
        for _ in range(5):
            await asyncio.sleep(0)
        if how == 'cancel':
            task.cancel()
        else:
            try:
                await asyncio.wait_for(asyncio.shield(task), 0)
            except asyncio.TimeoutError:
                task.cancel()
        try:
            await task
        except asyncio.CancelledError:
            ctx.hit('cancel:dispatch-cancelled')
        del c, task

    async def driver():
        for i in range(n):
            await one(i)
        for _ in range(3):
            await asyncio.sleep(0)

    try:
        world.run(driver())
    except Exception as e:
        ctx.violation(f'cancelled-dispatch-raises:{type(e).__name__}', 'cancel', (n, concurrent, how), exception=e)
        return
    gc.collect()
    alive = {k: sum(1 for r in v if r() is not None) for k, v in refs.items()}
    cls = ('cancel', n, concurrent, how)
    wit = dict(dispatches=n, concurrent_batch=concurrent, cancelled_by=how, still_alive=alive, created={k: len(v) for k, v in refs.items()},
               methods_still_suspended=len(never))
    ctx.hit('cancel:runs')
    for what in ('contexts', 'sentinels'):
        if alive[what]:
            frac = 'all' if alive[what] == len(refs[what]) else 'some'
            ctx.violation(f'{what}-still-referenced-after-cancelled-dispatch:{frac}', 'cancel', cls, **wit)
            return
    ctx.ok(f'cancel:{how}:{"concurrent" if concurrent else "sequential"}', cls, sample=wit)


def run_two_loops(ctx, n_members, ticks, repeats):
    """one AsyncDispatcher served under several event loops one after the other (asyncio.run per call, a loop per test, a loop
    per worker thread): large batches of really suspending methods; every loop gets the answer the first one got"""
    import asyncio
    w = world.World(True, None)
    text = json.dumps([docs.obj(id=k, method='slow', params=[f's{k}', ticks]) for k in range(n_members)])
    answers = []
    for r in range(repeats):
        loop = asyncio.new_event_loop()
        try:
            w.log.clear()
            out = loop.run_until_complete(asyncio.wait_for(w.dispatcher.dispatch(text, context=world.Context(r)), 60))
            answers.append(('ret', out))
        except Exception as e:
            answers.append(('exc', e))
        finally:
            loop.close()
    ctx.hit('two-loops:runs')
    cls = ('two-loops', n_members, ticks, repeats)
    first = answers[0]
    for r, a in enumerate(answers[1:], 2):
        same = a[0] == first[0] == 'ret' and strictjson.typed_eq(strictjson.decode(a[1][0]), strictjson.decode(first[1][0]))
        if not same:
            ctx.violation('answer-depends-on-an-earlier-event-loop' + (f':raises-{type(a[1]).__name__}' if a[0] == 'exc' else ''), 'two-loops', cls,
                          batch_members=n_members, suspensions_per_member=ticks, loop_number=r, first_loop=list(first)[:1] + [str(first[1])[:200]],
                          this_loop=[a[0], str(a[1])[:300]])
            return
    if first[0] != 'ret':
        ctx.violation(f'dispatch-raises:{type(first[1]).__name__}', 'two-loops', cls, exception=first[1])
        return
    ctx.ok('two-loops', cls, sample={'members': n_members, 'loops': repeats})


def run_growth(ctx, is_async, what):
    """many requests whose client-controlled strings (method names, ids, parameter values) are ALL DISTINCT: nothing
    derived from them may be kept; judged on gc object counts and on the logging manager's logger table"""
    import logging
    w = world.World(is_async, 3)
    kind = 'async' if is_async else 'sync'

    def text(i):
        if what == 'unknown-methods':
            return json.dumps({'jsonrpc': '2.0', 'id': f'id{i}', 'method': f'no_such_method_{i}', 'params': [f'v{i}']})
        if what == 'failing-known-methods':
            return json.dumps({'jsonrpc': '2.0', 'id': i, 'method': ('boom', 'rpcerr', 'ok')[i % 3],
                               'params': (['ValueError', f'm{i}'], [4000 + i, f'msg{i}', {'d': i}], {'zz': f'u{i}'})[i % 3]})
        if what == 'extension-members':
            # members the protocol does not define (a trace id, an auth token), with values that differ per request
            return json.dumps({'jsonrpc': '2.0', 'id': i, 'method': 'ok', 'params': [1], 'trace_id': f'Zq7-trace-{i}', 'auth': {'token': f'tok{i}'}}
                              if i % 2 else [{'jsonrpc': '2.0', 'id': i, 'method': 'noargs', 'meta': [f'm{i}']}])
        if what == 'garbage':
            return ('{"jsonrpc": "2.0", "id": %d, "method": ' % i) + ('"x%d"' % i) * (i % 2) + ('[' * (i % 5))
        return json.dumps([{'jsonrpc': '2.0', 'id': f'a{i}', 'method': f'nm_{i}'}, {'jsonrpc': '2.0', 'method': 'ok', 'params': [f'p{i}']},
                           {'jsonrpc': '2.0', 'id': f'b{i}', 'method': 'echo', 'params': [{'k': f'val{i}'}]}])

    def one(i):
        w.log.clear()
        t = text(i)
        c = world.Context(i)
        (world.run(w.dispatcher.dispatch(t, context=c)) if is_async else w.dispatcher.dispatch(t, context=c))

    try:
        for i in range(300):
            one(i)
        gc.collect()
        c1, l1, b1 = len(gc.get_objects()), len(logging.Logger.manager.loggerDict), sys.getallocatedblocks()
        for i in range(300, 1300):
            one(i)
        gc.collect()
        c2, l2, b2 = len(gc.get_objects()), len(logging.Logger.manager.loggerDict), sys.getallocatedblocks()
    except Exception as e:
        ctx.violation(f'dispatch-raises:{type(e).__name__}', 'growth', (kind, what), exception=e)
        return
    ctx.hit('growth:runs')
    slope = (c2 - c1) / 1000.0
    # containers of atoms (a tuple of a string, a static type and a number, say) are invisible to gc.get_objects(): the
    # interpreter's count of allocated memory blocks sees them
    bslope = (b2 - b1) / 1000.0
    wit = dict(dispatcher=kind, requests='1000 requests with pairwise distinct ' + what, gc_objects=[c1, c2], slope_per_request=slope,
               loggers=[l1, l2], allocated_blocks=[b1, b2], blocks_per_request=bslope)
    if l2 - l1 > 5:
        ctx.violation('logger-table-grows-with-client-controlled-names', f'growth:{what}', (kind, what), **wit)
        return
    if slope > 0.05:
        ctx.violation(f'object-count-grows-with-requests:{what}', f'growth:{what}', (kind, what), **wit)
        return
    if bslope > 0.75:        # (clean tree: <= 0.2 for every request family; one retained string per request is >= 1)
        ctx.violation(f'allocated-blocks-grow-with-requests:{what}', f'growth:{what}', (kind, what), **wit)
        return
    ctx.ok(f'growth:{what}:{kind}', (kind, what), sample=wit)


# ---------------------------------------------------------------------------------------------------- threads

INJ_TOOL = 4


def interpreter_state():
    """interpreter-wide settings a library has no business changing while it serves a request (each of them alters how
    OTHER requests, served concurrently or later, are parsed, executed or reported)"""
    import decimal
    import logging
    import warnings
    return {'int_max_str_digits': sys.get_int_max_str_digits(), 'recursion_limit': sys.getrecursionlimit(),
            'warning_filters': len(warnings.filters), 'logging_disabled_level': logging.root.manager.disable,
            'root_logger_level': logging.root.level, 'decimal_precision': decimal.getcontext().prec,
            'json_default_encoder': id(json._default_encoder), 'json_default_decoder': id(json._default_decoder),
            'trace_function': sys.gettrace() is not None, 'excepthook': id(sys.excepthook)}


def state_diff(a, b):
    return sorted(k for k in a if a[k] != b[k])


class Injector:
    def __init__(self, repo, prob, seed):
        import os
        import random
        base = os.path.join(os.path.realpath(repo), 'pjrpc', 'server') + os.sep
        self.files = (base + 'dispatcher.py', base + 'validators' + os.sep,
                      os.path.join(os.path.realpath(repo), 'pjrpc', 'common') + os.sep)
        self.prob = prob
        self.rng = random.Random(seed)
        self.lock = threading.Lock()
        self.yields = 0
        self.lines = set()

    def start(self):
        mon = sys.monitoring
        mon.use_tool_id(INJ_TOOL, 'vmon-inject')
        mon.register_callback(INJ_TOOL, mon.events.LINE, self._on_line)
        mon.set_events(INJ_TOOL, mon.events.LINE)

    def stop(self):
        mon = sys.monitoring
        mon.set_events(INJ_TOOL, 0)
        mon.register_callback(INJ_TOOL, mon.events.LINE, None)
        mon.free_tool_id(INJ_TOOL)

    def _on_line(self, code, line):
        fn = code.co_filename
        if not (fn == self.files[0] or fn.startswith(self.files[1]) or fn.startswith(self.files[2])):
            return sys.monitoring.DISABLE
        with self.lock:
            go = self.rng.random() < self.prob
            if go:
                self.yields += 1
                self.lines.add((fn[-24:], line))
        if go:
            time.sleep(0)
        return None


def thread_corpus(t, n):
    """requests carrying only thread t's tokens"""
    out = []
    for i in range(n):
        tok = f'T{t}_{i}'
        k = i % 12
        if k == 0:
            out.append(docs.obj(id=tok, method='ok', params=[tok]))
        elif k == 1:
            out.append(docs.obj(id=tok, method='echo', params={'v': {'tok': tok}}))
        elif k == 2:
            out.append(docs.obj(id=tok, method='ctxm', params=[tok]))
        elif k == 3:
            out.append(docs.obj(id=tok, method='view.vm', params={'a': tok}))
        elif k == 4:
            out.append(docs.obj(id=tok, method='whoami'))
        elif k == 5:
            out.append(docs.obj(id=tok, method='rpcerr', params=[7000 + t, tok, {'tok': tok}]))
        elif k == 6:
            out.append(docs.obj(id=tok, method='boom', params=['ValueError', tok]))
        elif k == 7:
            out.append([docs.obj(id=tok, method='ok', params=[tok]), docs.obj(method='ok', params=[tok + 'n']),
                        docs.obj(id=tok + 'b', method='ctxp', params=[tok])])
        elif k == 8:
            out.append(docs.obj(id=tok, method='nope', params=[tok]) if i % 24 else docs.obj(id=tok, method='noargs'))
        elif k == 9:
            out.append(docs.obj(id=tok, method='ok', params={'zz': tok}))
        elif k == 10:
            out.append(docs.obj(id=tok, method='fac2', params=[tok, tok]) if i % 48 < 12 else
                       docs.obj(id=tok, method='js_ref', params={'a': i, 'b': {'t': tok}}))
        else:
            out.append(docs.obj(id=tok, method='kwonly', params={'a': tok, 'k': tok}))
    return out


def _stamp_mw(request, context, handler):
    resp = handler(request, context)
    if not isinstance(resp, pjrpc.common.UnsetType) and resp.is_success:
        return pjrpc.common.v20.Response(id=resp.id, result=['stamped', resp.result])
    return resp


def _deny_mw(request, context, handler):
    # an "auth" middleware: requests for `noargs` never reach the method
    if request.method == 'noargs':
        return pjrpc.common.UNSET if request.id is None else pjrpc.common.v20.Response(id=request.id, result='denied')
    return handler(request, context)


def run_threads(ctx, n_threads, per_thread, prob, middlewares=False):
    from ..core import REPO
    kw = {'middlewares': [_stamp_mw, _deny_mw]} if middlewares else {}
    # a fresh (cold) dispatcher: its very first requests arrive concurrently
    w = world.World(False, None, **kw)
    twin = world.World(False, None, **kw)
    if middlewares:
        ctx.hit('threads:cold-dispatcher-with-middlewares')
    # probe methods log into one shared list: harmless, but the executions are not compared under threads
    results = [None] * n_threads
    state = {'inside': 0, 'overlaps': 0}
    lock = threading.Lock()
    corpora = [thread_corpus(t, per_thread) for t in range(n_threads)]
    barrier = threading.Barrier(n_threads)
    state0 = interpreter_state()
    drift = []

    def worker(t):
        out = []
        c = world.Context(f'CTX{t}')
        barrier.wait()
        for req in corpora[t]:
            text = json.dumps(req)
            with lock:
                state['inside'] += 1
                if state['inside'] >= 2:
                    state['overlaps'] += 1
            try:
                r = w.dispatcher.dispatch(text, context=c)
                out.append(('ret', r))
            except Exception as e:
                out.append(('exc', e))
            if sys.get_int_max_str_digits() != state0['int_max_str_digits'] or sys.getrecursionlimit() != state0['recursion_limit']:
                drift.append((t, text, interpreter_state()))     # seen from one thread while others are inside dispatch
            with lock:
                state['inside'] -= 1
        results[t] = out

    inj = Injector(REPO, prob, ctx.seed * 7919 + n_threads)
    old = sys.getswitchinterval()
    sys.setswitchinterval(1e-6)
    inj.start()
    try:
        ts = [threading.Thread(target=worker, args=(t,)) for t in range(n_threads)]
        for t in ts:
            t.start()
        for t in ts:
            t.join()
    finally:
        inj.stop()
        sys.setswitchinterval(old)
    state1 = interpreter_state()
    ctx.hit('threads:interpreter-state-samples', sum(len(c) for c in corpora))
    if drift or state1 != state0:
        what = state_diff(state0, drift[0][2] if drift else state1)
        ctx.violation('interpreter-wide-setting-changed-by-dispatch:' + ('left-changed' if state1 != state0 else 'while-other-threads-serve')
                      + ':' + ','.join(what), 'threads', ('threads', n_threads, prob, 'state'), threads=n_threads, before=state0,
                      after=state1, observed_in_flight=[list(d[:2]) for d in drift[:3]], times_observed=len(drift))
        # restore what can be restored so that the rest of the shard is judged on its own
        sys.set_int_max_str_digits(state0['int_max_str_digits'])
        sys.setrecursionlimit(state0['recursion_limit'])
        return
    ctx.hit('threads:runs')
    ctx.hit('threads:injected-yields', inj.yields)
    ctx.hit('threads:distinct-lines', len(inj.lines))
    ctx.hit('threads:overlapping-dispatches', state['overlaps'])
    bad = 0
    for t in range(n_threads):
        for req, (st, r) in zip(corpora[t], results[t]):
            ctx.hit('threads:responses')
            cls = ('threads', n_threads, prob, json.dumps(req))
            wit = dict(threads=n_threads, injection_probability=prob, thread=t, request=req, outcome=[st, r],
                       injected_yields=inj.yields, overlapping_dispatches=state['overlaps'])
            if st == 'exc':
                ctx.violation(f'dispatch-raises-under-threads:{type(r).__name__}', 'threads', cls, **wit)
                bad += 1
                continue
            doc = None if r is None else strictjson.decode(r[0])
            if middlewares:
                # the sequential answer of an identically configured dispatcher is the reference
                tw = serverside.observe(twin, json.dumps(req), context=world.Context(f'CTX{t}'))
                same = (tw.raw is None) == (r is None) and (r is None or strictjson.typed_eq(tw.doc, doc))
                prob_ = None if same else 'differs-from-sequential-answer'
                exp = None
            else:
                exp = model.expected(req, None, ctx_token=f'CTX{t}')
                prob_ = model.match(exp.response, doc) if exp.response is not None else (None if r is None else 'unexpected-response')
            foreign = r is not None and any(f'T{o}_' in r[0] or f'CTX{o}"' in r[0] for o in range(n_threads) if o != t)
            if foreign:
                ctx.violation('response-carries-another-threads-token-or-context', 'threads', cls, **wit)
                bad += 1
            elif prob_:
                ctx.violation('response-differs-from-single-threaded-answer' + (':cold-dispatcher-with-middlewares' if middlewares else ''),
                              'threads', cls, difference=prob_, expected=model.render(exp.response) if exp else 'sequential twin', **wit)
                bad += 1
            else:
                ctx.ok(f'threads:{n_threads}', cls, sample=None)
            if bad > 20:
                return
    ctx.note('threads_sample', {'threads': n_threads, 'yields': inj.yields, 'distinct_lines': len(inj.lines),
                                'overlaps': state['overlaps']})


# ---------------------------------------------------------------------------------------------------- generation

def gen(ctx):
    rng = ctx.rng
    deep = ctx.thorough
    full = True
    pool = history_pool(rng)
    k = 0
    # crafted short histories around shared-signature / context methods, then random ones
    crafted = []
    ctx_reqs = [docs.obj(id=1, method='js_checked', params=['10.0.0.1']), docs.obj(id=1, method='js_loose', params=['x']),
                docs.obj(id=1, method='whoami'), docs.obj(id=1, method='ctxm'), docs.obj(id=1, method='ctxp'),
                docs.obj(id=1, method='view.vm', params=['x']), docs.obj(method='whoami'), docs.obj(id=1, method='noargs')]
    for a in ctx_reqs:
        crafted.append([a])
        for b in ctx_reqs:
            crafted.append([a, b])
    # requests that make custom validator code fail with something else than a validation error, then a probe of the same method
    poison = [docs.obj(id=1, method='pd_strip', params=[5]), docs.obj(id=1, method='pd_strip', params=[None]),
              docs.obj(id=1, method='pd_pos', params=[[1]]), docs.obj(method='pd_strip', params=[{'x': 1}])]
    for a in poison:
        crafted.append([a])
        crafted.append([a, a, ctx_reqs[0]])
    crafted.append([docs.obj(id=1, method='cnt.bump', params=[5]), docs.obj(method='cnt.bump', params=[7])])
    for a in (docs.obj(id=1, method='pd_kw', params={'a': 1}), docs.obj(id=1, method='pd_kw', params=[1]),
              docs.obj(id=1, method='pd_kw', params={'a': 1, 'z': 0})):
        crafted.append([a])
        crafted.append([a, a])
    # the very same request text several times before it is probed again
    for p_ in PROBES:
        crafted.append([p_])
        crafted.append([p_, p_, p_])
    for u in UNENCODABLE:
        crafted.append([u])
        crafted.append([ctx_reqs[0], u, ctx_reqs[3]])
    for h in crafted:
        for p in range(len(PROBES)):
            k += 1
            yield 'history', dict(history=h, probe=p, is_async=bool(k % 2),
                                  **({'codec': 'per-document'} if k % 7 == 0 else ({'codec': 'signing-hooks'} if k % 7 == 3 else {})))
    for _ in range(60000 if deep else 5000):
        n = rng.randint(1, 12 if full else 6)
        h = [rng.choice(pool) for _ in range(n)]
        if k % 5 == 0:
            h.insert(rng.randrange(len(h) + 1), rng.choice(UNENCODABLE))
        k += 1
        yield 'history', dict(history=h, probe=rng.randrange(len(PROBES)), is_async=bool(k % 2),
                              **({'codec': 'per-document'} if k % 6 == 0 else ({'codec': 'signing-hooks'} if k % 6 == 3 else {})))
    for style in ('function', 'positional-context', 'view'):
        for vname in ('base', 'jsonschema', 'pydantic'):
            for is_async in (False, True):
                for n in (1, 10, 1000):
                    yield 'leak', dict(style=style, validator_name=vname, is_async=is_async, n=n)
                yield 'leak', dict(style=style, validator_name=vname, is_async=is_async, n=40, hooks=True)
    for n_threads, prob in ([(2, 0.1), (4, 0.05), (8, 0.1), (16, 0.02), (3, 0.2), (8, 0.02), (12, 0.1), (16, 0.2)] if not deep else
                            [(t, p) for t in (2, 3, 4, 6, 8, 12, 16) for p in (0.01, 0.02, 0.05, 0.1, 0.2, 0.4)] * 3):
        yield 'threads', dict(n_threads=n_threads, per_thread=200 if not deep else 400, prob=prob)
    # cold dispatchers with middlewares: many short runs, because only the first requests of each dispatcher matter
    for rep in range(400 if deep else 60):
        yield 'threads', dict(n_threads=(2, 4, 8, 3)[rep % 4], per_thread=6, prob=(0.3, 0.1, 0.5)[rep % 3], middlewares=True)
    for is_async in (False, True):
        for what in ('unknown-methods', 'failing-known-methods', 'garbage', 'batches', 'extension-members'):
            yield 'growth', dict(is_async=is_async, what=what)
    for n in (1, 10, 200):
        for concurrent in (True, False):
            for how in ('cancel', 'timeout'):
                yield 'cancel', dict(n=n, concurrent=concurrent, how=how)
    for n_members in (2, 40, 100, 300):
        for ticks in (1, 3):
            yield 'two-loops', dict(n_members=n_members, ticks=ticks, repeats=3)


KINDS = {'history': run_history, 'leak': run_leak, 'threads': run_threads, 'growth': run_growth, 'cancel': run_cancel,
         'two-loops': run_two_loops}
