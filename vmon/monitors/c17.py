"""C17 - documented parameters are the accepted parameters."""
from __future__ import annotations

import itertools
import json

import pjrpc
import pjrpc.server
from pjrpc.server import specs
from pjrpc.server.specs import openapi, openrpc
from pjrpc.server.specs.extractors import pydantic as x_pd
from pjrpc.server.validators import base as vbase

from .. import strictjson, world

PID = 'C17'
LEVEL = 'exploration'
RULE = ('one case = one generated method: a signature of <= 3 (thorough 4) parameters over positional-or-keyword / '
        'keyword-only x defaults, a context parameter at each position (passed by name or as first positional argument) or '
        'none, an exclusion predicate (same predicate given to validator and extractor) or none, as plain function or view '
        'method; documented by OpenAPI 3.1 (request schema, refs resolved) and OpenRPC (params list) with the pydantic '
        'extractor. The dispatcher itself is the reference for "accepted": params objects over ALL subsets of (documented '
        'names + one undocumented name + the context name + the excluded name) are dispatched (base validator, or the pydantic '
        'validator in its default / extra="ignore" / extra="allow" configurations; for views the designated context name equals '
        'an ordinary parameter name) and the '
        'acceptance (-32602 or not) is compared with the document\'s prediction (names within properties and required within '
        'names); the documented name / required sets are also compared with the signature. The VALUES of the params objects '
        'are numbers and, for every conforming subset (and a sample of the others), JSON null at one / every position and '
        'falsy / other JSON kinds (0, false, "", [], {}, a string, a real): acceptance by binding depends on the names only. '
        'Earlier callable: in a part of the function / view cases the SAME extractor object (one for all three document '
        'kinds; through another or through the same specification object) documents ANOTHER callable of the same method '
        'name, __module__ and __qualname__ (made by exec in a namespace of its own, as inner function of a factory, or by '
        'redefinition in the same namespace) whose signature differs (renamed / one more / one less / defaults flipped) '
        'before the method under test and once more after it; each of the three documents must describe the signature its '
        'own dispatcher binds. One evaluation = one (method, document kind, params object) or one document of the other '
        'callable. Distinct = distinct (signature, configuration, kind, subset, values).')
ASSUMPTIONS = [
    'probe bodies accept any values, so -32602 can only come from binding',
    'under a validating (pydantic) validator a conforming params object whose null sits on a parameter whose annotation excludes '
    'null may be refused by VALUE validation: those are dispatched (no exception may escape) and counted unjudged; with the base '
    'validator every value is judged',
    'only the pydantic extractor is judged (the default extractor documents nothing, the docstring extractor documents the docstring)',
]
SHARDS = {'quick': 16, 'thorough': 16}
TIMEOUT = {'quick': 900, 'thorough': 3600}
ANCHORS = [
    ('pjrpc/server/specs/extractors/pydantic.py', 'PydanticSchemaExtractor._build_params_model'),
    ('pjrpc/server/specs/openapi.py', 'OpenAPI._extract_request_schema'),
    ('pjrpc/server/specs/openrpc.py', 'OpenRPC._extract_params_schema'),
    ('pjrpc/server/validators/base.py', 'BaseValidator.signature'), ('pjrpc/server/dispatcher.py', 'Method.bind'),
    ('pjrpc/server/dispatcher.py', 'ViewMethod.bind'),
]
FLOORS = {'*': {**{f'{k}:{w}': 10 for k in ('openapi', 'openapi30', 'openrpc') for w in ('context', 'exclusion', 'keyword-only', 'view')},
                'context:not-first': 20, 'context:positional': 10, 'subsets-dispatched': 3000, 'accepted': 300, 'refused': 1000,
                'methods': 100, 'twin-registration': 30, 'exclusion:by-name': 30, 'exclusion:default-none': 30, 'exclusion:by-annotation': 30,
                'validator:base': 100, 'validator:pydantic': 30, 'validator:pydantic:extra-ignore': 30, 'validator:pydantic:extra-allow:as-is': 30,
                'view:context-name-equals-a-parameter-name': 30, 'style:wrapped': 30, 'style:view-static': 30, 'style:view-class': 30, 'style:view-static-inherited': 30, 'style:view-class-inherited': 30, 'signature:variadic': 30, 'signature:nullable': 30, 'signature:field-default': 30, 'signature:factory-default': 100, 'signature:via-copy': 100,
                'signature:extractor:serialization-defaults-required': 100,
                'earlier-callable:documents-judged': 500, 'earlier-callable:exec': 30, 'earlier-callable:factory': 30, 'earlier-callable:redefined': 30,
                'earlier-callable:same-extractor': 50, 'earlier-callable:same-spec': 50, 'earlier-callable:function': 60, 'earlier-callable:view': 30,
                'earlier-callable:signature-renamed': 20, 'earlier-callable:signature-one-more': 20, 'earlier-callable:signature-one-less': 20,
                'earlier-callable:signature-defaults-flipped': 20,
                'values:one-null': 30000, 'values:all-null': 4000, 'values:falsy-and-other-kinds': 5000, 'values:conforming-names-judged': 15000,
                'values:null-for-a-plain-parameter-without-default': 10000, 'values:null-for-a-plain-parameter-with-default': 10000,
                'values:null-for-a-nullable-parameter-without-default': 2000}}


def render(params, ctx_at, ctx_name, skip, as_view, first='self', lead=None, fname='f', extras=None):
    """params: [(name, kind, has_default)]; ctx inserted at index ctx_at among the positional-or-keyword ones (or KO if beyond)"""
    plist = list(params)
    if ctx_at is not None and not as_view:
        kind = 'PK'
        if ctx_at > 0 and (ctx_at < len(plist) and plist[ctx_at][1] == 'KO' or (ctx_at >= len(plist) and plist and plist[-1][1] == 'KO')):
            kind = 'KO'
        # a non-default parameter cannot follow defaults among PK: give ctx no default but keep order legal
        plist.insert(ctx_at, (ctx_name, kind, False))
    parts, star = [], False
    if as_view and first:
        parts.append(first)
    if lead:
        parts.append(lead)          # a parameter the wrapper supplies itself and hides from the published signature
    seen_default = False
    extras = extras or {}
    for idx, (name, kind, dflt) in enumerate(plist):
        if kind == 'KO' and not star:
            # 'variadic': a *rest parameter sits between the positional and the keyword-only ones; it is no by-name parameter
            parts.append('*rest' if extras.get('variadic') else '*')
            star = True
        if kind == 'PK' and seen_default and not dflt:
            dflt = True        # keep the signature legal; ctx then simply has a (never used) default
        if kind == 'PK' and dflt:
            seen_default = True
        # 'nullable': every second REQUIRED parameter is annotated Optional[int]: nullable is not the same as "may be omitted"
        ann = 'typing.Optional[int]' if (extras.get('nullable') and not dflt and idx % 2 == 0) else 'int'
        if extras.get('field-default') and not dflt and name != ctx_name:
            # a REQUIRED parameter described through pydantic.Field: the python default is a FieldInfo that carries no default value
            parts.append(f"{name}: {ann} = pydantic.Field(description='described', ge=0)")
            continue          # (every later parameter has a python default too: the signature stays legal)
        if dflt and extras.get('factory-default'):
            # a default the JSON schema cannot show (it is produced by a factory): the parameter may be omitted all the same
            parts.append(f"{name}: {ann} = pydantic.Field(default_factory=int)")
            continue
        parts.append(name + (f": {ann} = 0" if dflt else f': {ann}'))
    if extras.get('variadic') and not star:
        parts.append('*rest')
        star = True
    if skip:
        if not star:
            parts.append('*')
        parts.append({'by-name': "skip: str = 'skip-default'", 'default-none': 'skip: str = None',
                      'by-annotation': "skip: Injected = 'skip-default'"}[skip if isinstance(skip, str) else 'by-name'])
    return f"def {fname}({', '.join(parts)}):\n    return 'ok'"


def documented(kind, doc, key):
    """-> (names, required) or raises KeyError"""
    if kind == 'openrpc':
        m = next(m for m in doc['methods'] if m['name'] == key)
        names = [p['name'] for p in m['params']]
        return names, [p['name'] for p in m['params'] if p.get('required')]

    def deref(node):
        while isinstance(node, dict) and '$ref' in node:
            cur = doc
            for part in node['$ref'][2:].split('/'):
                cur = cur[part]
            node = cur
        return node
    op = doc['paths'][key]['post']
    schema = deref(op['requestBody']['content']['application/json']['schema'])
    params = deref(schema['properties']['params'])
    return list(params.get('properties', {})), list(params.get('required', []))


VALIDATORS = ['base', 'pydantic', 'pydantic:extra-ignore', 'pydantic:extra-allow:as-is']


def make_validator(name, pred):
    """whatever the validator and its configuration: a request naming an unlisted parameter is refused"""
    if name == 'base':
        return vbase.BaseValidator(exclude_param=pred)
    from pjrpc.server.validators import pydantic as vpd
    if name == 'pydantic':
        return vpd.PydanticValidator(exclude_param=pred)
    if name == 'pydantic:extra-ignore':
        return vpd.PydanticValidator(exclude_param=pred, extra='ignore')
    return vpd.PydanticValidator(coerce=False, exclude_param=pred, extra='allow')


# JSON values a by-name request may carry: acceptance by BINDING depends on the names only
VALUE_KINDS = [None, 0, False, '', [], {}, 'x', 1.5]


def value_variants(sub, predicted_ok, nth, validating, full):
    """-> [(label, params object)]: the plain all-numbers object, then objects whose values include JSON null / other kinds
    (quick tier: per conforming subset one null position - rotating with the subset index `nth` - and alternately all-null /
    other kinds; every 16th non-conforming subset. thorough: every null position, both, every 4th)"""
    plain = {n: 1 for n in sub}
    out = [('numbers', plain)]
    if not sub:
        return out
    if predicted_ok:
        out += [('one-null', dict(plain, **{n: None})) for i, n in enumerate(sub) if full or i == nth % len(sub)]
        if len(sub) > 1 and (full or nth % 2 == 0):
            out.append(('all-null', {n: None for n in sub}))
        if not validating and (full or nth % 2 == 1):
            out.append(('falsy-and-other-kinds', {n: VALUE_KINDS[(i + nth) % len(VALUE_KINDS)] for i, n in enumerate(sub)}))
    elif nth % (4 if full else 16) == 0:
        out.append(('one-null', dict(plain, **{sub[(nth // 4) % len(sub)]: None})))
    return out


SIBLING_NAMES = ['p', 'q', 'r', 's', 't']
SIBLING_DIFFS = ['renamed', 'one-more', 'one-less', 'defaults-flipped']


def sibling_params(params, diff):
    """the signature of ANOTHER callable that goes by the same name (an earlier API version, a redefined handler)"""
    ps = [tuple(p) for p in params]
    out = {'renamed': [(SIBLING_NAMES[i], k, d) for i, (n, k, d) in enumerate(ps)], 'one-less': ps[:-1],
           'defaults-flipped': [(n, k, not d) for n, k, d in ps]}.get(diff, list(ps))
    if out == ps:
        out = out + [('extra', 'KO', False)]
    return out


def in_factory(src):
    """the function is the inner function of a factory: __qualname__ 'make.<locals>.f' whatever its signature"""
    return 'def make():\n' + '\n'.join('    ' + l for l in src.splitlines()) + '\n    return f\n\nf = make()'


def view_source(src, inherited=False):
    if inherited:
        return 'class Mixin:\n' + '\n'.join('    ' + l for l in src.splitlines()) + \
               '\n\nclass V(ViewMixin, Mixin):\n    def __init__(self, context=None):\n        super().__init__()\n'
    return 'class V(ViewMixin):\n    def __init__(self, context=None):\n        super().__init__()\n' + \
           '\n'.join('    ' + l for l in src.splitlines())


def signature_view(fn, drop):
    """(by-name parameter names, those without a default) as Python sees the callable, minus the names in `drop`"""
    import inspect
    ps = [p for p in inspect.signature(fn).parameters.values()
          if p.kind in (p.POSITIONAL_OR_KEYWORD, p.KEYWORD_ONLY) and p.name not in drop]
    return [p.name for p in ps], [p.name for p in ps if p.default is inspect.Parameter.empty]


def probe_names(ctx, disp, tname, universe, names, required):
    """all params objects (values: numbers) over the subsets of `universe`: acceptance vs the document's prediction"""
    for r in range(len(universe) + 1):
        for sub in itertools.combinations(universe, r):
            ctx.hit('subsets-dispatched')
            pobj = {n: 1 for n in sub}
            try:
                out = disp.dispatch(json.dumps({'jsonrpc': '2.0', 'id': 1, 'method': tname, 'params': pobj}), context=world.Context('c17'))
                rdoc = strictjson.decode(out[0])
            except Exception as e:
                return f'dispatch-raises:{type(e).__name__}', pobj, None
            code = rdoc['error']['code'] if 'error' in rdoc else 0
            predicted_ok = set(sub) <= set(names) and set(required) <= set(sub)
            if predicted_ok and code == -32602:
                return 'params-satisfying-the-published-schema-refused', pobj, rdoc
            if not predicted_ok and code != -32602:
                why = 'unlisted-name' if not set(sub) <= set(names) else 'missing-required'
                return f'params-violating-the-published-schema-accepted:{why}:code{code}', pobj, rdoc
    return None


def run_method(ctx, params, ctx_at, positional, skip, style, validator='base', extras=None):
    params = [tuple(p) for p in params]
    as_view = style.startswith('view')
    ctx_name = 'ctx'
    if positional and ctx_at != 0:
        ctx.skip('positional-context-must-be-first')
        return
    ctx.hit('style:' + style)
    extras = dict(extras or {})
    if validator != 'base':
        extras['variadic'] = False      # *args under the pydantic validator is the known finding D4 (C04), not a documentation matter
    if validator == 'base' or ctx_at not in (None, 0) or style not in ('def', 'view') or positional:
        extras['field-default'] = False     # pydantic.Field defaults mean something to the pydantic validator only
    # [how, share, diff]: ANOTHER callable with the same method name, __module__ and __qualname__ but another signature is
    # documented by the same extractor object (share 'same-extractor': through another specification object; 'same-spec':
    # through the same one) BEFORE this one, and once more after it
    earlier = extras.pop('earlier', None)
    if earlier and style not in ('def', 'view'):
        earlier = None
    for k_, v_ in extras.items():
        if v_:
            ctx.hit('signature:' + k_)
    if style == 'wrapped':
        # a decorator that injects `session` and publishes the narrowed signature through __signature__
        src = render(params, ctx_at, ctx_name, skip, False, lead='session', fname='_inner', extras=extras) + (
            "\n\n@functools.wraps(_inner)\ndef f(*args, **kwargs):\n    return _inner('SESSION', *args, **kwargs)\n\n"
            "_sig = inspect.signature(_inner)\n"
            "f.__signature__ = _sig.replace(parameters=[p for p in _sig.parameters.values() if p.name != 'session'])")
    else:
        first = {'view': 'self', 'view-static': None, 'view-class': 'cls', 'view-static-inherited': None,
                 'view-class-inherited': 'cls'}.get(style, 'self')
        src = render(params, ctx_at, ctx_name, skip, as_view, first=first, extras=extras)
        if style.startswith('view-static'):
            src = '@staticmethod\n' + src
        elif style.startswith('view-class'):
            src = '@classmethod\n' + src
        if earlier and earlier[0] == 'factory' and style == 'def':
            src = in_factory(src)
    class Injected(str):
        """marker annotation of injected (excluded) parameters"""
    import functools
    import inspect
    import typing
    import pydantic
    ns = {'ViewMixin': pjrpc.server.ViewMixin, '__name__': 'vmon_c17_programs', 'Injected': Injected, 'functools': functools,
          'inspect': inspect, 'typing': typing, 'pydantic': pydantic}
    if skip is True:
        skip = 'by-name'
    pred = {None: None, False: None,
            'by-name': lambda name, ann, default: name == 'skip',
            # the predicate sees exactly what the signature holds: a parameter WITHOUT default has default == inspect.Parameter.empty
            'default-none': lambda name, ann, default: default is None,
            'by-annotation': lambda name, ann, default: ann is Injected}[skip]
    if skip:
        ctx.hit('exclusion:' + skip)
    vname = validator
    ctx.hit('validator:' + vname)
    validator = make_validator(vname, pred)
    # a view takes the context through its constructor: the designated context name may then coincide with an ordinary
    # parameter of the method, which stays an ordinary (documented, client-settable) parameter
    view_ctx = (params[0][0] if params else 'anything') if ctx_at is not None else None
    if as_view and view_ctx and params:
        ctx.hit('view:context-name-equals-a-parameter-name')
    try:
        if as_view:
            # ('-inherited': the method comes from a plain mixin; the registered view only inherits it)
            vsrc = view_source(src, style.endswith('-inherited'))
            exec(compile(vsrc, '<vmon_c17_programs>', 'exec', dont_inherit=True), ns)
            raw = inspect.getattr_static(ns['V'], 'f')
            validator.validate(getattr(raw, '__func__', raw))
            method = pjrpc.server.dispatcher.ViewMethod(ns['V'], 'f', 'f', context=view_ctx)
        else:
            exec(compile(src, '<vmon_c17_programs>', 'exec', dont_inherit=True), ns)
            validator.validate(ns['f'])
            if extras.get('via-copy'):
                # the Method object is derived from another one through the public copy(): name and context designation replaced
                proto = pjrpc.server.Method(ns['f'], 'proto', context=None if ctx_at is not None else None)
                if ctx_at is None and params:
                    proto = pjrpc.server.Method(ns['f'], 'proto', context=params[0][0])      # the prototype designated a context, the copy does not
                method = proto.copy(name='f', context=ctx_name if ctx_at is not None else None, positional=positional)
            else:
                method = pjrpc.server.Method(ns['f'], 'f', context=ctx_name if ctx_at is not None else None, positional=positional)
        disp = pjrpc.server.Dispatcher()
        disp.add_methods(method)
    except Exception as e:
        ctx.violation(f'registration-raises:{type(e).__name__}', 'build', (src, style), source=src, exception=e)
        return
    ctx.hit('methods')
    sib = None
    if earlier:
        how, share, diff = earlier
        sparams = sibling_params(params, diff)
        ssrc = render(sparams, ctx_at, ctx_name, skip, as_view, first='self')
        if how == 'factory' and style == 'def':
            ssrc = in_factory(ssrc)
        # a namespace of its own with the same module name (how 'redefined': the SAME namespace - the handler was redefined
        # and registered again, as after a reload)
        sns = ns if how == 'redefined' else dict(ns)
        main_fn = ns['V'] if as_view else ns['f']
        try:
            svalidator = make_validator(vname, pred)
            if as_view:
                exec(compile(view_source(ssrc), '<vmon_c17_programs>', 'exec', dont_inherit=True), sns)
                sfn = inspect.getattr_static(sns['V'], 'f')
                svalidator.validate(sfn)
                smethod = pjrpc.server.dispatcher.ViewMethod(sns['V'], 'f', 'f', context=view_ctx)
            else:
                exec(compile(ssrc, '<vmon_c17_programs>', 'exec', dont_inherit=True), sns)
                sfn = sns['f']
                svalidator.validate(sfn)
                smethod = pjrpc.server.Method(sfn, 'f', context=ctx_name if ctx_at is not None else None, positional=positional)
            sdisp = pjrpc.server.Dispatcher()
            sdisp.add_methods(smethod)
        except Exception as e:
            ctx.violation(f'registration-raises:{type(e).__name__}', 'build', (ssrc, style, 'sibling'), source=ssrc, exception=e)
            return
        if as_view:
            ns['V'] = main_fn
        else:
            ns['f'] = main_fn
        main_raw = inspect.getattr_static(main_fn, 'f') if as_view else main_fn
        if (sfn.__module__, sfn.__qualname__) != (main_raw.__module__, main_raw.__qualname__) or sfn is main_raw:
            ctx.skip('sibling-callable-does-not-share-module-and-qualname')
            earlier = None
        else:
            drop = {'self'} | ({ctx_name} if ctx_at is not None and not as_view else set()) | ({'skip'} if skip else set())
            snames, srequired = signature_view(sfn, drop)
            suniverse = snames + ['zz'] + ([ctx_name] if ctx_at is not None and not as_view else []) + (['skip'] if skip else [])
            sib = dict(method=smethod, disp=sdisp, names=snames, required=srequired, universe=suniverse, source=ssrc)
            ctx.hit('earlier-callable:' + how)
            ctx.hit('earlier-callable:' + share)
            ctx.hit('earlier-callable:signature-' + diff)
            ctx.hit('earlier-callable:' + ('view' if as_view else 'function'))
    etag = ':same-named-callable-documented-by-the-same-extractor-object' if sib else ''
    # a bystander whose name differs from the method's only in a separator, with a signature of its own: its documentation
    # must not replace the method's (it is registered last)
    try:
        def ns_f(zzz: int, qqq: int = 0):
            return 'bystander'
        bystander = pjrpc.server.Method(ns_f, 'ns_f')
        renamed = pjrpc.server.Method(ns['f'] if not as_view else None, 'ns.f', context=ctx_name if ctx_at is not None else None,
                                      positional=positional) if not as_view else None
        if renamed is not None:
            disp.add_methods(renamed)
        disp.add_methods(bystander)
    except Exception as e:
        ctx.violation(f'registration-raises:{type(e).__name__}', 'build', (src, style, 'bystander'), source=src, exception=e)
        return
    base_names = [p[0] for p in params]
    base_required = [p[0] for p in params if not p[2]]
    targets = [('f', method, base_names, base_required)]
    if renamed is not None:
        targets.append(('ns.f', renamed, base_names, base_required))
    extra_documented = [bystander]
    if ctx_at is not None and not as_view and not positional:
        # the same function object registered a second time WITHOUT a context designation: there `ctx` is an ordinary,
        # documented and required-or-not parameter like any other
        try:
            m2 = pjrpc.server.Method(ns['f'], 'f2')
            disp.add_methods(m2)
        except Exception as e:
            ctx.violation(f'registration-raises:{type(e).__name__}', 'build', (src, style, 'twin'), source=src, exception=e)
            return
        sig_names = _sig_names(ns['f'])
        names2 = [n for n in sig_names if n != 'skip']
        req2 = [n for n in names2 if n in base_required or (n == ctx_name and _ctx_required(ns['f'], ctx_name))]
        targets.append(('f2', m2, names2, req2))
        ctx.hit('twin-registration')
    universe = base_names + ['zz'] + ([ctx_name] if ctx_at is not None and not as_view else []) + (['skip'] if skip else []) + \
        (['rest'] if extras.get('variadic') else [])
    _raw = inspect.getattr_static(ns['V'], 'f') if as_view else ns['f']
    _sigp = inspect.signature(getattr(_raw, '__func__', _raw)).parameters

    def nullable(name):
        return name in _sigp and _sigp[name].annotation == typing.Optional[int]

    ex_kw = {'json_schema_serialization_defaults_required': True} if extras.get('extractor:serialization-defaults-required') else {}
    # (with an earlier callable: ONE extractor object serves every specification object of this case, whatever its kind)
    one_extractor = x_pd.PydanticSchemaExtractor(exclude_param=pred, **ex_kw) if sib else None

    def make_spec(kind, ex):
        if kind == 'openapi':
            return openapi.OpenAPI(info=openapi.Info(title='t', version='1'), schema_extractor=ex)
        if kind == 'openapi30':
            return openapi.OpenAPI(info=openapi.Info(title='t', version='1'), schema_extractor=ex, openapi='3.0.3')
        return openrpc.OpenRPC(info=openrpc.Info(title='t', version='1'), schema_extractor=ex)

    for kind in ('openapi', 'openapi30', 'openrpc'):
        fam = f'{kind}:{style}'
        wit = dict(source=src, style=style, context_position=ctx_at, context_positional=positional, exclusion=skip or None,
                   document=kind, validator=vname, view_context_name=view_ctx if as_view else None)
        cls0 = (src, style, positional, kind, vname)
        if extras.get('variadic') and vname != 'base':
            # pydantic models of *rest parameters are another matter (C14): the documents are judged, acceptance under the base validator
            pass
        if ctx_at is not None:
            ctx.hit(f'{kind}:context')
            if ctx_at > 0:
                ctx.hit('context:not-first')
            if positional:
                ctx.hit('context:positional')
        if skip:
            ctx.hit(f'{kind}:exclusion')
        if any(p[1] == 'KO' for p in params):
            ctx.hit(f'{kind}:keyword-only')
        if as_view:
            ctx.hit(f'{kind}:view')
        docs_ = {}
        failed = False
        try:
            # (a pydantic model option that concerns the SERIALIZATION schema of models: no parameter becomes required by it)
            ex = one_extractor or x_pd.PydanticSchemaExtractor(exclude_param=pred, **ex_kw)
            spec = make_spec(kind, ex)
            sib_docs = []
            if sib:
                sib_spec = spec if earlier[1] == 'same-spec' else make_spec(kind, ex)
                sib_docs.append(json.loads(json.dumps(sib_spec.schema(path='/api', methods_map={'': [sib['method']]}), cls=specs.JSONEncoder)))
            doc = spec.schema(path='/api', methods_map={'': [t[1] for t in targets] + extra_documented})
            doc = json.loads(json.dumps(doc, cls=specs.JSONEncoder))
            if sib:
                sib_docs.append(json.loads(json.dumps(sib_spec.schema(path='/api', methods_map={'': [sib['method']]}), cls=specs.JSONEncoder)))
            for tname, _, _, _ in targets:
                docs_[tname] = documented('openrpc' if kind == 'openrpc' else 'openapi', doc, f'/api#{tname}' if kind != 'openrpc' else tname)
            sib_docs = [documented('openrpc' if kind == 'openrpc' else 'openapi', d, '/api#f' if kind != 'openrpc' else 'f') for d in sib_docs]
        except Exception as e:
            ctx.violation(f'cannot-read-documented-parameters:{type(e).__name__}' + etag, fam, cls0, exception=e, **wit)
            continue
        # ---- the other callable of the same name: each of its documents (made before / after this one's) describes ITS signature
        for when, (names, required) in zip(('before', 'after'), sib_docs):
            ctx.hit('earlier-callable:documents-judged')
            w2 = dict(wit, source=sib['source'], documented_names=names, documented_required=required, generated=when + '-the-other-callables-document',
                      other_callable=src)
            if sorted(names) != sorted(sib['names']) or sorted(required) != sorted(sib['required']):
                # (the method under test's own names: the other callable of that name; anything else: a defect of another kind)
                ctx.violation('documented-names-differ-from-accepted:' + ('describes-another-callable-of-the-same-name' if sorted(names) == sorted(
                    base_names) and sorted(names) != sorted(sib['names']) else 'other-callable-of-the-same-name-misdescribed') + etag, fam,
                              cls0 + ('sibling', when), expected_names=sib['names'], expected_required=sib['required'], **w2)
                failed = True
                break
            if kind != 'openapi30':
                bad_s = probe_names(ctx, sib['disp'], 'f', sib['universe'], names, required)
                if bad_s:
                    ctx.violation(bad_s[0] + etag, fam, cls0 + ('sibling', when, json.dumps(bad_s[1])), params=bad_s[1], response=bad_s[2], **w2)
                    failed = True
                    break
            ctx.ok(fam + ':other-callable-of-the-same-name', cls0 + ('sibling', when, earlier[2]))
        for tname, _, want_names, want_required in targets:
            names, required = docs_[tname]
            w2 = dict(wit, method=tname, documented_names=names, documented_required=required)
            tag = (etag if tname == 'f' else ':twin-registration-without-context')
            if etag and tname == 'f' and sorted(names) == sorted(sib['names']) and sorted(names) != sorted(want_names):
                ctx.violation('documented-names-differ-from-accepted:describes-another-callable-of-the-same-name' + etag, fam, cls0 + (tname,),
                              expected_names=want_names, expected_required=want_required, **w2)
                failed = True
                continue
            if sorted(names) != sorted(want_names):
                extra = sorted(set(names) - set(want_names))
                missing = sorted(set(want_names) - set(names))
                what = ('documents-self' if 'self' in extra else 'documents-the-context-parameter' if ctx_name in extra else
                        'documents-an-excluded-parameter' if 'skip' in extra else 'documents-unknown-name' if extra else 'omits-a-parameter')
                ctx.violation(f'documented-names-differ-from-accepted:{what}{tag}', fam, cls0 + (tname,), expected_names=want_names,
                              extra=extra, missing=missing, **w2)
                failed = True
            elif sorted(required) != sorted(want_required):
                ctx.violation(f'required-list-differs-from-parameters-without-default{tag}', fam, cls0 + (tname,),
                              expected_required=want_required, **w2)
                failed = True
        if failed:
            continue
        # ---- the dispatcher as reference: all subsets, the registrations probed alternately
        if kind == 'openapi30':
            continue          # same request schema generator as 3.1: names and required lists were compared above
        bad = None
        validating = vname != 'base'
        nth = 0
        for r in range(len(universe) + 1):
            for sub in itertools.combinations(universe, r):
                nth += 1
                for tname, _, _, _ in targets:
                    if tname == 'ns.f':
                        continue      # the same Method configuration as 'f' under another name: documented names compared above
                    names, required = docs_[tname]
                    predicted_ok = set(sub) <= set(names) and set(required) <= set(sub)
                    # the VALUES: numbers first; then (all conforming subsets, every fourth of the others) JSON null and other kinds
                    for label, pobj in value_variants(sub, predicted_ok, nth, validating, ctx.thorough):
                        ctx.hit('subsets-dispatched')
                        vtag = ''
                        if label != 'numbers':
                            ctx.hit('values:' + label)
                            if predicted_ok:
                                for n_, v_ in pobj.items():
                                    if v_ is None:
                                        ctx.hit('values:null-for-a-' + ('nullable' if nullable(n_) else 'plain') + '-parameter-'
                                                + ('without' if n_ in required else 'with') + '-default')
                            vtag = ':values-include-null' if any(v is None for v in pobj.values()) else ':values-of-other-json-kinds'
                        text = json.dumps({'jsonrpc': '2.0', 'id': 1, 'method': tname, 'params': pobj})
                        try:
                            out = disp.dispatch(text, context=world.Context('c17'))
                            rdoc = strictjson.decode(out[0])
                        except Exception as e:
                            bad = (f'dispatch-raises:{type(e).__name__}' + vtag, pobj, None, tname)
                            break
                        code = rdoc['error']['code'] if 'error' in rdoc else 0
                        accepted = code != -32602
                        if validating and predicted_ok and not all(v == 1 or (v is None and nullable(n)) for n, v in pobj.items()):
                            # a validating validator may refuse the VALUE (null where the annotation excludes it): not a matter of binding
                            ctx.unjudge('null-for-a-non-nullable-annotation-under-a-validating-validator')
                            continue
                        ctx.hit('accepted' if accepted else 'refused')
                        if predicted_ok and not accepted:
                            bad = ('params-satisfying-the-published-schema-refused' + vtag, pobj, rdoc, tname)
                        elif not predicted_ok and accepted:
                            why = 'unlisted-name' if not set(sub) <= set(names) else 'missing-required'
                            bad = (f'params-violating-the-published-schema-accepted:{why}:code{code}' + vtag, pobj, rdoc, tname)
                        elif accepted and code != 0:
                            bad = (f'accepted-call-failed:code{code}' + vtag, pobj, rdoc, tname)
                        if bad:
                            break
                        if label != 'numbers' and predicted_ok:
                            ctx.hit('values:conforming-names-judged')
                        ctx.ok(fam + (':accepted' if accepted else ':refused'), (src, style, positional, kind, sub, tname, vname, label, json.dumps(pobj)),
                               sample=dict(wit, method=tname, params=pobj, response=rdoc))
                    if bad:
                        break
                if bad:
                    break
            if bad:
                break
        if bad:
            ctx.violation(bad[0], fam, cls0 + (json.dumps(bad[1]), bad[3]), params=bad[1], response=bad[2], method=bad[3],
                          documented=docs_[bad[3]], **wit)


def _sig_names(fn):
    import inspect
    return [n for n, p in inspect.signature(fn).parameters.items() if p.kind in (p.POSITIONAL_OR_KEYWORD, p.KEYWORD_ONLY)]


def _ctx_required(fn, name):
    import inspect
    return inspect.signature(fn).parameters[name].default is inspect.Parameter.empty


# incl. names that mean something inside a schema document or are parameter names of the library's own functions
PARAM_NAMES = ['a', 'signature', 'const', 'method', 'examples']


def signatures(max_params):
    out = []
    for n in range(0, max_params + 1):
        for kinds in itertools.product(('PK', 'KO'), repeat=n):
            if any(kinds[i] == 'KO' and kinds[i + 1] == 'PK' for i in range(n - 1)):
                continue
            n_pk = sum(1 for k in kinds if k == 'PK')
            for first_default in range(n_pk + 1):
                for ko_mask in range(2 ** (n - n_pk)):
                    ps = []
                    for i, k in enumerate(kinds):
                        if k == 'PK':
                            ps.append([PARAM_NAMES[i], k, i >= first_default])
                        else:
                            ps.append([PARAM_NAMES[i], k, bool(ko_mask >> (i - n_pk) & 1)])
                    out.append(ps)
    return out


def gen(ctx):
    deep = ctx.thorough
    full = True
    if deep:
        sigs = signatures(4)
        five = [s for s in signatures(5) if len(s) == 5]
        sigs = sigs + ctx.rng.sample(five, min(len(five), 60))
    else:
        four = [s for s in signatures(4) if len(s) == 4]
        sigs = signatures(3) + ctx.rng.sample(four, 40)
    k = 0
    for ps in sigs:
        n = len(ps)
        ctx_options = [(None, False)] + [(at, False) for at in range(n + 1)] + [(0, True)]
        for ctx_at, positional in ctx_options:
            for skip in (False, 'by-name', 'default-none', 'by-annotation'):
                for style in ('def', 'view', 'wrapped', 'view-static', 'view-class', 'view-static-inherited', 'view-class-inherited'):
                    k += 1
                    if style.startswith('view') and ctx_at not in (None, 0):
                        continue
                    if style in ('wrapped', 'view-static', 'view-class', 'view-static-inherited', 'view-class-inherited') and k % 3:
                        continue
                    if not full and k % 3 and not (ctx_at not in (None, 0)):
                        continue
                    earlier = None
                    if style in ('def', 'view') and k % (4 if deep else 8) == 2:
                        j = k // (4 if deep else 8)
                        earlier = [('exec', 'factory', 'redefined')[j % 3], ('same-extractor', 'same-spec')[(j // 3) % 2], SIBLING_DIFFS[(j // 6) % 4]]
                    ex = {'earlier': earlier, 'variadic': (k // 7) % 4 == 0 and style in ('def', 'view'), 'nullable': k % 4 == 1,
                          'field-default': (k // 3) % 3 == 0, 'extractor:serialization-defaults-required': (k // 5) % 4 == 0,
                          'factory-default': (k // 2) % 5 == 0, 'via-copy': (k // 11) % 2 == 0 and style == 'def'}
                    yield 'method', dict(params=ps, ctx_at=ctx_at, positional=positional, skip=skip, style=style,
                                         validator=VALIDATORS[(k // 2) % 4] if k % 3 == 0 else 'base', extras=ex)


KINDS = {'method': run_method}
