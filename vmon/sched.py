"""Controlled asyncio scheduler: instrumented coroutines park on futures; a driver releases exactly one per step.

A *schedule* is the sequence of release choices. All schedules of a run shape are enumerated by stateless DFS
(re-execution from scratch with a choice prefix). Only real suspension points of user code are used - nothing is
injected where cooperative code cannot yield.
"""
from __future__ import annotations

import asyncio
from typing import Any, Awaitable, Callable, Dict, List, Optional, Tuple


class Deadlock(Exception):
    pass


class Sched:
    def __init__(self, prefix: List[int]):
        self.prefix = list(prefix)
        self.taken: List[int] = []
        self.branching: List[int] = []
        self.parked: Dict[Tuple, asyncio.Future] = {}
        self.trace: List[Tuple] = []
        self._n = 0

    async def point(self, elem: Any, label: str) -> None:
        fut = asyncio.get_running_loop().create_future()
        self._n += 1
        self.parked[(elem, label, self._n)] = fut
        self.trace.append(('park', elem, label))
        await fut
        self.trace.append(('resume', elem, label))

    def mark(self, kind: str, elem: Any) -> None:
        self.trace.append((kind, elem))

    async def _settle(self) -> None:
        stable = 0
        last = (len(self.trace), len(self.parked))
        while stable < 4:
            await asyncio.sleep(0)
            cur = (len(self.trace), len(self.parked))
            stable = stable + 1 if cur == last else 0
            last = cur

    async def drive(self, make_coro: Callable[[], Awaitable[Any]]) -> Any:
        task = asyncio.ensure_future(make_coro())
        while True:
            await self._settle()
            if task.done():
                break
            if not self.parked:
                # the code under test is waiting on something we do not control
                for _ in range(50):
                    await asyncio.sleep(0)
                    if task.done() or self.parked:
                        break
                if task.done():
                    break
                if not self.parked:
                    task.cancel()
                    raise Deadlock('task neither finished nor parked at an instrumented point')
            keys = sorted(self.parked, key=lambda k: (str(k[0]), k[1], k[2]))
            pos = len(self.taken)
            c = self.prefix[pos] if pos < len(self.prefix) else 0
            if c >= len(keys):
                task.cancel()
                raise Deadlock(f'schedule prefix not replayable: choice {c} of {len(keys)}')
            self.branching.append(len(keys))
            self.taken.append(c)
            self.trace.append(('release', keys[c][0], keys[c][1]))
            self.parked.pop(keys[c]).set_result(None)
        return task.result()


def next_prefix(taken: List[int], branching: List[int]) -> Optional[List[int]]:
    """odometer step over the choice tree; None when exhausted"""
    for i in range(len(taken) - 1, -1, -1):
        if taken[i] + 1 < branching[i]:
            return taken[:i] + [taken[i] + 1]
    return None
