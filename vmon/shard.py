"""Shard entry: python -m vmon.shard PID TIER SEED SHARD NSHARDS OUT [REPLAY_CASE_JSON]"""
import json
import sys

from vmon import core

if __name__ == '__main__':
    pid, tier, seed, shard, nshards, out = sys.argv[1:7]
    replay = json.loads(sys.argv[7]) if len(sys.argv) > 7 else None
    core.run_shard(pid, tier, int(seed), int(shard), int(nshards), out, replay)
