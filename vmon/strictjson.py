"""RFC 8259 recogniser / decoder written for the monitors.

Shares no code with Python's ``json`` module (which is what pjrpc uses), so that
"is this text JSON?" and "what does this response text say?" are decided
independently of the code under test.

Differences from ``json.loads`` that matter here:
  * ``NaN``, ``Infinity``, ``-Infinity`` are rejected (not RFC 8259);
  * integer literals of any length are decoded (no 4300-digit limit);
  * nesting is handled iteratively (no RecursionError);
  * duplicate object members are reported through ``Decoded.duplicate_keys``.
"""
from __future__ import annotations

WS = ' \t\n\r'
DIGITS = '0123456789'
HEX = '0123456789abcdefABCDEF'


class NotJson(ValueError):
    pass


class BigInt:
    """Placeholder never used: big ints are decoded to real ``int`` objects."""


def _big_int(text: str) -> int:
    # int() refuses > 4300 digits (sys.int_max_str_digits); build it in chunks.
    neg = text.startswith('-')
    digits = text[1:] if neg else text
    if len(digits) <= 4000:
        value = int(digits)
    else:
        value = 0
        step = 4000
        for i in range(0, len(digits), step):
            chunk = digits[i:i + step]
            value = value * (10 ** len(chunk)) + int(chunk)
    return -value if neg else value


class Decoded:
    __slots__ = ('value', 'duplicate_keys', 'max_depth', 'max_int_digits', 'has_float')

    def __init__(self):
        self.value = None
        self.duplicate_keys = False
        self.max_depth = 0
        self.max_int_digits = 0
        self.has_float = False


def _parse_string(s: str, i: int) -> tuple:
    # s[i] == '"'
    n = len(s)
    i += 1
    out = []
    while True:
        if i >= n:
            raise NotJson('unterminated string')
        c = s[i]
        if c == '"':
            return ''.join(out), i + 1
        if c == '\\':
            i += 1
            if i >= n:
                raise NotJson('bad escape')
            e = s[i]
            if e == 'u':
                h = s[i + 1:i + 5]
                if len(h) != 4 or any(ch not in HEX for ch in h):
                    raise NotJson('bad \\u escape')
                cp = int(h, 16)
                i += 5
                if 0xD800 <= cp <= 0xDBFF and s[i:i + 2] == '\\u':
                    h2 = s[i + 2:i + 6]
                    if len(h2) == 4 and all(ch in HEX for ch in h2):
                        cp2 = int(h2, 16)
                        if 0xDC00 <= cp2 <= 0xDFFF:
                            cp = 0x10000 + ((cp - 0xD800) << 10) + (cp2 - 0xDC00)
                            i += 6
                out.append(chr(cp))
                continue
            m = {'"': '"', '\\': '\\', '/': '/', 'b': '\b', 'f': '\f', 'n': '\n', 'r': '\r', 't': '\t'}.get(e)
            if m is None:
                raise NotJson('bad escape')
            out.append(m)
            i += 1
            continue
        if ord(c) < 0x20:
            raise NotJson('control character in string')
        out.append(c)
        i += 1


def _parse_number(s: str, i: int, info: Decoded) -> tuple:
    n = len(s)
    j = i
    if j < n and s[j] == '-':
        j += 1
    if j >= n or s[j] not in DIGITS:
        raise NotJson('bad number')
    if s[j] == '0':
        j += 1
    else:
        while j < n and s[j] in DIGITS:
            j += 1
    is_float = False
    if j < n and s[j] == '.':
        is_float = True
        j += 1
        if j >= n or s[j] not in DIGITS:
            raise NotJson('bad fraction')
        while j < n and s[j] in DIGITS:
            j += 1
    if j < n and s[j] in 'eE':
        is_float = True
        j += 1
        if j < n and s[j] in '+-':
            j += 1
        if j >= n or s[j] not in DIGITS:
            raise NotJson('bad exponent')
        while j < n and s[j] in DIGITS:
            j += 1
    lit = s[i:j]
    if is_float:
        info.has_float = True
        return float(lit), j
    info.max_int_digits = max(info.max_int_digits, len(lit.lstrip('-')))
    return _big_int(lit), j


def decode_ex(s: str) -> Decoded:
    """Decodes ``s`` or raises NotJson. Iterative (explicit stack)."""
    if not isinstance(s, str):
        raise NotJson('not a text')
    info = Decoded()
    n = len(s)
    i = 0
    # stack of [container, pending_key or None, state]
    stack: list = []
    result_set = False
    result = None

    def skip_ws(k: int) -> int:
        while k < n and s[k] in WS:
            k += 1
        return k

    def put(value) -> None:
        nonlocal result, result_set
        if not stack:
            result = value
            result_set = True
            return
        top = stack[-1]
        if isinstance(top[0], list):
            top[0].append(value)
        else:
            if top[1] in top[0]:
                info.duplicate_keys = True
            top[0][top[1]] = value
            top[1] = None
        top[2] = 'after_value'

    i = skip_ws(i)
    expect_value = True
    while True:
        if expect_value:
            if i >= n:
                raise NotJson('unexpected end')
            c = s[i]
            if c == '{':
                stack.append([{}, None, 'start'])
                info.max_depth = max(info.max_depth, len(stack))
                i = skip_ws(i + 1)
                if i < n and s[i] == '}':
                    obj = stack.pop()[0]
                    i += 1
                    put(obj)
                    expect_value = False
                else:
                    # expect key
                    if i >= n or s[i] != '"':
                        raise NotJson('expected object key')
                    key, i = _parse_string(s, i)
                    i = skip_ws(i)
                    if i >= n or s[i] != ':':
                        raise NotJson('expected colon')
                    stack[-1][1] = key
                    i = skip_ws(i + 1)
                    expect_value = True
                continue
            if c == '[':
                stack.append([[], None, 'start'])
                info.max_depth = max(info.max_depth, len(stack))
                i = skip_ws(i + 1)
                if i < n and s[i] == ']':
                    arr = stack.pop()[0]
                    i += 1
                    put(arr)
                    expect_value = False
                else:
                    expect_value = True
                continue
            if c == '"':
                v, i = _parse_string(s, i)
                put(v)
            elif c == '-' or c in DIGITS:
                v, i = _parse_number(s, i, info)
                put(v)
            elif s.startswith('true', i):
                i += 4
                put(True)
            elif s.startswith('false', i):
                i += 5
                put(False)
            elif s.startswith('null', i):
                i += 4
                put(None)
            else:
                raise NotJson('unexpected character')
            expect_value = False
            continue
        # after a value
        i = skip_ws(i)
        if not stack:
            if i != n:
                raise NotJson('trailing data')
            break
        if i >= n:
            raise NotJson('unexpected end')
        top = stack[-1]
        c = s[i]
        if isinstance(top[0], list):
            if c == ',':
                i = skip_ws(i + 1)
                expect_value = True
            elif c == ']':
                arr = stack.pop()[0]
                i += 1
                put(arr)
            else:
                raise NotJson('expected , or ]')
        else:
            if c == ',':
                i = skip_ws(i + 1)
                if i >= n or s[i] != '"':
                    raise NotJson('expected object key')
                key, i = _parse_string(s, i)
                i = skip_ws(i)
                if i >= n or s[i] != ':':
                    raise NotJson('expected colon')
                top[1] = key
                i = skip_ws(i + 1)
                expect_value = True
            elif c == '}':
                obj = stack.pop()[0]
                i += 1
                put(obj)
            else:
                raise NotJson('expected , or }')
    if not result_set:
        raise NotJson('empty')
    info.value = result
    return info


def decode(s: str):
    return decode_ex(s).value


def is_json(s: str) -> bool:
    try:
        decode_ex(s)
        return True
    except NotJson:
        return False


GAP_TOKENS = ('NaN', 'Infinity', '-Infinity')


def typed_eq(a, b) -> bool:
    """Structural equality that distinguishes bool from int, int from float, 1 from "1"."""
    if type(a) is not type(b):
        # JSON has one number type, but pjrpc admits integers only for ids and Python keeps them
        # apart; a float 1.0 and an int 1 are different wire texts, so keep them different.
        return False
    if isinstance(a, dict):
        if a.keys() != b.keys():
            return False
        return all(typed_eq(a[k], b[k]) for k in a)
    if isinstance(a, list):
        return len(a) == len(b) and all(typed_eq(x, y) for x, y in zip(a, b))
    if isinstance(a, float):
        return a == b or (a != a and b != b)
    return a == b
