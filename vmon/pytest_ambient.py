"""pytest plugin: runs the repository's own test-suite under the ambient contracts (python -m pytest -p vmon.pytest_ambient).
The report goes to the file named by VMON_AMBIENT_REPORT."""
import json
import os

from . import ambient


def pytest_configure(config):
    ambient.install()


def pytest_sessionfinish(session, exitstatus):
    path = os.environ.get('VMON_AMBIENT_REPORT')
    if path:
        with open(path, 'w') as f:
            json.dump(ambient.REPORT, f, default=repr)
