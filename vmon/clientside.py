"""Client-side harness: loop-back / scripted transports for the real pjrpc clients (C07-C09, C11, C19, C20)."""
from __future__ import annotations

from typing import Any, Callable, List, Optional

import pjrpc
from pjrpc.client import AbstractAsyncClient, AbstractClient

from . import world


class Wire:
    """What the transport saw."""

    def __init__(self) -> None:
        self.sent: List[dict] = []      # {'text':…, 'is_notification':…, 'kwargs':…}

    def clear(self) -> None:
        self.sent.clear()


class SyncClient(AbstractClient):
    """The real synchronous client over a caller-supplied transport function."""

    def __init__(self, transport: Callable[[str, bool, dict], Optional[str]], endpoint: str = 'ep', **kw: Any):
        super().__init__(**kw)
        self._transport = transport
        self._endpoint = endpoint
        self.wire = Wire()

    def _request(self, request_text: str, is_notification: bool = False, **kwargs: Any) -> Optional[str]:
        self.wire.sent.append({'text': request_text, 'is_notification': is_notification, 'kwargs': kwargs})
        return self._transport(request_text, is_notification, kwargs)


class AsyncClient(AbstractAsyncClient):
    """The real asynchronous client over a caller-supplied (sync or async) transport function."""

    def __init__(self, transport: Callable[[str, bool, dict], Any], endpoint: str = 'ep', **kw: Any):
        super().__init__(**kw)
        self._transport = transport
        self._endpoint = endpoint
        self.wire = Wire()

    async def _request(self, request_text: str, is_notification: bool = False, **kwargs: Any) -> Optional[str]:
        self.wire.sent.append({'text': request_text, 'is_notification': is_notification, 'kwargs': kwargs})
        r = self._transport(request_text, is_notification, kwargs)
        if hasattr(r, '__await__'):
            r = await r
        return r


def loopback_transport(w: world.World, from_async_client: bool):
    """Transport that hands the text to a real dispatcher of the probe world and returns its response text."""
    if w.is_async and from_async_client:
        async def transport(text, is_notification, kwargs):
            out = await w.dispatcher.dispatch(text)
            return None if out is None else out[0]
        return transport

    def transport_sync(text, is_notification, kwargs):
        if w.is_async:
            # sync client -> async dispatcher run to completion (the sync client is never inside the loop)
            out = world.run(w.dispatcher.dispatch(text))
        else:
            out = w.dispatcher.dispatch(text)
        return None if out is None else out[0]
    return transport_sync


def outcome_of(fn: Callable[[], Any], is_async: bool):
    """('ret', value) / ('exc', exception) of a client operation; coroutines are run to completion."""
    try:
        v = fn()
        if is_async:
            v = world.run(v)
        return 'ret', v
    except BaseException as e:
        if isinstance(e, (KeyboardInterrupt, SystemExit)):
            raise
        return 'exc', e
