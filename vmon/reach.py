"""Reach recorder: sys.monitoring LINE events restricted to <repo>/pjrpc.

Each (code object, line) fires once (the callback returns DISABLE), so the cost is a few percent.
The report maps anchored functions (file + qualname prefix) to executed / executable line counts, which
is the evidence that a workload actually drove the mechanism a property is anchored in.
"""
from __future__ import annotations

import os
import sys
from typing import Any, Dict, List, Set, Tuple

TOOL_ID = 3  # sys.monitoring.PROFILER_ID + 1 is free for tools


class Recorder:
    def __init__(self, repo: str):
        self.prefix = os.path.join(os.path.realpath(repo), 'pjrpc') + os.sep
        self.lines: Dict[Tuple[str, str], Set[int]] = {}
        self.codes: Dict[Tuple[str, str], Any] = {}
        self.active = False

    def start(self) -> None:
        mon = sys.monitoring
        try:
            mon.use_tool_id(TOOL_ID, 'vmon-reach')
        except ValueError:
            return
        mon.register_callback(TOOL_ID, mon.events.LINE, self._on_line)
        mon.set_events(TOOL_ID, mon.events.LINE)
        self.active = True

    def stop(self) -> None:
        if not self.active:
            return
        mon = sys.monitoring
        mon.set_events(TOOL_ID, 0)
        mon.register_callback(TOOL_ID, mon.events.LINE, None)
        mon.free_tool_id(TOOL_ID)
        self.active = False

    def _on_line(self, code, line):
        fn = code.co_filename
        if fn.startswith(self.prefix):
            key = (fn[len(self.prefix) - 6:], code.co_qualname)
            s = self.lines.get(key)
            if s is None:
                s = self.lines[key] = set()
                self.codes[key] = code
            s.add(line)
        return sys.monitoring.DISABLE

    def report(self, anchors: List[Tuple[str, str]]) -> List[Dict[str, Any]]:
        out = []
        for file, qual in anchors:
            hit: Set[int] = set()
            total: Set[int] = set()
            for (f, q), lines in self.lines.items():
                if f == file and (q == qual or q.startswith(qual + '.')):
                    hit |= lines
                    code = self.codes[(f, q)]
                    total |= {ln for _, _, ln in code.co_lines() if ln is not None and ln != code.co_firstlineno}
            out.append({'file': file, 'qualname': qual, 'lines': sorted(hit), 'total': len(total | hit)})
        return out
