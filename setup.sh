#!/bin/sh
# setup_cmd: offline, idempotent. Installs the contract library used by the ambient monitors beside the
# framework (never into /venv) and creates the output directories.
set -e
cd "$(dirname "$0")"
mkdir -p evidence replays
if [ ! -d .deps/icontract ]; then
  /venv/bin/pip install --quiet --no-index --find-links /opt/veriftools/wheels --target .deps icontract \
    || echo "setup: icontract not installed (ambient contracts will report zero evaluations)"
fi
/venv/bin/python -c "import sys; assert sys.version_info >= (3, 12), sys.version"
echo "setup ok"
