#!/venv/bin/python
"""Gap finder (no verdict): which function-body lines of /repo/pjrpc does NO check's workload execute?

Runs every check's quick tier (scratch evidence dir) with VERIF_COVDIR set, so that every shard dumps the
pjrpc lines its sys.monitoring recorder saw, and prints per file the executable lines that were never hit, grouped
by function.  Lines nobody drives are where a property-breaking change cannot be observed; the list is used to decide
what to widen next.  usage: tools/libcov.py [--tier quick] [--only C01,C02] [--files dispatcher.py]
"""
import argparse
import concurrent.futures as cf
import glob
import json
import os
import shutil
import subprocess
import sys
import tempfile

HERE = os.path.dirname(os.path.dirname(os.path.abspath(__file__)))
REPO = os.environ.get('VERIF_REPO', '/repo')
ALL = [f'C{i:02d}' for i in range(1, 21)]
SKIP_DIRS = ('integration/starlette', 'integration/django', 'integration/kombu', 'integration/aio_pika',
             'backend/kombu', 'backend/aio_pika')


def executable(path):
    """{line: qualname} for every line inside a function body of the file."""
    src = open(path).read()
    top = compile(src, path, 'exec')
    out = {}

    def walk(code, qual):
        for c in code.co_consts:
            if hasattr(c, 'co_code'):
                q = c.co_qualname
                if c.co_flags & 0x1:      # CO_OPTIMIZED: a function body (class bodies run at import, before recording)
                    for _, _, ln in c.co_lines():
                        if ln is not None and ln != c.co_firstlineno:
                            out.setdefault(ln, q)
                walk(c, q)
    walk(top, '')
    return out


def run(pid, tier, covdir):
    ev = tempfile.mkdtemp(prefix='libcov-', dir='/var/tmp')
    env = dict(os.environ, VERIF_EVIDENCE_DIR=ev, VERIF_REPLAY_DIR=ev, VERIF_COVDIR=covdir)
    r = subprocess.run([os.path.join(HERE, 'check'), pid, '--tier', tier], capture_output=True, text=True, env=env, cwd=HERE)
    shutil.rmtree(ev, ignore_errors=True)
    return pid, r.returncode


def main():
    ap = argparse.ArgumentParser()
    ap.add_argument('--tier', default='quick')
    ap.add_argument('--only', default='')
    ap.add_argument('--files', default='')
    ap.add_argument('--jobs', type=int, default=3)
    ap.add_argument('--keep', default='')
    a = ap.parse_args()
    covdir = a.keep or tempfile.mkdtemp(prefix='libcov-data-', dir='/var/tmp')
    os.makedirs(covdir, exist_ok=True)
    pids = [p for p in a.only.split(',') if p] or ALL
    with cf.ThreadPoolExecutor(a.jobs) as ex:
        for pid, rc in ex.map(lambda p: run(p, a.tier, covdir), pids):
            print(f'# {pid} rc={rc}', file=sys.stderr)
    hit = {}
    byp = {}
    for fn in glob.glob(os.path.join(covdir, '*.json')):
        pid = os.path.basename(fn).split('-')[0]
        for f, lines in json.load(open(fn)).items():
            hit.setdefault(f, set()).update(lines)
            for ln in lines:
                byp.setdefault((f, ln), set()).add(pid)
    tot = miss = 0
    for root, _, files in os.walk(os.path.join(REPO, 'pjrpc')):
        for name in sorted(files):
            if not name.endswith('.py'):
                continue
            path = os.path.join(root, name)
            rel = 'pjrpc/' + os.path.relpath(path, os.path.join(REPO, 'pjrpc'))
            if any(s in rel for s in SKIP_DIRS) or (a.files and not any(x in rel for x in a.files.split(','))):
                continue
            ex_lines = executable(path)
            h = hit.get(rel, set())
            missing = sorted(set(ex_lines) - h)
            tot += len(ex_lines)
            miss += len(missing)
            if missing:
                print(f'== {rel}: {len(missing)} of {len(ex_lines)} body lines never executed')
                src = open(path).read().splitlines()
                cur = None
                for ln in missing:
                    if ex_lines[ln] != cur:
                        cur = ex_lines[ln]
                        print(f'  -- {cur}')
                    print(f'     {ln:4d}: {src[ln - 1].strip()[:110]}')
    print(f'TOTAL body lines {tot}, never executed {miss}')
    if not a.keep:
        shutil.rmtree(covdir, ignore_errors=True)


if __name__ == '__main__':
    main()
