#!/venv/bin/python
"""Runs checks against a seeded change without touching /repo.

usage: tools/seedrun.py <dir-with-patch.diff | patch file> [--checks C01,C02] [--tier quick] [--tests] [--demo]
Creates a scratch git worktree of /repo's HEAD outside /repo and /verif, applies the patch, optionally runs the
repository's baseline tests and the seed's demo, runs the requested checks with VERIF_REPO pointing at the scratch tree
(evidence and replays go to a scratch directory too), prints one line per check, and removes the worktree.
"""
import argparse
import json
import os
import shutil
import subprocess
import sys
import tempfile

HERE = os.path.dirname(os.path.dirname(os.path.abspath(__file__)))


def sh(cmd, **kw):
    return subprocess.run(cmd, capture_output=True, text=True, **kw)


def main():
    ap = argparse.ArgumentParser()
    ap.add_argument('seed')
    ap.add_argument('--checks', default='')
    ap.add_argument('--tier', default='quick')
    ap.add_argument('--tests', action='store_true')
    ap.add_argument('--demo', action='store_true')
    ap.add_argument('--seed-value', type=int, default=0)
    ap.add_argument('--keep', action='store_true')
    a = ap.parse_args()
    patch = os.path.join(a.seed, 'patch.diff') if os.path.isdir(a.seed) else a.seed
    seed_dir = os.path.dirname(os.path.abspath(patch))
    meta = {}
    if os.path.exists(os.path.join(seed_dir, 'meta.json')):
        meta = json.load(open(os.path.join(seed_dir, 'meta.json')))
    checks = [c for c in a.checks.split(',') if c] or meta.get('expected_checks') or [meta.get('property')]
    base = os.environ.get('TMPDIR', '/var/tmp')
    wt = tempfile.mkdtemp(prefix='pjrpc-mut-', dir=base)
    os.rmdir(wt)
    out = {'patch': patch, 'applied': False, 'checks': {}}
    try:
        r = sh(['git', '-C', '/repo', 'worktree', 'add', '--detach', wt, 'HEAD'])
        if r.returncode:
            print(r.stderr)
            return 2
        r = sh(['git', '-C', wt, 'apply', os.path.abspath(patch)])
        if r.returncode:
            r = sh(['patch', '-p1', '--fuzz=3', '--no-backup-if-mismatch', '-N', '-i', os.path.abspath(patch)], cwd=wt)
            if r.returncode:
                sh(['git', '-C', wt, 'checkout', '--', '.'])
        if r.returncode:
            print('PATCH-DOES-NOT-APPLY', patch, r.stderr[-500:], r.stdout[-500:])
            return 2
        out['applied'] = True
        if a.tests:
            r = sh([os.path.join(HERE, 'tools', 'baseline.py'), wt])
            out['tests'] = r.stdout.strip().splitlines()[0] if r.stdout else r.stderr[-300:]
            out['tests_ok'] = r.returncode == 0
            print('tests:', out['tests'], 'ok' if out['tests_ok'] else 'REGRESSION')
        if a.demo and os.path.exists(os.path.join(seed_dir, 'demo.py')):
            env = dict(os.environ, PYTHONPATH=wt, PYTHONDONTWRITEBYTECODE='1')
            r = sh(['/venv/bin/python', os.path.join(seed_dir, 'demo.py')], env=env, cwd=seed_dir)
            r0 = sh(['/venv/bin/python', os.path.join(seed_dir, 'demo.py')],
                    env=dict(os.environ, PYTHONPATH='/repo', PYTHONDONTWRITEBYTECODE='1'), cwd=seed_dir)
            out['demo_patched_rc'], out['demo_clean_rc'] = r.returncode, r0.returncode
            print(f'demo: patched rc={r.returncode} clean(/repo HEAD) rc={r0.returncode}')
        scratch = tempfile.mkdtemp(prefix='pjrpc-mut-ev-', dir=base)
        env = dict(os.environ, VERIF_REPO=wt, VERIF_EVIDENCE_DIR=scratch, VERIF_REPLAY_DIR=scratch,
                   VERIF_SEED=str(a.seed_value))
        for c in checks:
            r = sh([os.path.join(HERE, 'check'), c, '--tier', a.tier], env=env, cwd=HERE)
            lines = [l for l in r.stdout.splitlines() if l.startswith(('VIOLATION', 'INCONCLUSIVE', 'HELD', 'KNOWN'))]
            verdict = {0: 'held', 1: 'VIOLATION', 2: 'inconclusive'}.get(r.returncode, f'rc={r.returncode}')
            mechs = [l.split('mechanism=')[1].split()[0] for l in lines if 'mechanism=' in l and l.startswith('VIOLATION')]
            out['checks'][c] = {'verdict': verdict, 'mechanisms': mechs}
            print(f'{c}: {verdict} {mechs[:4]}')
            if r.returncode == 2:
                print('   ', '\n    '.join(lines[:3]), r.stderr[-800:])
        shutil.rmtree(scratch, ignore_errors=True)
        print('SUMMARY ' + json.dumps(out))
        return 0
    finally:
        if not a.keep:
            sh(['git', '-C', '/repo', 'worktree', 'remove', '--force', wt])
            shutil.rmtree(wt, ignore_errors=True)


if __name__ == '__main__':
    sys.exit(main())
