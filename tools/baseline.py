#!/venv/bin/python
"""Runs the repository's pinned test-suite (guard OFF) and compares with /root/.vp/BASELINE.json.
usage: tools/baseline.py [repo_dir]   exit 0 iff every stable_pass test passes."""
import json
import os
import subprocess
import sys
import tempfile
import xml.etree.ElementTree as ET

repo = sys.argv[1] if len(sys.argv) > 1 else '/repo'
base = json.load(open('/root/.vp/BASELINE.json'))
fd, xml = tempfile.mkstemp(suffix='.xml', dir='/var/tmp')
os.close(fd)
env = dict(os.environ)
env.pop('PJRPC_VERIF', None)
env['PYTHONPATH'] = repo
env['PYTHONDONTWRITEBYTECODE'] = '1'
subprocess.run(['/venv/bin/python', '-m', 'pytest', '-q', '-p', 'no:cacheprovider', '--timeout=900',
                '--continue-on-collection-errors', f'--junitxml={xml}'], cwd=repo, env=env,
               stdout=subprocess.DEVNULL, stderr=subprocess.DEVNULL)
passed = set()
failed = set()
for tc in ET.parse(xml).getroot().iter('testcase'):
    name = f"{tc.get('classname')}::{tc.get('name')}"
    if any(ch.tag in ('failure', 'error') for ch in tc):
        failed.add(name)
    elif not any(ch.tag == 'skipped' for ch in tc):
        passed.add(name)
os.unlink(xml)
missing = sorted(set(base['stable_pass']) - passed)
newly = sorted(passed - set(base['stable_pass']))
print(f'passed={len(passed)} failed={len(failed)} baseline_missing={len(missing)} newly_passing={len(newly)}')
for m in missing:
    print('  REGRESSION', m)
sys.exit(1 if missing else 0)
