#!/venv/bin/python
"""Prints the markdown tables of DESIGN.md §8 from seeded/MATRIX.json, seeded/*/meta.json, known_findings.json,
seeded/FIXCHECK.json; with --write substitutes them between the <!-- X_BEGIN --> / <!-- X_END --> markers of DESIGN.md."""
import io
import json
import os
import sys

_out = io.StringIO()
_print = print


def print(*a, **k):          # noqa: A001 - collect the output so that --write can split it
    _print(*a, **k, file=_out)


HERE = os.path.dirname(os.path.dirname(os.path.abspath(__file__)))
m = json.load(open(os.path.join(HERE, 'seeded', 'MATRIX.json')))
print('| seeded change | breaks | needs, in order to manifest | caught by (quick tier) |')
print('|---|---|---|---|')
for s in sorted(m):
    meta = json.load(open(os.path.join(HERE, 'seeded', s, 'meta.json')))
    caught = sorted(c for c, v in m[s].items() if v['verdict'] == 'VIOLATION')
    own = meta['property']
    caught = [f'**{c}**' if c == own else c for c in caught]
    print(f"| {s} | {own} | {meta['needs_to_manifest']} | {', '.join(caught)} |")
print()
k = json.load(open(os.path.join(HERE, 'known_findings.json')))['findings']
fx = {(e['property'], e['commit']): e for e in json.load(open(os.path.join(HERE, 'seeded', 'FIXCHECK.json')))}
print('| property | fix commit | what failed | detected on parent of fix | silent on fix commit |')
print('|---|---|---|---|---|')
for e in k:
    if e['status'] == 'fixed':
        f = fx.get((e['property'], e['commit']), {})
        what = e['line'].split(e['commit'], 1)[1].strip()
        print(f"| {e['property']} | {e['commit']} | {what} | {f.get('detected_on_parent_of_fix', '?')} | {f.get('absent_on_fix_commit', '?')} |")
print()
print('| id | property | open finding | why not repaired |')
print('|---|---|---|---|')
for e in k:
    if e['status'] == 'open':
        print(f"| {e.get('id')} | {e['property']} | {e['what']} | see `where`: {e['where']} |")

text = _out.getvalue()
if '--write' in sys.argv:
    seed, fixed, openf = [b.strip() for b in text.strip().split('\n\n')]
    p = os.path.join(HERE, 'DESIGN.md')
    s = open(p).read()
    for name, block in (('SEED_TABLE', seed), ('FIXED_TABLE', fixed), ('OPEN_TABLE', openf)):
        a, b = f'<!-- {name}_BEGIN -->', f'<!-- {name}_END -->'
        i, j = s.index(a) + len(a), s.index(b)
        s = s[:i] + '\n' + block + '\n' + s[j:]
    open(p, 'w').write(s)
    _print('DESIGN.md tables rewritten')
else:
    _print(text)
