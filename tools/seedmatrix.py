#!/venv/bin/python
"""Runs every seeded change in /verif/seeded against every check (quick tier) and writes seeded/MATRIX.json.
usage: tools/seedmatrix.py [--jobs N] [--only C01a,C02b] [--checks C01,C02] [--tier quick]"""
import argparse
import concurrent.futures as cf
import json
import os
import subprocess
import sys

HERE = os.path.dirname(os.path.dirname(os.path.abspath(__file__)))
ALL = [f'C{i:02d}' for i in range(1, 21)]


# which checks drive which part of the library (by workload, see DESIGN.md §3)
RELATED = [
    ('pjrpc/server/dispatcher.py', ['C01', 'C02', 'C03', 'C04', 'C12', 'C15']),
    ('pjrpc/server/utils.py', ['C04', 'C15', 'C16', 'C17']),
    ('pjrpc/server/typedefs.py', ['C12']),
    ('pjrpc/server/validators/', ['C03', 'C04', 'C14']),
    ('pjrpc/server/specs/', ['C16', 'C17']),
    ('pjrpc/server/integration/', ['C18', 'C12']),
    ('pjrpc/common/', ['C01', 'C02', 'C05', 'C06', 'C07', 'C08']),
    ('pjrpc/client/client.py', ['C07', 'C08', 'C09', 'C19']),
    ('pjrpc/client/retry.py', ['C09', 'C19']),
    ('pjrpc/client/tracer.py', ['C19']),
    ('pjrpc/client/integrations/pytest.py', ['C20']),
    ('pjrpc/client/backend/', ['C07']),
    ('pjrpc/__init__.py', ['C01', 'C05', 'C07']),
]


def one(seed, checks, tier):
    r = subprocess.run([os.path.join(HERE, 'tools', 'seedrun.py'), os.path.join(HERE, 'seeded', seed), '--checks', ','.join(checks),
                        '--tier', tier], capture_output=True, text=True)
    line = [l for l in r.stdout.splitlines() if l.startswith('SUMMARY ')]
    if not line:
        return seed, {'error': (r.stdout + r.stderr)[-400:]}
    return seed, json.loads(line[0][8:])['checks']


def main():
    ap = argparse.ArgumentParser()
    ap.add_argument('--jobs', type=int, default=4)
    ap.add_argument('--only', default='')
    ap.add_argument('--checks', default='')
    ap.add_argument('--tier', default='quick')
    ap.add_argument('--own', action='store_true', help="only the check of the property each seed breaks")
    ap.add_argument('--related', action='store_true',
                    help="the own check plus the checks whose workloads exercise the files the change touches")
    a = ap.parse_args()
    seeds = sorted(d for d in os.listdir(os.path.join(HERE, 'seeded')) if os.path.isdir(os.path.join(HERE, 'seeded', d)))
    if a.only:
        seeds = [s for s in seeds if s in a.only.split(',')]
    # round by round (all `a` changes first, then `b`, ...): an interrupted run has covered every property evenly
    seeds.sort(key=lambda s_: (s_[3:], s_[:3]))
    checks = a.checks.split(',') if a.checks else ALL
    path = os.path.join(HERE, 'seeded', 'MATRIX.json')
    matrix = json.load(open(path)) if os.path.exists(path) else {}
    def own_of(seed):
        return json.load(open(os.path.join(HERE, 'seeded', seed, 'meta.json')))['property']

    def related_of(seed):
        files = [l[6:].strip() for l in open(os.path.join(HERE, 'seeded', seed, 'patch.diff')) if l.startswith('+++ b/')]
        out = {own_of(seed)}
        for f in files:
            for prefix, cs in RELATED:
                if f.startswith(prefix):
                    out.update(cs)
        return sorted(out)

    with cf.ThreadPoolExecutor(a.jobs) as ex:
        for seed, res in ex.map(lambda s: one(s, [own_of(s)] if a.own else (related_of(s) if a.related else checks), a.tier), seeds):
            prev = matrix.get(seed, {})
            if 'error' in res:
                print(seed, 'ERROR', res['error'])
                continue
            prev.update(res)
            matrix[seed] = prev
            own = json.load(open(os.path.join(HERE, 'seeded', seed, 'meta.json')))['property']
            caught = [c for c, v in prev.items() if v['verdict'] == 'VIOLATION']
            incon = [c for c, v in prev.items() if v['verdict'] == 'inconclusive']
            print(f"{seed} (breaks {own}): caught by {caught or 'NONE'}" + (f' inconclusive: {incon}' if incon else '')
                  + ('' if own in caught else f'   <-- own check {own} did not fire'), flush=True)
            with open(path + '.tmp', 'w') as f:          # incremental: an interrupted run keeps what it has
                json.dump(matrix, f, indent=1, sort_keys=True)
            os.replace(path + '.tmp', path)


if __name__ == '__main__':
    sys.exit(main())
