#!/venv/bin/python
"""Regression self-test over the repaired defects: for every `fixed` entry of known_findings.json, check out the parent
of its fix: commit into a scratch worktree (outside /repo and /verif), run the property's quick check against it and
expect a VIOLATION whose mechanism is the recorded one; then run the same check on the fix commit itself and expect it
not to report that mechanism. Shows that (a) each monitor really detects the defect it led to and (b) a fixed entry
suppresses nothing.  usage: tools/fixcheck.py [--only C08] [--jobs 4]"""
import argparse
import concurrent.futures as cf
import json
import os
import shutil
import subprocess
import sys
import tempfile

HERE = os.path.dirname(os.path.dirname(os.path.abspath(__file__)))


def sh(cmd, **kw):
    return subprocess.run(cmd, capture_output=True, text=True, **kw)


def run_at(rev, pid):
    wt = tempfile.mkdtemp(prefix='pjrpc-fix-', dir='/var/tmp')
    os.rmdir(wt)
    ev = tempfile.mkdtemp(prefix='pjrpc-fix-ev-', dir='/var/tmp')
    try:
        r = sh(['git', '-C', '/repo', 'worktree', 'add', '--detach', wt, rev])
        if r.returncode:
            return None, r.stderr
        env = dict(os.environ, VERIF_REPO=wt, VERIF_EVIDENCE_DIR=ev, VERIF_REPLAY_DIR=ev)
        r = sh([os.path.join(HERE, 'check'), pid, '--tier', 'quick'], env=env, cwd=HERE)
        mechs = [l.split('mechanism=')[1].split()[0] for l in r.stdout.splitlines() if l.startswith('VIOLATION') and 'mechanism=' in l]
        return mechs, r.stdout[-300:]
    finally:
        sh(['git', '-C', '/repo', 'worktree', 'remove', '--force', wt])
        shutil.rmtree(wt, ignore_errors=True)
        shutil.rmtree(ev, ignore_errors=True)


def one(entry):
    pid, commit, mech = entry['property'], entry['commit'], entry['mechanism']
    before, _ = run_at(commit + '~1', pid)
    after, _ = run_at(commit, pid)
    ok_before = before is not None and mech in before
    ok_after = after is not None and mech not in after
    return pid, commit, mech, before, after, ok_before, ok_after


def main():
    ap = argparse.ArgumentParser()
    ap.add_argument('--only', default='')
    ap.add_argument('--jobs', type=int, default=4)
    a = ap.parse_args()
    entries = [e for e in json.load(open(os.path.join(HERE, 'known_findings.json')))['findings'] if e['status'] == 'fixed']
    if a.only:
        entries = [e for e in entries if e['property'] in a.only.split(',')]
    bad = 0
    out = []
    with cf.ThreadPoolExecutor(a.jobs) as ex:
        for pid, commit, mech, before, after, okb, oka in ex.map(one, entries):
            status = 'ok' if okb and oka else 'PROBLEM'
            bad += status != 'ok'
            print(f'{status:8} {pid} {commit} detected-before-fix={okb} gone-after-fix={oka} mechanism={mech}')
            if not okb:
                print('         mechanisms reported before the fix:', before)
            out.append({'property': pid, 'commit': commit, 'mechanism': mech, 'detected_on_parent_of_fix': okb,
                        'absent_on_fix_commit': oka, 'mechanisms_on_parent': before})
    path = os.path.join(HERE, 'seeded', 'FIXCHECK.json')
    merged = {}
    if os.path.exists(path):
        merged = {(e['property'], e['commit']): e for e in json.load(open(path))}
    merged.update({(e['property'], e['commit']): e for e in out})
    with open(path, 'w') as f:
        json.dump(sorted(merged.values(), key=lambda e: (e['property'], e['commit'])), f, indent=1)
    return 1 if bad else 0


if __name__ == '__main__':
    sys.exit(main())
